"""
Runtime shared by the interpreter: class table built from the sources, attribute and item
protocols, operators, built-in and standard-library models.
"""
import ast

import z3

from . import core
from .core import (EngineError, Undecided, Sym, SBool, SInt, SOid, SXVal, SBytes, SStr, SPy, And, Or, Not,
                   lift_bool, lift_int, zbool, zint, OID, XVal, Bytes, PStr, PyV, Int, Bool)
from .objects import (PyExc, ReturnSignal, PyClass, Obj, NT, Closure, LambdaFn, BoundMethod, Builtin,
                      ModuleObj, PropertyObj, StaticM, ClassM, Opaque, GenResult, PDict, PSet, ASet)
from .interp import Frame

BUILTIN_EXC = {
    "BaseException": None, "Exception": "BaseException", "TypeError": "Exception", "ValueError": "Exception",
    "LookupError": "Exception", "KeyError": "LookupError", "IndexError": "LookupError",
    "RuntimeError": "Exception", "NotImplementedError": "RuntimeError", "AttributeError": "Exception", "FrozenInstanceError": "AttributeError",
    "StopIteration": "Exception", "ImportError": "Exception", "OSError": "Exception",
    "ConnectionRefusedError": "OSError", "AssertionError": "Exception", "NameError": "Exception",
    "UnboundLocalError": "NameError", "ArithmeticError": "Exception", "ZeroDivisionError": "ArithmeticError",
    "OverflowError": "ArithmeticError", "UnicodeError": "ValueError", "TimeoutError": "OSError",
    "CancelledError": "BaseException", "UserWarning": "Exception",
}


class Runtime:
    def __init__(self, program, theory, prop="C00"):
        self.program = program
        self.theory = theory
        self.prop = prop
        self.hooks = {}            # "module:qualname" -> fn(interp, closure, args, kwargs)
        # x690.util.visible_octets (a hexdump for debug logs, dependency code): a pure function of its argument to a string
        self.hooks["x690.util:visible_octets"] = lambda interp, closure, args, kwargs: interp.ctx.fresh_str("hexdump")
        self.attr_hooks = {}       # (class fullname, attr) -> fn(interp, obj)
        self.module_cache = {}
        self.class_cache = {}
        self.builtin_classes = {}
        self.native_modules = {}
        self.builtins = {}
        self.lit_bytes = {}
        self.lit_strs = {}
        self.lit_oids = {}
        self.class_ids = {}
        self.opaque_calls = []
        self.used_models = set()
        self.pending_tasks = []
        self.executed = set()        # source functions whose bodies were executed from their ASTs
        self.by_contract = set()     # source functions replaced by a contract / model at the call
        self.global_ids = {}        # id(container) -> where it was created (module-level state)
        self.global_writes = []
        for name, base in BUILTIN_EXC.items():
            self.builtin_class(name)
        self.object_class = PyClass("object", [], kind="builtin")
        self._declare_functions()
        from . import stdlib
        stdlib.install(self)

    # ------------------------------------------------------------------ uninterpreted functions
    def _declare_functions(self):
        F = z3.Function
        self.f_blen = F("blen", Bytes, Int)
        self.f_slen = F("slen", PStr, Int)
        self.f_xtruth = F("xtruth", XVal, Bool)
        self.f_pytruth = F("pytruth", PyV, Bool)
        self.f_cls = F("cls_of", XVal, Int)
        self.f_pyz = F("pythonize", XVal, PyV)
        self.f_xvalue = F("x690_value", XVal, PyV)
        self.f_oidstr = F("oid_str", OID, PStr)
        self.f_str_ascii = F("str_encode_ascii", PStr, Bytes)
        self.f_bcat = F("bcat", Bytes, Bytes, Bytes)

    def blen(self, e):
        self.theory.add_once("blen>=0", lambda: z3.ForAll([z3.Const("b", Bytes)], self.f_blen(z3.Const("b", Bytes)) >= 0))
        return self.f_blen(e)

    def slen(self, e):
        return self.f_slen(e)

    def xtruth(self, e):
        return self.f_xtruth(e)

    def pytruth(self, e):
        return self.f_pytruth(e)

    # ------------------------------------------------------------------ literals
    def bytes_lit(self, b):
        """Embed a concrete bytes literal into the Bytes sort (distinct literals are distinct)."""
        if b not in self.lit_bytes:
            c = z3.Const("bytes!lit!%s" % (b.hex() or "empty"), Bytes)
            for other, oc in self.lit_bytes.items():
                self.theory.add("lit-distinct", c != oc, light=True)
            self.theory.add("lit-len", self.f_blen(c) == len(b), light=True)
            self.lit_bytes[b] = c
        return self.lit_bytes[b]

    def str_lit(self, s):
        if s not in self.lit_strs:
            c = z3.Const("str!lit!%s" % s.encode().hex(), PStr)
            for other, oc in self.lit_strs.items():
                self.theory.add("lit-distinct", c != oc, light=True)
            self.theory.add("lit-len", self.f_slen(c) == len(s), light=True)
            self.lit_strs[s] = c
        return self.lit_strs[s]

    def to_bytes_expr(self, v):
        if isinstance(v, SBytes):
            return v.e
        if isinstance(v, (bytes, bytearray)):
            return self.bytes_lit(bytes(v))
        raise EngineError("not bytes: %r" % (v,))

    def to_str_expr(self, v):
        if isinstance(v, SStr):
            return v.e
        if isinstance(v, str):
            return self.str_lit(v)
        raise EngineError("not str: %r" % (v,))

    # ------------------------------------------------------------------ classes
    def builtin_class(self, name):
        if name not in self.builtin_classes:
            base = BUILTIN_EXC.get(name)
            bases = [self.builtin_class(base)] if base else []
            self.builtin_classes[name] = PyClass(name, bases, kind="exception-builtin")
        return self.builtin_classes[name]

    def is_exception_class(self, cls):
        return self.builtin_classes["BaseException"] in cls.mro()

    @staticmethod
    def is_library_obj(obj):
        """an instance of a library / environment class the engine only MODELS (timedelta, transports, plug-in slots ...):
        whatever the model does not list is undecided, never an interpreted AttributeError / TypeError"""
        return isinstance(obj, Obj) and any(getattr(c, "kind", "") == "builtin" for c in obj.cls.mro())

    def make_exception(self, cls, args):
        return Obj(cls, {"args": tuple(args)})

    def class_id(self, cls):
        if cls not in self.class_ids:
            self.class_ids[cls] = len(self.class_ids) + 1
        return self.class_ids[cls]

    def get_class(self, info, interp=None):
        """PyClass for a ClassInfo (bases and decorators are evaluated from the source)."""
        if info in self.class_cache:
            return self.class_cache[info]
        cls = PyClass(info.name, [], info=info, module=info.module.name)
        self.class_cache[info] = cls
        mod = self.import_module(info.module.name)
        helper = interp or self._static_interp()
        frame = Frame(None, mod)
        for b in info.base_exprs:
            bexpr = b
            while isinstance(bexpr, ast.Subscript):      # Generic[...] / X690Type[int]
                bexpr = bexpr.value
            name = ast.unparse(bexpr)
            if name in ("Generic", "Protocol", "object"):
                continue
            if name in ("NamedTuple", "typing.NamedTuple"):
                cls.kind = "namedtuple"
                continue
            if name in ("Enum", "str"):
                if name == "Enum":
                    cls.kind = "enum"
                continue
            bv = helper.eval(bexpr, frame)
            if isinstance(bv, PyClass):
                cls.bases.append(bv)
            elif isinstance(bv, Opaque):
                continue
            else:
                raise Undecided("base class %s of %s is not resolvable" % (name, info.fullname))
        for d in info.decorators:
            txt = ast.unparse(d)
            if txt.startswith("dataclass"):
                cls.kind = "dataclass"
                cls.frozen = "frozen=True" in txt
        if any(b.kind == "namedtuple" for b in cls.bases):
            cls.kind = "namedtuple"
        undecorated_dc_child = False
        if cls.kind == "plain" and any(b.kind == "dataclass" for b in cls.bases):
            # a subclass of a dataclass that is not decorated itself inherits the generated __init__/__eq__:
            # its own annotations do not add fields
            cls.kind = "dataclass"
            cls.frozen = any(b.frozen for b in cls.bases if b.kind == "dataclass")
            undecorated_dc_child = True
        # fields (dataclass / namedtuple), including inherited ones
        if cls.kind in ("dataclass", "namedtuple"):
            fields, defaults = [], {}
            for b in reversed(cls.mro()[1:]):
                if b.kind == cls.kind:
                    for f in b.fields:
                        if f not in fields:
                            fields.append(f)
                    defaults.update(b.field_defaults)
            for f in ([] if undecorated_dc_child else info.ann_fields):
                if f not in fields:
                    fields.append(f)
                if f in info.ann_defaults:
                    defaults[f] = info.ann_defaults[f]
            cls.fields = fields
            cls.field_defaults = defaults
        if "__slots__" in info.attr_nodes:
            try:
                cls.slots = ast.literal_eval(info.attr_nodes["__slots__"])
            except Exception:
                cls.slots = None
        if cls.kind == "enum":
            for k, node in info.attr_nodes.items():
                member = Obj(cls, {"name": k, "value": ast.literal_eval(node), "_enum": True})
                cls.attrs[k] = member
        return cls

    def _static_interp(self):
        from .interp import Interp
        ctx = core.Ctx(self.theory, [], core.Stats())
        return Interp(self.program, ctx, self)

    def class_attr(self, interp, cls, name):
        """Look a name up through the MRO; returns (found, value) with functions as Closures."""
        for c in cls.mro():
            if name in c.native_attrs:
                return True, c.native_attrs[name]
            if name in c.attrs:
                return True, c.attrs[name]
            if c.info is None:
                continue
            if name in c.info.methods:
                fi = c.info.methods[name]
                mod = self.import_module(c.info.module.name)
                frame = Frame(None, mod)
                defaults = [interp.eval(d, frame) for d in fi.node.args.defaults]
                kwd = {p.arg: interp.eval(d, frame)
                       for p, d in zip(fi.node.args.kwonlyargs, fi.node.args.kw_defaults) if d is not None}
                val = Closure(fi, None, defaults, kwd, mod)
                for dec in reversed(fi.decorators):
                    val = self.apply_decorator(interp, dec, val, frame)
                c.attrs[name] = val
                return True, val
            if name in c.info.attr_nodes and c.kind != "enum":
                mod = self.import_module(c.info.module.name)
                frame = Frame(None, mod)
                # class bodies can refer to earlier class attributes
                frame.locals = _ClassScope(self, interp, c)
                val = interp.eval(c.info.attr_nodes[name], frame)
                c.attrs[name] = val
                # a value created in a class body is shared by every instance (and every client): module-level state
                self.mark_global(val, "%s.%s" % (c.fullname, name))
                return True, val
        return False, None

    def lookup_method(self, cls, name):
        interp = self._static_interp()
        found, v = self.class_attr(interp, cls, name)
        if found and isinstance(v, (Closure, StaticM, ClassM, Builtin)):
            return v
        return None

    def bind(self, m, obj):
        if isinstance(m, StaticM):
            return m.func
        if isinstance(m, ClassM):
            return BoundMethod(m.func, obj.cls if isinstance(obj, Obj) else obj)
        return BoundMethod(m, obj)

    def _lru_wrap(self, val):
        """lru_cache: results that are immutable values need no cache model (the function is deterministic, equal arguments
        give equal values). A result that is a heap object is ALIASED between calls with equal arguments - a caller that
        modifies it modifies what every other caller got (seed C19-q). The store lives in the path context (one per path)."""
        from .objects import Obj as _Obj, PDict as _PDict, Builtin as _Builtin
        rt = self

        def call(i, a, k):
            store = i.ctx.__dict__.setdefault("_lru_store", {}).setdefault(id(val), [])
            for pa, pk, res in store:
                if len(pa) != len(a) or sorted(pk) != sorted(k):
                    continue
                c = core.And(*([i.eq(x, y) for x, y in zip(pa, a)] + [i.eq(pk[n], k[n]) for n in k]))
                if c is True or (c is not False and i.ctx.branch(core.lift_bool(c))):
                    return res
            res = i.call(val, list(a), dict(k))
            if isinstance(res, (_Obj, _PDict, list, dict, set)):
                store.append((list(a), dict(k), res))
            return res
        b = _Builtin("lru_cache(%s)" % getattr(val, "name", "function"), call)
        b.wrapped = val
        return b

    def apply_decorator(self, interp, dec, val, frame):
        txt = ast.unparse(dec)
        if txt == "property":
            return PropertyObj(val)
        if txt == "staticmethod":
            return StaticM(val)
        if txt == "classmethod":
            return ClassM(val)
        if txt.endswith(".setter"):
            return val
        if txt.startswith("lru_cache") or txt.startswith("functools.lru_cache"):
            self.theory.note("functools.lru_cache: the wrapped function is executed on every call (deterministic); a MUTABLE result "
                             "is shared - a later call with equal arguments returns the same object (eviction is not modelled)")
            return self._lru_wrap(val)
        if txt == "contextmanager":
            val.attrs["contextmanager"] = True
            return val
        if txt in ("overload", "abstractmethod"):
            return val
        if txt.startswith("pytest") or txt.startswith("deprecated"):
            return val
        d = interp.eval(dec, frame)
        return interp.call(d, [val], {})

    def instantiate(self, interp, cls, args, kwargs):
        hook = self.hooks.get("new:" + cls.fullname)
        if hook is not None:
            res = hook(interp, cls, args, kwargs)
            if res is not NotImplemented:
                return res
        if cls.kind == "namedtuple":
            vals = list(args)
            fields = cls.fields
            if len(vals) > len(fields):
                interp.raise_py("TypeError", "too many arguments for %s" % cls.name)
            for f in fields[len(vals):]:
                if f in kwargs:
                    vals.append(kwargs.pop(f))
                elif f in cls.field_defaults:
                    vals.append(self._field_default(interp, cls, f))
                else:
                    interp.raise_py("TypeError", "%s() missing argument %r" % (cls.name, f))
            if kwargs:
                interp.raise_py("TypeError", "%s() got an unexpected keyword argument" % cls.name)
            return NT(cls, vals)
        if cls.kind == "exception-builtin":
            return self.make_exception(cls, args)
        if cls.kind == "builtin":
            return Obj(cls)
        obj = Obj(cls)
        found, init = self.class_attr(interp, cls, "__init__")
        if found and isinstance(init, Closure):
            interp.call(BoundMethod(init, obj), args, kwargs)
        elif cls.kind == "dataclass":
            self._dataclass_init(interp, cls, obj, args, kwargs)
        elif self.is_exception_class(cls):
            obj.fields["args"] = tuple(args)
        elif found and isinstance(init, Builtin):
            init.fn(interp, [obj] + args, kwargs)
        elif args or kwargs:
            interp.raise_py("TypeError", "%s() takes no arguments" % cls.name)
        return obj

    def _field_default(self, interp, cls, f):
        node = cls.field_defaults[f]
        for c in cls.mro():
            if c.info is not None and f in c.info.ann_defaults and c.info.ann_defaults[f] is node:
                mod = self.import_module(c.info.module.name)
                return interp.eval(node, Frame(None, mod))
        raise EngineError("default of %s.%s" % (cls.name, f))

    def _dataclass_init(self, interp, cls, obj, args, kwargs):
        fields = cls.fields
        if len(args) > len(fields):
            interp.raise_py("TypeError", "%s() takes %d positional arguments" % (cls.name, len(fields)))
        vals = dict(zip(fields, args))
        for k, v in kwargs.items():
            if k not in fields:
                interp.raise_py("TypeError", "%s() got an unexpected keyword argument %r" % (cls.name, k))
            if k in vals:
                interp.raise_py("TypeError", "%s() got multiple values for %r" % (cls.name, k))
            vals[k] = v
        for f in fields:
            if f not in vals:
                if f in cls.field_defaults:
                    vals[f] = self._field_default(interp, cls, f)
                else:
                    interp.raise_py("TypeError", "%s() missing argument %r" % (cls.name, f))
        obj.fields.update(vals)

    def make_super(self, interp, frame):
        f = frame
        while f is not None and (f.func is None or f.func.info.cls is None):
            f = f.parent
        if f is None:
            interp.unsupported("super() outside a method")
        cls = self.get_class(f.func.info.cls, interp)
        first = f.func.info.node.args.args[0].arg
        self_obj = f.locals[first]
        return _Super(cls, self_obj)

    # ------------------------------------------------------------------ modules / names
    def import_module(self, name):
        if name in self.module_cache:
            return self.module_cache[name]
        info = self.program.module(name)
        if info is not None:
            m = ModuleObj(name, info=info)
        elif name in self.native_modules:
            m = ModuleObj(name, native=self.native_modules[name])
        else:
            # namespace package or unknown external module
            if any(n.startswith(name + ".") for n in self.program.modules):
                m = ModuleObj(name, native={})
            else:
                m = ModuleObj(name, native=None)
        self.module_cache[name] = m
        return m

    def module_attr(self, interp, mod, name, node=None):
        if name in mod.cache:
            return mod.cache[name]
        val = _MISSING
        if mod.info is not None:
            info = mod.info
            if name in info.functions:
                fi = info.functions[name]
                frame = Frame(None, mod)
                defaults = [interp.eval(d, frame) for d in fi.node.args.defaults]
                kwd = {p.arg: interp.eval(d, frame)
                       for p, d in zip(fi.node.args.kwonlyargs, fi.node.args.kw_defaults) if d is not None}
                val = Closure(fi, None, defaults, kwd, mod)
                for dec in reversed(fi.decorators):
                    val = self.apply_decorator(interp, dec, val, frame)
            elif name in info.classes:
                val = self.get_class(info.classes[name], interp)
            elif name in info.assigns:
                hook = self.hooks.get("const:%s:%s" % (mod.name, name))
                if hook is not None:
                    val = hook(interp)
                else:
                    val = interp.eval(info.assigns[name], Frame(None, mod))
                    self.mark_global(val, "%s.%s" % (mod.name, name))
            elif name in info.imports:
                src, attr = info.imports[name]
                target = self.import_module(src)
                if attr is None:
                    val = target
                else:
                    sub = self.program.module(src + "." + attr)
                    if sub is not None or (target.native is not None and target.info is None and attr not in (target.native or {})
                                           and any(n.startswith(src + "." + attr) for n in self.program.modules)):
                        val = self.import_module(src + "." + attr)
                    else:
                        val = self.module_attr(interp, target, attr, node)
            else:
                sub = self.program.module(mod.name + "." + name)
                if sub is not None:
                    val = self.import_module(mod.name + "." + name)
        elif mod.native is not None:
            if name in mod.native:
                val = mod.native[name]
            else:
                sub = mod.name + "." + name
                if self.program.module(sub) is not None or sub in self.native_modules or any(
                        n.startswith(sub + ".") for n in self.program.modules):
                    val = self.import_module(sub)
        if val is _MISSING:
            if mod.native is None and mod.info is None:
                val = Opaque("%s.%s" % (mod.name, name))
            elif mod.info is None and mod.name in ("typing", "typing_extensions"):
                val = Opaque("typing.%s" % name)
            else:
                raise Undecided("name %s not found in module %s" % (name, mod.name))
        mod.cache[name] = val
        return val

    def global_lookup(self, interp, frame, name, node=None):
        mod = frame.module
        if mod.info is not None and (name in mod.info.functions or name in mod.info.classes
                                     or name in mod.info.assigns or name in mod.info.imports):
            return self.module_attr(interp, mod, name, node)
        if name in self.builtins:
            return self.builtins[name]
        if name in self.builtin_classes:
            return self.builtin_classes[name]
        # a local that is assigned somewhere in the function but not yet bound
        if frame.func is not None and _assigned_in(frame.func.info.node, name):
            interp.raise_py("UnboundLocalError", name)
        import builtins as _py_builtins
        if hasattr(_py_builtins, name):
            raise Undecided("the built-in `%s` is not modelled" % name)
        interp.raise_py("NameError", name)

    # ------------------------------------------------------------------ attributes
    def getattr(self, interp, obj, name, node=None):
        from . import stdlib
        if isinstance(obj, Builtin) and name in getattr(obj, "attrs", {}):
            return obj.attrs[name]
        if isinstance(obj, Obj):
            hook = None
            for c in obj.cls.mro():
                hook = self.attr_hooks.get((c.fullname, name))
                if hook is not None:
                    break
            if hook is not None:
                res = hook(interp, obj)
                if res is not NotImplemented:
                    return res
            if name in obj.fields:
                return obj.fields[name]
            if name == "__class__":
                return obj.cls
            found, v = self.class_attr(interp, obj.cls, name)
            if found:
                if isinstance(v, stdlib.CachedProperty):
                    val = interp.call(v.fget, [obj], {})          # computed once, then an instance attribute
                    obj.fields[name] = val
                    return val
                if isinstance(v, PropertyObj):
                    return interp.call(v.fget, [obj], {})
                if isinstance(v, (Closure, Builtin)):
                    return BoundMethod(v, obj)
                if isinstance(v, StaticM):
                    return v.func
                if isinstance(v, ClassM):
                    return BoundMethod(v.func, obj.cls)
                return v
            if self.is_exception_class(obj.cls) and name == "args":
                return obj.fields.get("args", ())
            if self.is_library_obj(obj):
                # a library / environment-model / contract-slot object: what it does not model is undecided, not an AttributeError
                raise Undecided("the model object %s has no attribute %r" % (obj.cls.name, name))
            interp.raise_py("AttributeError", "%r object has no attribute %r" % (obj.cls.name, name))
        if isinstance(obj, _Super):
            for c in obj.cls.mro()[1:]:
                found, v = (name in c.native_attrs and (True, c.native_attrs[name])) or self._own_attr(interp, c, name)
                if found:
                    if isinstance(v, (Closure, Builtin)):
                        return BoundMethod(v, obj.self_obj)
                    if isinstance(v, ClassM):
                        return BoundMethod(v.func, obj.self_obj if isinstance(obj.self_obj, PyClass) else obj.self_obj.cls)
                    if isinstance(v, StaticM):
                        return v.func
                    return v
            if name == "__init__":
                return Builtin("object.__init__", _object_init(self, obj))
            if name == "__init_subclass__":
                return Builtin("noop", lambda i, a, k: None)
            interp.raise_py("AttributeError", "super object has no attribute %r" % name)
        if isinstance(obj, PyClass):
            if name == "__name__":
                return obj.name
            if name == "__subclasses__":
                return Builtin("__subclasses__", lambda i, a, k: self.subclasses(i, obj))
            found, v = self.class_attr(interp, obj, name)
            if found:
                if isinstance(v, ClassM):
                    return BoundMethod(v.func, obj)
                if isinstance(v, StaticM):
                    return v.func
                return v
            interp.raise_py("AttributeError", "type object %r has no attribute %r" % (obj.name, name))
        if isinstance(obj, ModuleObj):
            if name in ("__name__",):
                return obj.name
            if name == "__path__":
                return [obj.name]
            return self.module_attr(interp, obj, name, node)
        if isinstance(obj, NT):
            if name in obj.pycls.fields:
                return obj[obj.pycls.fields.index(name)]
            if name == "_replace":
                return Builtin("_replace", lambda i, a, k: NT(obj.pycls, [k.get(f, v) for f, v in zip(obj.pycls.fields, obj)]))
            if name == "_asdict":
                return Builtin("_asdict", lambda i, a, k: PDict(list(zip(obj.pycls.fields, obj))))
            found, v = self.class_attr(interp, obj.pycls, name)
            if found:
                if isinstance(v, PropertyObj):
                    return interp.call(v.fget, [obj], {})
                if isinstance(v, (Closure, Builtin)):
                    return BoundMethod(v, obj)
                if isinstance(v, StaticM):
                    return v.func
                return v
            interp.raise_py("AttributeError", "%r has no attribute %r" % (obj.pycls.name, name))
        if isinstance(obj, Builtin) and isinstance(getattr(obj, "wrapped", None), Closure):
            obj = obj.wrapped        # attributes of an lru_cache wrapper are those of the wrapped function (functools.wraps)
        if isinstance(obj, Closure):
            if name == "__name__":
                return obj.attrs.get("__name__", obj.name)
            if name in obj.attrs:
                return obj.attrs[name]
            interp.raise_py("AttributeError", name)
        if isinstance(obj, BoundMethod):
            if name == "__name__":
                return self.getattr(interp, obj.func, "__name__")
            interp.raise_py("AttributeError", name)
        if obj is None:
            interp.raise_py("AttributeError", "'NoneType' object has no attribute %r" % name)
        if isinstance(obj, Opaque):
            return Opaque(obj.name + "." + name)
        res = stdlib.native_getattr(self, interp, obj, name)
        if res is not _MISSING and res is not stdlib.MISSING:
            return res
        interp.unsupported("attribute %r of %r" % (name, obj), node)

    def _own_attr(self, interp, c, name):
        if name in c.attrs:
            return True, c.attrs[name]
        if c.info is not None and (name in c.info.methods or name in c.info.attr_nodes):
            tmp = PyClass(c.name, [], info=c.info, module=c.module, kind=c.kind)
            tmp.attrs = c.attrs
            return self.class_attr(interp, tmp, name)
        return False, None

    def subclasses(self, interp, cls):
        out = []
        for mname, m in sorted(self.program.modules.items()):
            if not mname.startswith(cls.module.split(".")[0]):
                continue
            for cname, ci in m.classes.items():
                c = self.get_class(ci, interp)
                if cls in c.bases:
                    out.append(c)
        # definition order within the defining module is what CPython gives
        out.sort(key=lambda c: (c.module != cls.module, c.module, c.info.node.lineno))
        return out

    def setattr(self, interp, obj, name, value):
        if isinstance(obj, Obj):
            if obj.cls.kind == "dataclass" and obj.cls.frozen:
                cls = self.builtin_class("FrozenInstanceError")       # dataclasses.FrozenInstanceError(AttributeError)
                raise PyExc(self.make_exception(cls, ["cannot assign to field %r" % name]))
            found, v = self.class_attr(interp, obj.cls, name)
            if found and isinstance(v, PropertyObj):
                # property with setter: x690 raw_bytes
                setter = self.lookup_setter(interp, obj.cls, name)
                if setter is not None:
                    interp.call(BoundMethod(setter, obj), [value], {})
                    return
            frame_hook = self.hooks.get("setattr")
            if frame_hook is not None:
                frame_hook(interp, obj, name, value)
            if name != "_raw_bytes" or obj.fields.get(name) not in (None, b""):
                # (x690 objects cache their own serialisation in `_raw_bytes` on first use: an idempotent write)
                self.note_write(obj, name)
            obj.fields[name] = value
            return
        if isinstance(obj, Builtin) and isinstance(getattr(obj, "wrapped", None), Closure):
            obj = obj.wrapped
        if isinstance(obj, Closure):
            obj.attrs[name] = value
            return
        if isinstance(obj, PyClass):
            if obj.info is not None:
                self.global_writes.append("class attribute %s.%s" % (obj.fullname, name))
            obj.attrs[name] = value
            return
        interp.unsupported("attribute assignment on %r" % (obj,))

    def lookup_setter(self, interp, cls, name):
        for c in cls.mro():
            if c.info is None:
                continue
            for st in c.info.node.body:
                if isinstance(st, ast.FunctionDef) and st.name == name:
                    for d in st.decorator_list:
                        if ast.unparse(d) == "%s.setter" % name:
                            from .loader import FuncInfo
                            fi = FuncInfo(c.info.module, "%s.%s(setter)" % (c.name, name), st, cls=c.info)
                            return Closure(fi, None, [], {}, self.import_module(c.info.module.name))
        return None

    # ------------------------------------------------------------------ items
    def mark_global(self, v, where, depth=0):
        """containers reachable from a module-level value are module-level state (frame condition: a call
        must not write them)"""
        if depth > 6:
            return
        if isinstance(v, (PDict, PSet, ASet, list)):
            if id(v) in self.global_ids:
                return
            self.global_ids[id(v)] = (where, v)
            items = v.pairs if isinstance(v, PDict) else (v.items if isinstance(v, PSet) else (v if isinstance(v, list) else []))
            for x in items:
                for y in (x if isinstance(x, (list, tuple)) else [x]):
                    self.mark_global(y, where, depth + 1)
        elif isinstance(v, Closure):
            f = v.frame
            while f is not None:
                for x in list(f.locals.values()):
                    if not isinstance(x, Closure):
                        self.mark_global(x, where, depth + 1)
                f = f.parent
        elif isinstance(v, Obj) and depth < 3:
            if id(v) not in self.global_ids:
                self.global_ids[id(v)] = (where, v)
            for x in v.fields.values():
                self.mark_global(x, where, depth + 1)
        elif isinstance(v, (tuple,)):
            for x in v:
                self.mark_global(x, where, depth + 1)

    def note_write(self, container, name=None):
        g = self.global_ids.get(id(container))
        if g is not None and g[1] is container:
            self.global_writes.append(g[0])
            if not hasattr(self, "global_write_log"):
                self.global_write_log = []
            self.global_write_log.append((container, name))

    def dict_items(self, interp, d):
        if isinstance(d, PDict):
            return [(k, v) for k, v in d.pairs]
        if isinstance(d, dict):
            return list(d.items())
        interp.unsupported("items of %r" % (d,))

    def dict_find(self, interp, d, key):
        """Index of key in a PDict or None (forks on symbolic key equality)."""
        for i, (k, _) in enumerate(d.pairs):
            if interp.ctx.branch(interp.eq(k, key)):
                return i
        return None

    def setitem(self, interp, c, idx, value):
        self.note_write(c)
        if isinstance(c, PDict):
            i = self.dict_find(interp, c, idx)
            if i is None:
                c.pairs.append([idx, value])
            else:
                c.pairs[i][1] = value
            return
        if isinstance(c, list):
            if isinstance(idx, int):
                if not -len(c) <= idx < len(c):
                    interp.raise_py("IndexError", "list assignment index out of range")
                c[idx] = value
                return
        if isinstance(c, Obj):
            m = self.lookup_method(c.cls, "__setitem__")
            if m is not None:
                interp.call(self.bind(m, c), [idx, value], {})
                return
        interp.unsupported("item assignment on %r" % (c,))

    def getitem(self, interp, c, idx, node=None):
        if isinstance(idx, slice) and not isinstance(c, (list, tuple, bytes, str, Obj)):
            return self.getslice(interp, c, idx.start, idx.stop, idx.step, node)
        if isinstance(c, PDict):
            i = self.dict_find(interp, c, idx)
            if i is None:
                interp.raise_py("KeyError", idx)
            return c.pairs[i][1]
        if isinstance(c, (list, tuple, bytes, str)):
            if isinstance(idx, bool):
                idx = int(idx)
            if isinstance(idx, int):
                if not -len(c) <= idx < len(c):
                    interp.raise_py("IndexError", "index out of range")
                return c[idx]
            if isinstance(idx, SInt):
                n = len(c)
                for j in range(n):
                    if interp.ctx.branch(idx.eq(j)):
                        return c[j]
                for j in range(1, n + 1):
                    if interp.ctx.branch(idx.eq(-j)):
                        return c[-j]
                interp.raise_py("IndexError", "index out of range")
            if isinstance(idx, slice):
                return self.getslice(interp, c, idx.start, idx.stop, idx.step, node)
            interp.raise_py("TypeError", "indices must be integers")
        if isinstance(c, Obj):
            m = self.lookup_method(c.cls, "__getitem__")
            if m is not None:
                return interp.call(self.bind(m, c), [idx], {})
            if self.is_library_obj(c):
                raise Undecided("subscript of the model object %s" % c.cls.name)
            interp.raise_py("TypeError", "%r object is not subscriptable" % c.cls.name)
        if isinstance(c, (Opaque, PyClass)):
            return c       # typing subscripts: Dict[str, Any], Type[...]
        from . import stdlib
        res = stdlib.native_getitem(self, interp, c, idx)
        if res is not stdlib.MISSING:
            return res
        if isinstance(c, (SInt, int)) or c is None:
            interp.raise_py("TypeError", "object is not subscriptable")
        interp.unsupported("subscript of %r" % (c,), node)

    def getslice(self, interp, c, lo, hi, step, node=None):
        if isinstance(c, (list, tuple, bytes, str)) and all(x is None or isinstance(x, int) for x in (lo, hi, step)):
            r = c[slice(lo, hi, step)]
            if isinstance(c, NT):
                return tuple(r)
            return r
        from . import stdlib
        res = stdlib.native_getslice(self, interp, c, lo, hi, step)
        if res is not stdlib.MISSING:
            return res
        if isinstance(c, Obj):
            m = self.lookup_method(c.cls, "__getitem__")
            if m is not None:
                return interp.call(self.bind(m, c), [slice(lo, hi, step)], {})
        interp.unsupported("slice of %r [%r:%r:%r]" % (c, lo, hi, step), node)

    def iterate(self, interp, v):
        if isinstance(v, Obj):
            m = self.lookup_method(v.cls, "__iter__")
            if m is not None:
                return interp.iterate(interp.call(self.bind(m, v), [], {}))
            if self.lookup_method(v.cls, "__getitem__") is not None:
                interp.unsupported("iteration through __getitem__")
            if self.is_library_obj(v):
                raise Undecided("iteration over the model object %s" % v.cls.name)
            interp.raise_py("TypeError", "%r object is not iterable" % v.cls.name)
        if v is None or isinstance(v, (int, SInt, SBool, bool)):
            interp.raise_py("TypeError", "object is not iterable")
        from . import stdlib
        res = stdlib.native_iterate(self, interp, v)
        if res is not stdlib.MISSING:
            return res
        interp.unsupported("iteration over %r" % (v,))

    def contains(self, interp, container, item):
        if isinstance(container, (list, tuple)):
            return Or(*[interp.eq(x, item) for x in container])
        if isinstance(container, PSet):
            return Or(*[interp.eq(x, item) for x in container.items])
        if isinstance(container, ASet):
            return lift_bool(z3.Select(container.arr, self.to_sort_expr(item, container.arr.sort().domain())))
        if isinstance(container, PDict):
            return Or(*[interp.eq(k, item) for k, _ in container.pairs])
        if isinstance(container, (bytes, str)) and isinstance(item, (bytes, str, int)):
            return item in container
        if isinstance(container, Obj):
            m = self.lookup_method(container.cls, "__contains__")
            if m is not None:
                return interp.truth_sym(interp.call(self.bind(m, container), [item], {}))
        from . import stdlib
        res = stdlib.native_contains(self, interp, container, item)
        if res is not stdlib.MISSING:
            return res
        interp.unsupported("membership test in %r" % (container,))

    def to_sort_expr(self, v, sort):
        if isinstance(v, Sym) and v.e.sort() == sort:
            return v.e
        if sort == Int:
            return zint(v)
        from . import stdlib
        return stdlib.to_sort_expr(self, v, sort)

    # ------------------------------------------------------------------ equality / identity / order
    def sym_eq(self, interp, a, b):
        from . import stdlib
        return stdlib.sym_eq(self, interp, a, b)

    def obj_eq(self, interp, a, b):
        if isinstance(a, Obj):
            if a.cls.kind == "dataclass":
                if not (isinstance(b, Obj) and b.cls is a.cls):
                    return False
                return And(*[interp.eq(a.fields.get(f), b.fields.get(f)) for f in a.cls.fields])
            if a.fields.get("_enum"):
                if isinstance(b, str):
                    return a.fields["value"] == b      # (str, Enum) members equal their value
                return a is b
            m = self.lookup_method(a.cls, "__eq__")
            if m is not None:
                return interp.truth_sym(interp.call(self.bind(m, a), [b], {}))
            if isinstance(b, Obj) and b.cls is not a.cls:
                m = self.lookup_method(b.cls, "__eq__")
                if m is not None:
                    return interp.truth_sym(interp.call(self.bind(m, b), [a], {}))
            return a is b
        return self.obj_eq(interp, b, a)

    def is_(self, interp, a, b):
        if isinstance(a, Sym) or isinstance(b, Sym):
            if a is None or b is None:
                return False
            if isinstance(a, SBool) or isinstance(b, SBool):
                return interp.eq(a, b)
            if isinstance(a, Obj) or isinstance(b, Obj):
                return False          # a symbolic int/bytes/str/... is a value of a built-in type, never this instance
            interp.unsupported("identity test on symbolic values")
        if isinstance(a, (bool, type(None))) or isinstance(b, (bool, type(None))):
            return a is b
        if isinstance(a, (int, str, bytes)) and isinstance(b, (int, str, bytes)):
            return a == b and type(a) == type(b)
        return a is b

    def order(self, interp, op, a, b):
        from . import stdlib
        return stdlib.order(self, interp, op, a, b)

    def binop(self, interp, op, a, b, node=None):
        from . import stdlib
        return stdlib.binop(self, interp, op, a, b, node)

    # ------------------------------------------------------------------ misc protocol
    after_await = None

    def await_value(self, interp, v):
        # coroutines run to completion at the call (DESIGN 3.4); control may pass to other tasks only here:
        # in interference mode the unit's hook havocs the shared-write set under the rely condition (3.8)
        from .objects import Coroutine, Task
        pending = [t for t in self.pending_tasks if t.state == "pending" and t is not v]
        if pending:
            raise Undecided("something is awaited while a task created by ensure_future/create_task is still pending: "
                            "the scheduling of tasks is not modelled")
        if isinstance(v, Coroutine):
            if v.state != "created":
                interp.raise_py("RuntimeError", "cannot reuse already awaited coroutine")
            v.state = "awaited"
            v = interp.call(v.fn, v.args, v.kwargs)
        elif isinstance(v, Task):
            if v.state == "pending":
                v.state = "running"
                try:
                    v.coro.state = "awaited"
                    v.value = interp.call(v.coro.fn, v.coro.args, v.coro.kwargs)
                    v.state = "result"
                except PyExc as pe:
                    v.value, v.state = pe.obj, "exception"
            if v.state == "exception":
                raise PyExc(v.value)
            v = v.value
        if self.after_await is not None:
            self.after_await(interp)
        return v

    def truth_hook(self, v):
        from . import stdlib
        return stdlib.truth_hook(self, v)

    def callable_hook(self, fn):
        from . import stdlib
        return stdlib.callable_hook(self, fn)

    def context_enter(self, interp, mgr):
        from . import stdlib
        return stdlib.context_enter(self, interp, mgr)

    def context_exit(self, interp, mgr, exc):
        from . import stdlib
        return stdlib.context_exit(self, interp, mgr, exc)


class _Super:
    def __init__(self, cls, self_obj):
        self.cls = cls
        self.self_obj = self_obj


class _ClassScope(dict):
    """Name scope of a class body: earlier class attributes are visible."""

    def __init__(self, rt, interp, cls):
        super().__init__()
        self.rt, self.interp, self.cls = rt, interp, cls

    def __contains__(self, name):
        return self.cls.info is not None and name in self.cls.info.attr_nodes and name in self.cls.attrs

    def __getitem__(self, name):
        return self.cls.attrs[name]


def _object_init(rt, sup):
    def fn(interp, args, kwargs):
        obj = sup.self_obj
        if isinstance(obj, Obj) and rt.is_exception_class(obj.cls):
            obj.fields["args"] = tuple(args)
        return None
    return fn


def _assigned_in(fn_node, name):
    for n in ast.walk(fn_node):
        if isinstance(n, ast.Name) and n.id == name and isinstance(n.ctx, ast.Store):
            return True
    return False


class _Missing:
    pass


_MISSING = _Missing()


def _theory_add_once(self, key, mk):
    if not hasattr(self, "_once"):
        self._once = set()
    if key not in self._once:
        self._once.add(key)
        self.add(key, mk())


core.Theory.add_once = _theory_add_once
