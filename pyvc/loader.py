"""
Source loader: re-reads the real sources with ``ast`` on every run and builds the
module / class / function tables the interpreter works on.

Nothing is cached between runs.  What is dropped from the executable text is stated in
DESIGN.md 2.2 (docstrings, annotations, logging) and is implemented in interp.py, not here:
the loader keeps the full AST.
"""
import ast
import hashlib
import os

REPO = os.environ.get("PYVC_REPO", "/repo")
SITE = os.environ.get("PYVC_SITE", "/venv/lib/python3.12/site-packages")

ROOTS = [
    ("puresnmp", os.path.join(REPO, "src", "puresnmp")),
    ("puresnmp_plugins", os.path.join(REPO, "src", "puresnmp_plugins")),
    ("x690", os.path.join(SITE, "x690")),
]
if os.environ.get("PYVC_EXTRA_ROOT"):       # tools/crosscheck.py: the interpreter conformance corpus, name=path
    _n, _p = os.environ["PYVC_EXTRA_ROOT"].split("=", 1)
    ROOTS.append((_n, _p))


class FuncInfo:
    def __init__(self, module, qualname, node, cls=None, decorators=()):
        self.module = module
        self.qualname = qualname
        self.node = node
        self.cls = cls
        self.decorators = list(decorators)
        self.is_async = isinstance(node, ast.AsyncFunctionDef)
        self.is_generator = any(
            isinstance(n, (ast.Yield, ast.YieldFrom)) for n in _walk_own(node))

    @property
    def fullname(self):
        return "%s:%s" % (self.module.name, self.qualname)

    def source_sha(self):
        return hashlib.sha256(ast.dump(self.node).encode()).hexdigest()[:16]

    def __repr__(self):
        return "<func %s>" % self.fullname


def _walk_own(fn):
    """Walk a function body without descending into nested function/class definitions."""
    stack = list(fn.body)
    while stack:
        n = stack.pop()
        yield n
        if isinstance(n, (ast.FunctionDef, ast.AsyncFunctionDef, ast.ClassDef, ast.Lambda)):
            continue          # a nested definition: its body is not part of this function
        for c in ast.iter_child_nodes(n):
            if isinstance(c, (ast.FunctionDef, ast.AsyncFunctionDef, ast.ClassDef, ast.Lambda)):
                continue
            stack.append(c)


class ClassInfo:
    def __init__(self, module, name, node):
        self.module = module
        self.name = name
        self.node = node
        self.base_exprs = node.bases
        self.decorators = node.decorator_list
        self.methods = {}      # name -> FuncInfo
        self.attr_nodes = {}   # name -> ast expr (class-level assignment)
        self.ann_fields = []   # annotated names in order (dataclass / NamedTuple fields)
        self.ann_defaults = {}  # name -> ast expr
        self.setters = {}
        for st in node.body:
            if isinstance(st, (ast.FunctionDef, ast.AsyncFunctionDef)):
                if any(ast.unparse(d).endswith(".setter") for d in st.decorator_list):
                    self.setters[st.name] = st       # property setter: does not replace the getter
                    continue
                self.methods[st.name] = FuncInfo(module, "%s.%s" % (name, st.name), st, cls=self,
                                                 decorators=st.decorator_list)
            elif isinstance(st, ast.Assign):
                for t in st.targets:
                    if isinstance(t, ast.Name):
                        self.attr_nodes[t.id] = st.value
            elif isinstance(st, ast.AnnAssign) and isinstance(st.target, ast.Name):
                self.ann_fields.append(st.target.id)
                if st.value is not None:
                    self.attr_nodes[st.target.id] = st.value
                    self.ann_defaults[st.target.id] = st.value

    @property
    def fullname(self):
        return "%s:%s" % (self.module.name, self.name)

    def __repr__(self):
        return "<class %s>" % self.fullname


class ModuleInfo:
    def __init__(self, name, path, tree):
        self.name = name
        self.path = path
        self.tree = tree
        self.functions = {}
        self.classes = {}
        self.assigns = {}     # name -> ast expr (module-level constants, evaluated lazily)
        self.imports = {}     # local name -> (module name, attr or None)
        self._scan(tree.body)

    def _scan(self, body):
        for st in body:
            if isinstance(st, (ast.FunctionDef, ast.AsyncFunctionDef)):
                self.functions[st.name] = FuncInfo(self, st.name, st, decorators=st.decorator_list)
            elif isinstance(st, ast.ClassDef):
                self.classes[st.name] = ClassInfo(self, st.name, st)
            elif isinstance(st, ast.Assign):
                for t in st.targets:
                    if isinstance(t, ast.Name):
                        self.assigns[t.id] = st.value
            elif isinstance(st, ast.AnnAssign) and isinstance(st.target, ast.Name) and st.value is not None:
                self.assigns[st.target.id] = st.value
            elif isinstance(st, ast.Import):
                for a in st.names:
                    local = a.asname or a.name.split(".")[0]
                    self.imports[local] = (a.name if a.asname else a.name.split(".")[0], None)
            elif isinstance(st, ast.ImportFrom):
                mod = self._resolve_relative(st.module, st.level)
                for a in st.names:
                    self.imports[a.asname or a.name] = (mod, a.name)
            elif isinstance(st, ast.Try):
                # "try: from typing import Protocol / except ImportError: ..." -- first arm
                self._scan(st.body)
            elif isinstance(st, ast.If):
                # "if TYPE_CHECKING:" / "if sys.stdout.isatty()": scan both arms, first wins
                self._scan(st.orelse)
                self._scan(st.body)

    def _resolve_relative(self, module, level):
        if not level:
            return module
        parts = self.name.split(".")
        is_pkg = os.path.basename(self.path) == "__init__.py"
        base = parts if is_pkg else parts[:-1]
        if level > 1:
            base = base[:-(level - 1)]
        return ".".join(base + ([module] if module else []))


class Program:
    """All modules, addressable by dotted name."""

    def __init__(self):
        self.modules = {}
        self.files = {}
        for pkg, root in ROOTS:
            for dirpath, _dirs, files in os.walk(root):
                for f in sorted(files):
                    if not f.endswith(".py"):
                        continue
                    path = os.path.join(dirpath, f)
                    rel = os.path.relpath(path, os.path.dirname(root))
                    name = rel[:-3].replace(os.sep, ".")
                    if name.endswith(".__init__"):
                        name = name[:-9]
                    with open(path, "rb") as fh:
                        src = fh.read()
                    self.files[path] = hashlib.sha256(src).hexdigest()
                    try:
                        tree = ast.parse(src, filename=path)
                    except SyntaxError as exc:  # the tree does not compile: checker error, not a verdict
                        raise RuntimeError("cannot parse %s: %s" % (path, exc))
                    self.modules[name] = ModuleInfo(name, path, tree)

    def module(self, name):
        return self.modules.get(name)

    def find_function(self, spec):
        """spec: "module:qualname" with qualname  f | Class.m | f.<locals>.g (closures resolved by interp)."""
        modname, qual = spec.split(":")
        mod = self.modules.get(modname)
        if mod is None:
            return None
        parts = qual.split(".")
        if len(parts) == 1:
            return mod.functions.get(parts[0])
        if parts[0] in mod.classes:
            return mod.classes[parts[0]].methods.get(parts[1])
        return None

    def find_class(self, spec):
        modname, name = spec.split(":")
        mod = self.modules.get(modname)
        return mod.classes.get(name) if mod else None

    def plugin_modules(self, namespace):
        """Modules directly inside a plug-in namespace package, e.g. puresnmp_plugins.mpm."""
        prefix = namespace + "."
        return [m for n, m in sorted(self.modules.items())
                if n.startswith(prefix) and "." not in n[len(prefix):]]
