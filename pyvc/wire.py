"""
The wire as a term algebra (DESIGN.md 3.2): bytes values with BER structure.

A wire value W is one of
    WLit(b)                concrete octets
    SBytes(e)              opaque symbolic octets (community, engine id, ciphertext, digest ...)
    WByte(v)               one octet with the (symbolic) value v
    WInt(v)                the content octets of an INTEGER with value v (two's complement)
    WOidC(oid)             the content octets of an OBJECT IDENTIFIER
    WVal(v)                a complete TLV holding the environment value v (class and content symbolic)
    WTlv(ident, content, form)   identifier octet, length octets in `form`, content
    WCat([parts])          concatenation
For the solver a W is mapped to a term over uninterpreted constructors (bcat, intc, oidc, ser,
lenoct_x690, lenoct_min ...): structurally equal wire values give equal terms, leaf equalities are
propagated by congruence, nothing is assumed about unequal terms.  Length octets are part of the
identity of the bytes: `form` is 'x690' (what x690.util.encode_length produces - verified from its
source in the C10 check), 'min' (minimal BER, what RFC-conformant peers send) or a symbolic form.
"""
import z3

from . import core
from .core import (Sym, SBool, SInt, SOid, SXVal, SBytes, SStr, And, Or, Not, lift_bool, lift_int, zint, zbool,
                   Bytes, Int, Bool, OID, XVal, Undecided, EngineError)


class W:
    """Base of structured wire values (a bytes value in the interpreted program)."""
    atomic = False     # True for values that are exactly one TLV


class WLit(W):
    def __init__(self, b):
        self.b = bytes(b)

    def __repr__(self):
        return "WLit(%s)" % self.b.hex()


class WByte(W):
    def __init__(self, v):
        self.v = v

    def __repr__(self):
        return "WByte(%r)" % (self.v,)


class WInt(W):
    def __init__(self, v):
        self.v = v

    def __repr__(self):
        return "WInt(%r)" % (self.v,)


class WOidC(W):
    def __init__(self, oid):
        self.oid = oid

    def __repr__(self):
        return "WOidC(%r)" % (self.oid,)


class WVal(W):
    atomic = True

    def __init__(self, v):
        self.v = v

    def __repr__(self):
        return "WVal(%r)" % (self.v,)


class WTlv(W):
    atomic = True

    def __init__(self, ident, content, form="x690"):
        self.ident = ident
        self.content = content
        self.form = form

    def __repr__(self):
        return "WTlv(%02x,%s,%r)" % (self.ident, self.form, self.content)


class WCat(W):
    def __init__(self, parts):
        self.parts = list(parts)

    def __repr__(self):
        return "WCat(%r)" % (self.parts,)


class WLenOct(W):
    """length octets for the content `of` in the given form"""

    def __init__(self, of, form):
        self.of = of
        self.form = form


class SLen(SInt):
    """len(<wire value>): an integer that remembers what it is the length of"""
    __slots__ = ("of",)

    def __init__(self, e, of):
        SInt.__init__(self, e)
        self.of = of


class WIdx:
    """What x690.decode returns as 'next index' for a structured wire value: the position behind the k-th top-level
    TLV.  The real value is a byte offset; the model only allows handing it back to decode() - arithmetic, ordering or
    equality on it is undecided."""
    __slots__ = ("k",)

    def __init__(self, k):
        self.k = k

    def __repr__(self):
        return "WIdx(%d)" % self.k

    def _no(self, *a):
        raise Undecided("arithmetic / comparison on a byte offset returned by x690.decode (only handing it back to decode is modelled)")
    __add__ = __radd__ = __sub__ = __rsub__ = __lt__ = __le__ = __gt__ = __ge__ = __mul__ = _no
    __bool__ = _no

    def __eq__(self, other):
        if isinstance(other, WIdx):
            return self.k == other.k
        self._no()

    def __hash__(self):
        return hash(("WIdx", self.k))


def is_wire(v):
    return isinstance(v, (W, SBytes, bytes))


def parts_of(v):
    """flatten into a list of non-cat parts, dropping empty literals, merging adjacent literals"""
    out = []

    def rec(x):
        if isinstance(x, WCat):
            for p in x.parts:
                rec(p)
        elif isinstance(x, (bytes, bytearray)):
            rec(WLit(bytes(x)))
        elif isinstance(x, WLit):
            if not x.b:
                return
            if out and isinstance(out[-1], WLit):
                out[-1] = WLit(out[-1].b + x.b)
            else:
                out.append(x)
        else:
            out.append(x)
    rec(v)
    return out


def parse_literal(b):
    """concrete octets -> list of WTlv (definite lengths) or None if it is not a TLV sequence"""
    out = []
    pos = 0
    while pos < len(b):
        if pos + 2 > len(b):
            return None
        ident = b[pos]
        l0 = b[pos + 1]
        if l0 < 0x80:
            n, start = l0, pos + 2
        else:
            k = l0 & 0x7F
            if k == 0 or pos + 2 + k > len(b):
                return None
            n, start = int.from_bytes(b[pos + 2:pos + 2 + k], "big"), pos + 2 + k
        if start + n > len(b):
            return None
        content = b[start:start + n]
        t = WTlv(ident, WLit(content), form=("lit", bytes(b[pos + 1:start])))
        out.append(t)
        pos = start + n
    return out


def normalise(v):
    """recognise  <identifier octet> + <length octets of X> + X  as a TLV (BulkGetRequest.__bytes__)"""
    ps = parts_of(v)
    out = []
    i = 0
    while i < len(ps):
        p = ps[i]
        if (isinstance(p, WLit) and len(p.b) >= 1 and i + 1 < len(ps) and isinstance(ps[i + 1], WLenOct)):
            lo = ps[i + 1]
            rest = ps[i + 2:]
            want = parts_of(lo.of)
            if len(rest) >= len(want) and all(a is b for a, b in zip(rest[:len(want)], want)):
                if len(p.b) > 1:
                    out.append(WLit(p.b[:-1]))
                out.append(WTlv(p.b[-1], lo.of, lo.form))
                i += 2 + len(want)
                continue
        out.append(p)
        i += 1
    if len(out) == 1:
        return out[0]
    return WCat(out)


def tlvs_of(v):
    """the top-level TLVs of a wire value, or None if it is not a sequence of complete TLVs"""
    v = normalise(v)
    ps = v.parts if isinstance(v, WCat) else [v]
    out = []
    for p in ps:
        if isinstance(p, WLit):
            sub = parse_literal(p.b)
            if sub is None:
                return None
            out.extend(sub)
        elif getattr(p, "atomic", False):
            out.append(p)
        else:
            return None
    return out


class WireTheory:
    def __init__(self, rt):
        self.rt = rt
        F = z3.Function
        self.f_intc = F("ber_int_content", Int, Bytes)
        self.f_byte = F("octet", Int, Bytes)
        self.f_oidc = F("ber_oid_content", OID, Bytes)
        self.f_ser = F("ber_tlv_of_value", XVal, Bytes)
        self.f_len_x690 = F("lenoct_x690", Int, Bytes)
        self.f_len_min = F("lenoct_min", Int, Bytes)
        self.f_len_form = F("lenoct_form", Int, Int, Bytes)
        n = z3.Int("n")
        bb = z3.Const("b", Bytes)
        rt.theory.add_once("blen>=0", lambda: z3.ForAll([bb], rt.f_blen(bb) >= 0))
        rt.theory.note("wire model: BER constructors are uninterpreted (equal structure gives equal bytes; nothing is "
                       "assumed about unequal terms); x690 serialises/parses its classes to/from these terms (assumed "
                       "contract, validated against the independent codec)")
        rt.truth_hooks["WTlv"] = lambda i, v: True
        rt.truth_hooks["WVal"] = lambda i, v: True
        rt.truth_hooks["WLit"] = lambda i, v: len(v.b) > 0
        rt.truth_hooks["WCat"] = self._truth_cat
        rt.truth_hooks["WInt"] = lambda i, v: True
        rt.truth_hooks["WByte"] = lambda i, v: True
        rt.truth_hooks["WOidC"] = lambda i, v: True
        for name in ("WTlv", "WVal", "WLit", "WCat", "WInt", "WByte", "WOidC", "WLenOct"):
            rt.len_hooks[name] = self._len
            rt.bytes_hooks[name] = lambda rt_, i, v: v
            rt.eq_hooks[name] = self._eq
            rt.getslice_hooks[name] = self._slice
            rt.isinstance_hooks[name] = self._isinstance
        rt.binop_hooks.setdefault("Add", []).append(self._add)
        rt.hooks["bytes.join"] = self._join
        rt.hooks["bytes(list)"] = self._bytes_of_list

    # -- solver terms
    def lenoct(self, form, n):
        if form == "x690":
            return self.f_len_x690(n)
        if form == "min":
            return self.f_len_min(n)
        if isinstance(form, tuple) and form[0] == "lit":
            return self.rt.bytes_lit(form[1])
        if isinstance(form, tuple) and form[0] == "sym":
            return self.f_len_form(zint(form[1]), n)
        raise EngineError("length form %r" % (form,))

    def z(self, v):
        rt = self.rt
        if isinstance(v, SBytes):
            return v.e
        if isinstance(v, (bytes, bytearray)):
            return rt.bytes_lit(bytes(v))
        if isinstance(v, WLit):
            return rt.bytes_lit(v.b)
        if isinstance(v, WByte):
            if isinstance(v.v, int):
                return rt.bytes_lit(bytes([v.v]))
            return self.f_byte(zint(v.v))
        if isinstance(v, WInt):
            return self.f_intc(zint(v.v))
        if isinstance(v, WOidC):
            return self.f_oidc(rt.oid.expr(None, v.oid))
        if isinstance(v, WVal):
            return self.f_ser(v.v.e)
        if isinstance(v, WTlv):
            c = self.z(v.content)
            return rt.f_bcat(rt.bytes_lit(bytes([v.ident])), rt.f_bcat(self.lenoct(v.form, rt.f_blen(c)), c))
        if isinstance(v, WLenOct):
            return self.lenoct(v.form, rt.f_blen(self.z(v.of)))
        if isinstance(v, WCat):
            ps = parts_of(normalise(v))
            if not ps:
                return rt.bytes_lit(b"")
            acc = self.z(ps[-1])
            for p in reversed(ps[:-1]):
                acc = rt.f_bcat(self.z(p), acc)
            return acc
        raise EngineError("not a wire value: %r" % (v,))

    # -- protocol of bytes values
    def _truth_cat(self, interp, v):
        ps = parts_of(v)
        if any(getattr(p, "atomic", False) or isinstance(p, (WLit, WInt, WByte, WOidC)) for p in ps):
            return True
        if not ps:
            return False
        return Not(SInt(self.rt.f_blen(self.z(v))).eq(0))

    def _len(self, rt, interp, v):
        if isinstance(v, WLit):
            return len(v.b)
        return SLen(rt.f_blen(self.z(v)), v)

    def _eq(self, rt, interp, a, b):
        if not is_wire(a) or not is_wire(b):
            return False
        pa, pb = parts_of(normalise(a)), parts_of(normalise(b))
        if not pa and not pb:
            return True
        return lift_bool(self.z(a) == self.z(b))

    def _slice(self, rt, interp, c, lo, hi, step):
        if lo is None and hi is None and step is None:
            return c
        raise Undecided("slice of a structured wire value")

    def _isinstance(self, rt, interp, v, spec):
        return False

    def _add(self, rt, interp, a, b):
        from .stdlib import MISSING
        if is_wire(a) and is_wire(b) and not (isinstance(a, bytes) and isinstance(b, bytes)):
            return normalise(WCat([a, b]))     # one normal form for concatenation (flattened, right-folded for the solver)
        return MISSING

    def _join(self, interp, sep, items):
        if sep != b"":
            raise Undecided("bytes.join with a separator on wire values")
        return normalise(WCat(items))

    def _bytes_of_list(self, interp, items):
        if len(items) == 1:
            return WByte(items[0])
        return WCat([WByte(x) for x in items])


def install(rt):
    from . import stdlib
    rt.wire = WireTheory(rt)
    stdlib.TYPE_NAMES["bytes"] = (bytes, SBytes, W)
    return rt.wire
