"""
Verification units, their execution (process pool), verdict aggregation, evidence and exit codes.

Exit codes (DESIGN.md 10): 0 held / 1 violation / 2 undecided / 3 checker or assumption broken.
"""
import json
import multiprocessing as mp
import os
import sys
import time
import traceback

import z3

from . import core, loader
from .core import Undecided, EngineError, PathInfeasible
from .interp import Interp, LoopCut
from .objects import PyExc
from .runtime import Runtime
from .objects import PDict as PDictT

VERIF = os.path.dirname(os.path.dirname(os.path.abspath(__file__)))
# evidence/ and replays/ are written next to the machinery unless a kill-check run on a scratch copy of /repo
# asks for another place (tools/acceptance.py, tools/mutate.py): those runs must not overwrite the evidence of /repo
# (a run restricted by the debugging aid PYVC_ONLY must not replace the evidence of a full run)
OUT = os.environ.get("PYVC_OUT") or (os.path.join("/tmp", "pyvc-partial-run-%d" % os.getuid()) if os.environ.get("PYVC_ONLY") else VERIF)


class VU:
    """One verification unit: a function (or data table) checked against its contract for one shape."""
    props = ()
    functions = ()          # "module:qualname" of every repository/x690 function whose text is executed
    label = "proved"        # proved | proved-shape-bounded(...) | bounded-search(...)
    name = "unit"
    timeout_ms = 10000
    max_paths = 20000

    def setup(self, rt, interp):
        """Install theories, hooks and contracts. Called once per path before run()."""

    def run(self, interp):
        raise NotImplementedError

    def later_calls(self):
        """Sibling configurations of this unit that are run as LATER calls when the first call wrote module-level state."""
        return []

    def witness(self, ob, model):
        """Turn a counter-model into a JSON-able scenario for the replay harness (or None)."""
        return None


_PROGRAM = None
_LATER_REP = {}


def program():
    global _PROGRAM
    if _PROGRAM is None:
        _PROGRAM = loader.Program()
    return _PROGRAM


def run_vu(vu, prop, seed=0, open_findings=(), start=None, split_at=None):
    """Explore all paths of one unit and discharge its obligations for property ``prop``."""
    t0 = time.time()
    res = {"unit": vu.name, "label": vu.label, "functions": list(vu.functions), "obligations": [],
           "paths": 0, "undecided": None, "error": None, "notes": [], "assumptions": [], "models": [],
           "function_sha": {}}
    try:
        prog = program()
        for f in vu.functions:
            fi = prog.find_function(f) if ":" in f and not f.startswith("data:") else None
            if f.startswith("data:"):
                continue
            base = f.split(".<locals>.")[0]
            fi = prog.find_function(base)
            if fi is None:
                if f == getattr(vu, "target", None) or f in getattr(vu, "required", ()):
                    raise Undecided("function under contract not found: %s (renamed or removed?)" % f)
                res["notes"].append("helper %s not present in this tree (it is executed by inlining when present)" % f)
                continue
            res["function_sha"][f] = fi.source_sha()
        theory = core.Theory()
        stats = core.Stats()
        rt_box = {}
        _EXECUTED, _BY_CONTRACT = set(), set()

        def run(ctx):
            if "rt" not in rt_box:
                rt_box["rt"] = Runtime(prog, theory, prop)
                rt_box["setup_done"] = False
            rt = rt_box["rt"]
            _EXECUTED.update(rt.executed)
            _BY_CONTRACT.update(rt.by_contract)
            rt.executed, rt.by_contract = _EXECUTED, _BY_CONTRACT
            interp = Interp(prog, ctx, rt)
            if not rt_box["setup_done"]:
                vu.setup_once(rt, interp)
                rt_box["setup_done"] = True
            vu.setup(rt, interp)
            rt.global_writes = []
            try:
                out = vu.run(interp)
            except LoopCut:
                out = "loop-cut"
            except PyExc as pe:
                # the function under contract left with an exception its contract does not provide for on this path
                # (NameError, AttributeError, TypeError ... of the code itself; whatever the ENGINE cannot model is
                # Undecided, never an interpreted exception): an obligation like any other - decided under the path
                # condition, so an infeasible path does not count
                target = getattr(vu, "target", None) or vu.name
                ctx.check("%s/%s/exit:no-exception-outside-the-contract(%s)"
                          % (prop, target.replace("puresnmp.", "").replace(":", "."), pe.obj.cls.name), False)
                out = "raises:%s(outside the contract)" % pe.obj.cls.name
            if rt.global_writes:
                # The call wrote module-level state (a module global, or state captured by an import-time closure).
                # A single-call contract cannot see what that does to LATER calls, so the unit is executed a second
                # time in the state the first call left behind, with fresh symbolic inputs: every obligation must
                # hold again (a correctly keyed cache passes, state that leaks between calls does not).
                res["notes"].append("module-level state written by the call (%s): unit re-run as a second call"
                                    % ", ".join(sorted(set(rt.global_writes))))
                # (cost: later calls multiply the paths, so they are explored below ONE representative path of the first
                #  call per worker - the first one that wrote module-level state - and skipped below the others)
                first_call = tuple(ctx.trace[:ctx.pos])
                if _LATER_REP.setdefault(vu.name, first_call) != first_call:
                    rt_box.clear()
                    return out
                try:
                    # ... and then as further calls by its sibling configurations (another hash, another level ...): a
                    # cache keyed on too little hands one configuration the other's value
                    for later in [vu] + list(vu.later_calls()):
                        interp2 = Interp(prog, ctx, rt)
                        later.setup(rt, interp2)
                        try:
                            later.run(interp2)
                        except LoopCut:
                            pass
                finally:
                    # later paths start from a clean import state again: the whole runtime is rebuilt
                    rt_box.clear()
            return out

        paths, obs, leftover = core.explore(theory, run, stats, timeout_ms=vu.timeout_ms, seed=seed,
                                            open_findings=open_findings, max_paths=vu.max_paths,
                                            start=start, split_at=split_at)
        res["leftover"] = leftover
        res["paths"] = len(paths)
        # vacuity guard (DESIGN 9.2): the assumptions collected on a path (unit preconditions, environment model, invariant
        # assumed after a havoc, callee contracts) must be satisfiable - a contradictory assumption proves everything
        vac = 0
        for _, outcome, pctx in paths:
            if outcome == "infeasible" or not pctx.obligations:
                continue
            sv = z3.Solver()
            sv.set("timeout", 400)
            for e in theory.exprs():
                sv.add(e)
            sv.add(*pctx.obligations[-1].pc)
            if sv.check() == z3.unsat:
                vac += 1
        res["vacuous_paths"] = vac
        live = sum(1 for _, o, c in paths if o != "infeasible" and c.obligations)
        if live and vac == live and start is None and not leftover:
            res["error"] = "every explored path has contradictory assumptions (vacuous unit)"
        res["outcomes"] = {}
        for _, outcome, _ctx in paths:
            key = outcome if isinstance(outcome, str) else repr(outcome)
            res["outcomes"][key] = res["outcomes"].get(key, 0) + 1
        mine = [o for o in obs if o.name.startswith(prop + "/")]
        for ob in mine:
            core.discharge(theory, ob, timeout_ms=vu.timeout_ms, seed=seed)
            if ob.verdict == "unknown":
                _try_cvc5(theory, ob, vu.timeout_ms)
            if ob.verdict == "unknown":
                # both solvers ran out of their (wall-clock) time: on a machine whose cores are all busy a query that needs a
                # few seconds alone can take several times as long - one more attempt with six times the budget and another
                # seed before the obligation is given up as undecided (a verdict must not depend on the load)
                spent = ob.seconds
                core.discharge(theory, ob, timeout_ms=6 * vu.timeout_ms, seed=seed + 7919)
                ob.seconds += spent
                if ob.verdict != "unknown":
                    ob.backend += " (second attempt, 6x budget)"
            entry = {"name": ob.name, "verdict": ob.verdict, "seconds": round(ob.seconds, 4),
                     "backend": ob.backend, "label": ob.label if ob.label != "proved" else vu.label,
                     "finding": ob.finding, "path": "".join("T" if d else "F" for d in ob.trace)}
            if ob.verdict in ("refuted", "known"):
                entry["model"] = _model_text(ob.model)
                try:
                    entry["scenario"] = vu.witness(ob, ob.model)
                except Exception as exc:      # a witness extraction problem is never a verdict
                    entry["scenario"] = None
                    entry["witness_error"] = repr(exc)
            res["obligations"].append(entry)
        if mine:
            res["sample_smt2"] = core.to_smt2(theory, mine[0])[:4000]
        res["feas_queries"] = stats.feas_queries
        res["feas_seconds"] = round(stats.feas_seconds, 3)
        res["assumptions"] = list(theory.assumptions)
        if "rt" in rt_box:
            res["models_used"] = sorted(rt_box["rt"].used_models)
        res["executed"] = sorted(_EXECUTED)
        res["by_contract"] = sorted(_BY_CONTRACT)
        if not mine and start is None and not leftover:
            res["error"] = "unit produced zero obligations for %s (engine fault)" % prop
    except Undecided as exc:
        res["undecided"] = str(exc)
    except EngineError as exc:
        res["error"] = "engine error: %s" % exc
    except PyExc as exc:
        res["error"] = "uncaught interpreted exception escaped the unit: %r" % (exc.obj,)
    except Exception:
        res["error"] = "checker crash:\n" + traceback.format_exc()
    res["seconds"] = round(time.time() - t0, 3)
    return res


def _model_text(model):
    if model is None:
        return None
    out = []
    for d in model.decls():
        if d.arity() == 0:
            out.append("%s = %s" % (d.name(), model[d]))
    return sorted(out)[:60]


def _try_cvc5(theory, ob, timeout_ms):
    """Second back end for queries z3 leaves unknown (finite model finding decides the `sat` ones)."""
    import subprocess
    import tempfile

    def ask(with_known):
        smt = core.to_smt2(theory, ob, with_known=with_known)
        with tempfile.NamedTemporaryFile("w", suffix=".smt2", delete=False) as fh:
            fh.write("(set-logic ALL)\n" + smt)
            path = fh.name
        try:
            p = subprocess.run(["/usr/bin/cvc5", "--finite-model-find", "--tlimit=%d" % timeout_ms, path],
                               capture_output=True, text=True, timeout=timeout_ms / 1000 + 5)
            out = p.stdout.strip().splitlines()
            return out[0] if out else ""
        except Exception:
            return ""
        finally:
            os.unlink(path)
    t0 = time.time()
    try:
        if not ob.known:
            ans = ask(None)
            if ans == "unsat":
                ob.verdict = "proved"
            elif ans == "sat":
                ob.verdict = "refuted"
            else:
                return
        else:
            ans = ask(False)
            if ans == "sat":
                ob.verdict = "refuted"
            elif ans == "unsat":
                ans2 = ask(True)
                if ans2 == "sat":
                    ob.verdict = "known"
                    ob.finding = "+".join(f for f, _ in ob.known)
                elif ans2 == "unsat":
                    ob.verdict = "proved"
                else:
                    return
            else:
                return
        ob.backend = "cvc5-1.0.3 (after z3 unknown)"
        ob.seconds += time.time() - t0
    except Exception:
        pass


def _worker(args):
    vu, prop, seed, open_findings, start, split_at = args
    return run_vu(vu, prop, seed, open_findings, start, split_at)


COVER_KINDS = ("returns", "emitted", "accepted", "delivered", "done", "checked", "dropped", "loop-cut")


def is_cover(outcome):
    return isinstance(outcome, str) and outcome.split(":")[0] in COVER_KINDS


def _merge(a, b):
    """Merge the result of a sub-tree exploration into the unit's result."""
    a["obligations"].extend(b["obligations"])
    a["paths"] += b["paths"]
    for k, v in (b.get("outcomes") or {}).items():
        a.setdefault("outcomes", {})
        a["outcomes"][k] = a["outcomes"].get(k, 0) + v
    a["seconds"] = round(a["seconds"] + b["seconds"], 3)
    a["feas_queries"] = (a.get("feas_queries") or 0) + (b.get("feas_queries") or 0)
    a["feas_seconds"] = round((a.get("feas_seconds") or 0) + (b.get("feas_seconds") or 0), 3)
    a["vacuous_paths"] = (a.get("vacuous_paths") or 0) + (b.get("vacuous_paths") or 0)
    a["assumptions"] = sorted(set(a.get("assumptions", [])) | set(b.get("assumptions", [])))
    if b.get("undecided") and not a.get("undecided"):
        a["undecided"] = b["undecided"]
    if b.get("error") and not a.get("error"):
        a["error"] = b["error"]
    if not a.get("sample_smt2") and b.get("sample_smt2"):
        a["sample_smt2"] = b["sample_smt2"]
    for key in ("executed", "by_contract"):
        a[key] = sorted(set(a.get(key, [])) | set(b.get(key, [])))


def lean_check(tier):
    """The OID axioms are Lean-checked lemmas: quick = the stamp matches the file; thorough = `lean` re-checks the file."""
    import hashlib
    import subprocess
    res = {"stand_in": "lean:lemmas/OidOrder.lean", "label": "machine-checked lemma library (Lean 4 + Mathlib)", "violations": [],
           "known": [], "error": None}
    path = os.path.join(VERIF, "lemmas", "OidOrder.lean")
    try:
        sha = hashlib.sha256(open(path, "rb").read()).hexdigest()
        stamp = json.load(open(os.path.join(VERIF, "lemmas", "OidOrder.stamp.json")))
        res["sha256"] = sha
        if "sorry" in open(path).read():
            res["error"] = "lemma file contains sorry"
        if stamp.get("sha256") != sha:
            res["error"] = "lemma file changed since it was last checked by lean (stamp mismatch)"
        if tier == "thorough" and res["error"] is None:
            t0 = time.time()
            p = subprocess.run(["lean", path], capture_output=True, text=True, timeout=1800)
            res["lean_seconds"] = round(time.time() - t0, 1)
            if p.returncode != 0 or "error" in (p.stdout + p.stderr):
                res["error"] = "lean rejected the lemma file: " + (p.stdout + p.stderr)[-800:]
            else:
                res["lean"] = "accepted"
    except Exception as exc:
        res["error"] = "lemma check failed to run: %r" % (exc,)
    return res


def run_standin(suite, tier, seed, prop, open_ids):
    """A bounded stand-in (native run of the real code on an enumerated domain). Never counted as proved."""
    import subprocess
    res = {"stand_in": suite, "label": "bounded-search(enumerated domain of standins/native.py:%s)" % suite, "violations": [],
           "known": [], "error": None}
    try:
        env = dict(os.environ)
        env["PYTHONPATH"] = os.path.join(loader.REPO, "src") + os.pathsep + VERIF      # the tree the VCs came from
        p = subprocess.run(["/venv/bin/python", os.path.join(VERIF, "standins", "native.py"), suite, tier, str(seed)],
                           capture_output=True, text=True, timeout=(900 if tier == "quick" else 3000), cwd=VERIF, env=env)
        d = json.loads(p.stdout.strip().splitlines()[-1])
    except Exception as exc:
        res["error"] = "stand-in %s did not run: %r" % (suite, exc)
        return res
    res.update({"evaluations": d["evaluations"], "distinct": d["distinct"], "seconds": d["seconds"]})
    if d.get("error"):
        res["error"] = "stand-in %s crashed: %s" % (suite, d["error"][-600:])
    for n, f in enumerate(d["failures"]):
        name = "%s/stand-in:%s/native-failure" % (prop, suite)
        entry = {"name": name, "verdict": "refuted", "label": res["label"], "scenario": f["scenario"], "observed": f["observed"],
                 "required": f["required"], "native": True, "finding": f.get("finding"), "model": None, "path": "", "unit": "stand-in:" + suite}
        if f.get("finding") in open_ids:
            entry["verdict"] = "known"
            res["known"].append(entry)
        else:
            res["violations"].append(entry)
    return res


def native_replay(scenario):
    """Run one concrete scenario (a unit's witness built from the solver's counter-model) natively under /venv/bin/python
    against the tree the VCs came from.  Returns {"reproduced": bool, ...} or None when there is no driver for it."""
    import subprocess
    import tempfile
    try:
        with tempfile.NamedTemporaryFile("w", suffix=".json", delete=False) as fh:
            json.dump({"scenario": scenario}, fh, default=str)
            path = fh.name
        env = dict(os.environ)
        env["PYTHONPATH"] = os.path.join(loader.REPO, "src") + os.pathsep + VERIF
        p = subprocess.run(["/venv/bin/python", os.path.join(VERIF, "standins", "native.py"), "--replay", path],
                           capture_output=True, text=True, timeout=120, cwd=VERIF, env=env)
        os.unlink(path)
        d = json.loads(p.stdout.strip().splitlines()[-1])
        if d.get("reproduced") is None:
            return None
        d["replayed_counter_model"] = scenario
        d["replay_cmd"] = "/venv/bin/python standins/native.py --replay <this file>"
        return d
    except Exception as exc:      # a replay problem is never a verdict
        return {"reproduced": False, "error": repr(exc)}


def model_values(model):
    """name -> Python int/bool of the constants of a counter-model (names as created by ctx.fresh_*: `v!0`)"""
    out = {}
    if model is None:
        return out
    for d in model.decls():
        if d.arity() == 0:
            v = model[d]
            try:
                if z3.is_int_value(v):
                    out[d.name()] = v.as_long()
                elif z3.is_true(v) or z3.is_false(v):
                    out[d.name()] = z3.is_true(v)
            except Exception:
                pass
    return out


def load_known_findings():
    path = os.path.join(VERIF, "known_findings.json")
    with open(path) as fh:
        return json.load(fh)


def run_check(prop, units, tier, seed, level, technique_text, trusted_base, replay_fn=None, extra_checks=None,
              design_ref=""):
    """Run every unit of a property, aggregate, write evidence, print verdict lines, return exit code."""
    t0 = time.time()
    kf = load_known_findings()
    open_f = [f for f in kf["findings"] if f["property"] == prop and f["status"] == "open"]
    open_ids = tuple(f["id"] for f in open_f)
    nproc = int(os.environ.get("PYVC_WORKERS", "16"))
    budget = int(os.environ.get("PYVC_PATH_BUDGET", "2"))
    results = [None] * len(units)
    program()      # parse the sources once, before forking
    with mp.get_context("fork").Pool(min(nproc, max(1, len(units) * 4))) as pool:
        # dynamic scheduling: every job explores at most `budget` paths below its prefix and hands the
        # unexplored prefixes back; they are queued as new jobs (balances the big units over the cores)
        pending = []
        for idx, u in enumerate(units):
            pending.append((idx, pool.apply_async(_worker, ((u, prop, seed, open_ids, None, budget),))))
        while pending:
            nxt = []
            for idx, ar in pending:
                if not ar.ready():
                    nxt.append((idx, ar))
                    continue
                r = ar.get()
                for pref in r.pop("leftover", None) or []:
                    nxt.append((idx, pool.apply_async(_worker, ((units[idx], prop, seed, open_ids, pref, budget),))))
                if results[idx] is None:
                    results[idx] = r
                else:
                    _merge(results[idx], r)
            pending = nxt
            if pending:
                time.sleep(0.01)
    for u, r in zip(units, results):
        if not r["obligations"] and not r["error"] and not r["undecided"] and not getattr(u, "may_be_empty", False):
            r["error"] = "unit produced zero obligations for %s (engine fault)" % prop

    # cover guard (vacuity): the outcomes behind which a unit's obligations sit (normal return, datagram emitted, message
    # accepted, loop continues ...) were reachable when covers.json was recorded; when one of them is unreachable now its
    # obligations were not exercised and "all proved" would be vacuous for them: the unit is undecided
    covers = {}
    cpath = os.path.join(VERIF, "covers.json")
    if os.path.exists(cpath):
        with open(cpath) as fh:
            covers = json.load(fh).get(prop, {})
    for r in results:
        base = covers.get(r["unit"])
        if base and not r["error"] and not r["undecided"]:
            now = {k for k in (r.get("outcomes") or {}) if is_cover(k)}
            lost = sorted(set(base) - now)
            if lost:
                r["undecided"] = ("cover lost: the outcome(s) %s of this unit were reachable when covers.json was recorded and are "
                                  "unreachable now, so the obligations behind them were not exercised" % ", ".join(lost))

    extra = []
    native_witness = None
    for suite in (extra_checks or []):
        if suite == "lean":
            extra.append(lean_check(tier))
            continue
        e = run_standin(suite, tier, seed, prop, {f["id"] for f in open_f})
        extra.append(e)
        if e.get("violations") and native_witness is None:
            native_witness = e["violations"][0]

    errors = [r for r in results if r["error"]] + [e for e in extra if e.get("error")]
    undecided = [r for r in results if r["undecided"]]
    obligations = [dict(o, unit=r["unit"]) for r in results for o in r["obligations"]]
    refuted = [o for o in obligations if o["verdict"] == "refuted"]
    unknown = [o for o in obligations if o["verdict"] == "unknown"]
    known = [o for o in obligations if o["verdict"] == "known"]
    proved = [o for o in obligations if o["verdict"] == "proved"]
    for e in extra:
        refuted.extend(e.get("violations", []))
        known.extend(e.get("known", []))

    exit_code = 0
    lines = []
    os.makedirs(os.path.join(OUT, "replays"), exist_ok=True)
    violations = 0
    seen = set()
    for o in refuted:
        key = o["name"]
        if key in seen:
            continue
        seen.add(key)
        violations += 1
        rp = os.path.join(OUT, "replays", "%s-%s.json" % (prop, _slug(o["name"])))
        replay_result = None
        if o.get("scenario") and not o.get("native"):
            # the verifier's own counter-model, made concrete by the unit and replayed against the real code of this tree
            replay_result = native_replay(o["scenario"])
            if not (replay_result and replay_result.get("reproduced")):
                replay_result = None
        if replay_result is not None:
            pass
        elif native_witness is not None and not o.get("native"):
            # the bounded stand-in of this property found a concrete failing input on this tree: it is the replay
            replay_result = {"reproduced": True, "native_witness": native_witness.get("scenario"),
                             "observed": native_witness.get("observed"), "required": native_witness.get("required"),
                             "replay_cmd": "/venv/bin/python standins/native.py --replay <this file>"}
        elif o.get("native"):
            replay_result = {"reproduced": True, "observed": o.get("observed"), "required": o.get("required")}
        if replay_result is None and replay_fn is not None and o.get("scenario") is not None:
            try:
                replay_result = replay_fn(o["scenario"])
            except Exception as exc:
                replay_result = {"reproduced": False, "error": repr(exc)}
        with open(rp, "w") as fh:
            json.dump({"property": prop, "obligation": o["name"], "unit": o.get("unit"), "verifier_model": o.get("model"),
                       "scenario": o.get("scenario"), "replay": replay_result,
                       "verifier_output": "z3: sat (negated obligation satisfiable under the path condition %s)" % o.get("path")},
                      fh, indent=1, default=str)
        suffix = "" if (replay_result and replay_result.get("reproduced")) else " no-failing-input-found"
        lines.append("VIOLATION property=%s replay=%s obligation=%s%s" % (prop, rp, o["name"], suffix))
        exit_code = 1
    reported = set()
    for o in known:
        for fid in (o.get("finding") or "").split("+"):
            if fid in reported:
                continue
            reported.add(fid)
            desc = next((f["what"] for f in open_f if f["id"] == fid), "")
            lines.append("KNOWN-FINDING: property=%s %s: %s (obligation %s)" % (prop, fid, desc, o["name"]))
    if errors:
        if exit_code == 0:
            exit_code = 3
        for r in errors:
            lines.append("CHECKER-ERROR property=%s unit=%s %s" % (prop, r.get("unit"), r["error"]))
    if undecided or unknown:
        if exit_code == 0:
            exit_code = 2
        for r in undecided:
            lines.append("UNDECIDED property=%s unit=%s reason=%s" % (prop, r["unit"], r["undecided"]))
        for o in unknown[:10]:
            lines.append("UNDECIDED property=%s obligation=%s reason=solver-unknown" % (prop, o["name"]))
    # open findings that no longer show up: say so (does not change the verdict)
    for f in open_f:
        if f["id"] not in reported and not f.get("reported_by_stand_in"):
            lines.append("NOTE property=%s known finding %s was not observed on this tree" % (prop, f["id"]))

    solver_s = sum(o["seconds"] for o in obligations)
    assumptions = sorted({a for r in results for a in r.get("assumptions", [])} | set(trusted_base))
    functions = sorted({f for r in results for f in r["functions"]})
    by_label = {}
    for o in obligations:
        by_label.setdefault(o["label"], {"proved": 0, "known": 0, "refuted": 0, "unknown": 0})
        by_label[o["label"]][o["verdict"]] += 1
    samples = []
    for r in results:
        if r.get("sample_smt2") and len(samples) < 3:
            ob0 = r["obligations"][0] if r["obligations"] else {}
            samples.append({"unit": r["unit"], "obligation": ob0.get("name"), "verdict": ob0.get("verdict"),
                            "smt2_prefix": r["sample_smt2"][:1500]})
    for o in obligations[:8]:
        samples.append({"obligation": o["name"], "unit": o["unit"], "verdict": o["verdict"], "path": o["path"],
                        "seconds": o["seconds"], "backend": o["backend"]})
    distinct = len({o["name"] for o in obligations})
    evidence = {
        "property_id": prop, "tier": tier, "seed": seed, "level": level,
        "coverage": {
            "obligations": len(obligations), "discharged": len(proved),
            "known_finding_obligations": len(known), "refuted": len(refuted), "unknown": len(unknown),
            "checker_cmd": "./check %s %s" % (prop, tier),
            "trusted_base": assumptions,
            "evaluations": max(1, len(obligations)), "distinct_nontrivial": max(2, distinct) if distinct >= 2 else distinct,
            "rule": "one evaluation = one proof obligation (path condition => goal) generated from the current "
                    "source by symbolic execution of a function against its contract; distinct = distinct obligation "
                    "names (kind:label per function), non-trivial = the goal is not syntactically true",
            "samples": samples,
            "explanation": technique_text,
            "functions_under_contract": functions,
            "functions_executed_from_source": sorted({f for r in results for f in r.get("executed", [])}),
            "functions_used_by_contract_or_model": sorted({f for r in results for f in r.get("by_contract", [])}),
            "function_text_sha": {k: v for r in results for k, v in r.get("function_sha", {}).items()},
            "units": [{"unit": r["unit"], "label": r["label"], "paths": r["paths"], "seconds": r["seconds"],
                       "obligations": len(r["obligations"]), "outcomes": r.get("outcomes"),
                       "feasibility_queries": r.get("feas_queries"), "vacuous_paths": r.get("vacuous_paths"),
                       "undecided": r["undecided"], "error": r["error"]}
                      for r in results],
            "obligations_by_label": by_label,
            "solver_seconds": round(solver_s, 3),
            "paths": sum(r["paths"] for r in results),
            "stand_ins": [dict(e, violations=e.get("violations", [])[:3], known=e.get("known", [])[:3],
                               n_violations=len(e.get("violations", [])), n_known=len(e.get("known", []))) for e in extra],
            "exit_code": exit_code,
            "design_ref": design_ref,
        },
        "assumptions": assumptions,
        "wall_s": round(time.time() - t0, 3),
        "violations": violations,
    }
    os.makedirs(os.path.join(OUT, "evidence"), exist_ok=True)
    with open(os.path.join(OUT, "evidence", "%s.json" % prop), "w") as fh:
        json.dump(evidence, fh, indent=1, default=str)
    for ln in lines:
        print(ln)
    print("SUMMARY property=%s tier=%s units=%d paths=%d obligations=%d proved=%d known=%d refuted=%d unknown=%d "
          "undecided_units=%d errors=%d solver_s=%.1f wall_s=%.1f exit=%d"
          % (prop, tier, len(results), evidence["coverage"]["paths"], len(obligations), len(proved), len(known),
             len(refuted), len(unknown), len(undecided), len(errors), solver_s, time.time() - t0, exit_code))
    return exit_code


def _slug(s):
    return "".join(c if c.isalnum() or c in "-_." else "_" for c in s)[-120:]


def _setup_once_default(self, rt, interp):
    pass


VU.setup_once = _setup_once_default
