"""
Models of built-ins, of the standard-library pieces puresnmp touches, and the symbolic
operators (DESIGN.md 3.3 / 3.4).  Everything here is part of the trusted base and is listed
in the evidence of every run that uses it (``rt.used_models``).
"""
import ast

import z3

from . import core
from .core import (EngineError, Undecided, Sym, SBool, SInt, SOid, SXVal, SBytes, SStr, SPy, And, Or, Not,
                   lift_bool, lift_int, zbool, zint, OID, XVal, Bytes, PStr, PyV, Int, Bool)
from .objects import (PyExc, PyClass, Obj, NT, Closure, LambdaFn, BoundMethod, Builtin, ModuleObj, PropertyObj,
                      StaticM, ClassM, Opaque, GenResult, PDict, PSet, ASet)


class _M:
    pass


MISSING = _M()


# ============================================================================= equality / order

def sym_eq(rt, interp, a, b):
    if not isinstance(a, Sym):
        a, b = b, a
    if b is None:
        return False
    if isinstance(a, SInt):
        if isinstance(b, (int, SInt, SBool)) :
            return lift_bool(a.e == zint(b))
        return False
    if isinstance(a, SBool):
        if isinstance(b, (bool, SBool)):
            return lift_bool(a.e == zbool(b))
        if isinstance(b, (int, SInt)):
            return lift_bool(zint(a) == zint(b))
        return False
    if isinstance(a, SOid):
        if isinstance(b, SOid):
            return lift_bool(a.e == b.e)
        if isinstance(b, Obj) and rt.oid is not None and rt.oid.is_oid_obj(b):
            return lift_bool(a.e == rt.oid.lit(interp, b))
        return False
    if isinstance(a, SBytes):
        if isinstance(b, (SBytes, bytes)):
            return lift_bool(a.e == rt.to_bytes_expr(b))
        return False
    if isinstance(a, SStr):
        if isinstance(b, (SStr, str)):
            return lift_bool(a.e == rt.to_str_expr(b))
        return False
    if isinstance(a, SXVal):
        if isinstance(b, SXVal):
            return lift_bool(a.e == b.e)
        if isinstance(b, Obj):
            raise Undecided("equality between an environment value and a locally built object")
        return False
    if isinstance(a, SPy):
        if isinstance(b, SPy):
            return lift_bool(a.e == b.e)
        raise Undecided("equality between an opaque python value and %r" % (b,))
    hook = rt.eq_hooks.get(type(a).__name__)
    if hook is not None:
        return hook(rt, interp, a, b)
    raise Undecided("equality on %r" % (a,))


def _is_intlike(v):
    return isinstance(v, (int, SInt, SBool)) and not isinstance(v, float)


def order(rt, interp, op, a, b):
    opn = type(op).__name__
    if _is_intlike(a) and _is_intlike(b):
        if isinstance(a, (int, bool)) and isinstance(b, (int, bool)):
            return {"Lt": a < b, "LtE": a <= b, "Gt": a > b, "GtE": a >= b}[opn]
        x, y = zint(a), zint(b)
        return lift_bool({"Lt": x < y, "LtE": x <= y, "Gt": x > y, "GtE": x >= y}[opn])
    if isinstance(a, float) or isinstance(b, float):
        if isinstance(a, (int, float)) and isinstance(b, (int, float)):
            return {"Lt": a < b, "LtE": a <= b, "Gt": a > b, "GtE": a >= b}[opn]
    if isinstance(a, (str, bytes)) and type(a) == type(b):
        return {"Lt": a < b, "LtE": a <= b, "Gt": a > b, "GtE": a >= b}[opn]
    if opn == "Gt":
        return order(rt, interp, ast.Lt(), b, a)
    if opn == "GtE":
        return order(rt, interp, ast.LtE(), b, a)
    if isinstance(a, (tuple, list)) and isinstance(b, (tuple, list)) and isinstance(a, list) == isinstance(b, list):
        # lexicographic: first position where the elements differ (== first, then <)
        for x, y in zip(a, b):
            if interp.ctx.branch(interp.eq(x, y)):
                continue
            return order(rt, interp, op, x, y)
        return (len(a) < len(b)) if opn == "Lt" else (len(a) <= len(b))
    if isinstance(a, SOid) or isinstance(b, SOid):
        if rt.oid is None:
            raise Undecided("OID order without an OID theory")
        lt = rt.oid.lt_sym(interp, a, b)
        if opn == "Lt":
            return lt
        return Or(lt, interp.eq(a, b))
    if isinstance(a, Obj):
        m = rt.lookup_method(a.cls, "__lt__" if opn == "Lt" else "__le__")
        if m is not None:
            return interp.truth_sym(interp.call(rt.bind(m, a), [b], {}))
    if rt.is_library_obj(a) or rt.is_library_obj(b):
        raise Undecided("ordering of a model object")
    interp.raise_py("TypeError", "'<' not supported between instances")


# ============================================================================= arithmetic

def _prove(interp, cond):
    """True iff the path condition entails cond (used for side conditions of encodings)."""
    s = z3.Solver()
    s.set("timeout", 2000)
    for e in interp.ctx.theory.light_axioms:
        s.add(e)
    s.add(*interp.ctx.pc)
    s.add(z3.Not(zbool(cond)))
    return s.check() == z3.unsat


def _bv_width(interp, a, b):
    for w in (8, 16, 32, 64, 72):
        lim = 1 << w
        ok = True
        for x in (a, b):
            if isinstance(x, int):
                ok = ok and 0 <= x < lim
            else:
                ok = ok and _prove(interp, z3.And(zint(x) >= 0, zint(x) < lim))
        if ok:
            return w
    return None


def run_binop_hooks(rt, interp, opn, a, b):
    for hook in rt.binop_hooks.get(opn, ()):
        res = hook(rt, interp, a, b)
        if res is not MISSING:
            return res
    return MISSING


def possible_bits(e, depth=0):
    """bit mask of the bits that can be set in a non-negative integer term, or None (syntactic, cheap)"""
    if depth > 12:
        return None
    if z3.is_int_value(e):
        v = e.as_long()
        return v if v >= 0 else None
    if z3.is_app_of(e, z3.Z3_OP_ITE):
        x, y = possible_bits(e.arg(1), depth + 1), possible_bits(e.arg(2), depth + 1)
        return None if x is None or y is None else x | y
    if z3.is_app_of(e, z3.Z3_OP_MUL) and e.num_args() == 2:
        c, x = e.arg(0), e.arg(1)
        if z3.is_int_value(x):
            c, x = x, c
        if z3.is_int_value(c):
            cv = c.as_long()
            xb = possible_bits(x, depth + 1)
            if xb is not None and cv > 0 and cv & (cv - 1) == 0:
                return xb * cv
        return None
    if z3.is_app_of(e, z3.Z3_OP_ADD):
        acc = 0
        for i in range(e.num_args()):
            xb = possible_bits(e.arg(i), depth + 1)
            if xb is None or acc & xb:
                return None
            acc |= xb
        return acc
    return None


def binop(rt, interp, op, a, b, node=None):
    opn = type(op).__name__
    sym = isinstance(a, Sym) or isinstance(b, Sym)
    if rt.binop_hooks.get(opn) and not (_is_intlike(a) and _is_intlike(b) and opn != "Div"):
        res = run_binop_hooks(rt, interp, opn, a, b)
        if res is not MISSING:
            return res
    if not sym:
        return _concrete_binop(rt, interp, opn, a, b, node)
    if _is_intlike(a) and _is_intlike(b):
        x, y = zint(a), zint(b)
        if opn == "Add":
            return lift_int(x + y)
        if opn == "Sub":
            return lift_int(x - y)
        if opn == "Mult":
            return lift_int(x * y)
        if opn in ("FloorDiv", "Mod"):
            if isinstance(b, int) and not isinstance(b, bool):
                if b == 0:
                    interp.raise_py("ZeroDivisionError")
                if b > 0:
                    return lift_int(x / y) if opn == "FloorDiv" else lift_int(x % y)
                raise Undecided("division by a negative constant")
            if interp.ctx.branch(lift_bool(y == 0)):
                interp.raise_py("ZeroDivisionError")
            if not _prove(interp, y > 0):
                raise Undecided("division by a divisor not provably positive")
            return lift_int(x / y) if opn == "FloorDiv" else lift_int(x % y)
        if opn == "LShift" and isinstance(b, int):
            return lift_int(x * (1 << b))
        if opn == "RShift" and isinstance(b, int):
            return lift_int(x / (1 << b))
        if opn in ("BitAnd", "BitOr") and isinstance(a, Sym) and isinstance(b, Sym) and z3.eq(x, y):
            return a                                            # x & x == x | x == x
        if opn == "BitAnd":
            if isinstance(a, Sym) and isinstance(b, Sym) and (z3.is_app_of(y, z3.Z3_OP_ITE) or z3.is_app_of(x, z3.Z3_OP_ITE)):
                pass
            for m, o in ((a, y), (b, x)):
                if isinstance(m, int) and not isinstance(m, bool):
                    if m >= 0 and (m + 1) & m == 0:            # mask 2^k - 1
                        return lift_int(o % (m + 1))
                    if m > 0 and m & (m - 1) == 0:              # single bit
                        return lift_int(((o / m) % 2) * m)
            w = _bv_width(interp, a, b)
            if w is not None:
                return lift_int(z3.BV2Int(z3.Int2BV(x, w) & z3.Int2BV(y, w)))
            raise Undecided("bitwise & on unbounded symbolic integers")
        if opn in ("BitOr", "BitXor"):
            if isinstance(a, int) and a == 0:
                return b
            if isinstance(b, int) and b == 0:
                return a
            pa, pb = possible_bits(z3.simplify(x)), possible_bits(z3.simplify(y))
            if pa is not None and pb is not None and pa & pb == 0:
                return lift_int(x + y)          # disjoint bit ranges: | and ^ are +
            for m, o in ((a, y), (b, x)):
                if isinstance(m, int) and not isinstance(m, bool) and m > 0 and m & (m - 1) == 0:
                    # single-bit mask 2^k (exact for every integer, floor division = two's complement):
                    #   o | m == o + m * (1 - bit_k(o)),    o ^ m == o + m - 2 * m * bit_k(o),    bit_k(o) = (o // m) % 2
                    bit = (o / m) % 2
                    return lift_int(o + m * (1 - bit) if opn == "BitOr" else o + m - 2 * m * bit)
            w = _bv_width(interp, a, b)
            if w is not None:
                xa, xb = z3.Int2BV(x, w), z3.Int2BV(y, w)
                return lift_int(z3.BV2Int(xa | xb if opn == "BitOr" else xa ^ xb))
            raise Undecided("bitwise |/^ on unbounded symbolic integers")
        if opn == "Pow" and isinstance(a, int) and isinstance(b, int):
            return a ** b
        if opn == "Div":
            raise Undecided("true division on symbolic integers (float)")
        raise Undecided("integer operator %s on symbolic operands" % opn)
    if opn == "Add":
        if isinstance(a, (SBytes, bytes)) and isinstance(b, (SBytes, bytes)):
            return SBytes(rt.f_bcat(rt.to_bytes_expr(a), rt.to_bytes_expr(b)))
        if isinstance(a, Obj):
            m = rt.lookup_method(a.cls, "__add__")
            if m is not None:
                return interp.call(rt.bind(m, a), [b], {})
    if opn == "Mod" and isinstance(a, (str, SStr)):
        return interp.ctx.fresh_str("fmt")
    if ((isinstance(a, (bytes, SBytes)) and _is_intlike(b) and opn not in ("Mult", "Mod"))
            or (_is_intlike(a) and isinstance(b, (bytes, SBytes)) and opn != "Mult")):
        # bytes <op> int is a TypeError for every operator but `*` (and `%` formatting), whatever the values are
        interp.raise_py("TypeError", "unsupported operand type(s) for %s: bytes and int" % opn)
    if opn == "Mult" and isinstance(a, (bytes, SBytes)) and _is_intlike(b):
        hook = rt.hooks.get("bytes*int")
        if hook is not None:
            return hook(interp, a, b)
    hook = rt.hooks.get("binop:" + type(a).__name__)          # a unit's own value classes (e.g. a repeated byte string)
    if hook is not None:
        res = hook(interp, opn, a, b)
        if res is not NotImplemented:
            return res
    raise Undecided("operator %s on %r and %r" % (opn, a, b))


def _concrete_binop(rt, interp, opn, a, b, node):
    def is_type(x):
        return isinstance(x, (PyClass, TypeObj)) or x is None or (isinstance(x, tuple) and x and all(is_type(y) for y in x))
    if (isinstance(a, (PyClass, TypeObj)) or isinstance(b, (PyClass, TypeObj))) and is_type(a) and is_type(b):
        if opn == "BitOr":
            # PEP 604: `A | B` of classes, used as the second argument of isinstance(): the tuple of the classes
            flat = []
            for x in (a, b):
                flat.extend(x if isinstance(x, tuple) else [x])
            return tuple(flat)
        raise Undecided("operator %s on classes" % opn)
    from .objects import Closure as _Closure, LambdaFn as _LambdaFn
    if any(isinstance(x, (PyClass, TypeObj, _Closure, _LambdaFn, Builtin, Opaque, ModuleObj)) for x in (a, b)):
        # what the engine has no value model for is never turned into an interpreted TypeError
        raise Undecided("operator %s on %s and %s" % (opn, type(a).__name__, type(b).__name__))
    if isinstance(a, Obj) or isinstance(b, Obj):
        dunder = {"Add": "__add__", "Sub": "__sub__", "Mult": "__mul__", "FloorDiv": "__floordiv__"}.get(opn)
        if dunder and isinstance(a, Obj):
            m = rt.lookup_method(a.cls, dunder)
            if m is not None:
                return interp.call(rt.bind(m, a), [b], {})
        if rt.is_library_obj(a) or rt.is_library_obj(b):
            # a model of a library class (timedelta, ...) says nothing about operators it does not list
            raise Undecided("operator %s on the library object %r is not modelled" % (opn, a if isinstance(a, Obj) else b))
        interp.raise_py("TypeError", "unsupported operand types for %s" % opn)
    if opn == "Mod" and isinstance(a, str):
        args = b if isinstance(b, tuple) else (b,)
        if all(isinstance(x, (int, str, float)) for x in args):
            try:
                return a % b
            except Exception:
                interp.raise_py("TypeError", "format")
        return interp.ctx.fresh_str("fmt")
    if opn == "BitOr" and isinstance(a, (PDict, dict)) and isinstance(b, (PDict, dict)):
        out = a.copy() if isinstance(a, PDict) else PDict(list(a.items()))
        for k_, v_ in (b.pairs if isinstance(b, PDict) else b.items()):
            rt.setitem(interp, out, k_, v_)
        return out
    if isinstance(a, (PDict, PSet, GenResult)) or isinstance(b, (PDict, PSet, GenResult)):
        raise Undecided("operator %s on containers" % opn)
    try:
        if opn == "Add":
            if isinstance(a, NT) or isinstance(b, NT):
                return tuple(a) + tuple(b)
            return a + b
        if opn == "Sub":
            return a - b
        if opn == "Mult":
            return a * b
        if opn == "FloorDiv":
            return a // b
        if opn == "Mod":
            return a % b
        if opn == "Div":
            return a / b
        if opn == "Pow":
            return a ** b
        if opn == "LShift":
            return a << b
        if opn == "RShift":
            return a >> b
        if opn == "BitAnd":
            return a & b
        if opn == "BitOr":
            return a | b
        if opn == "BitXor":
            return a ^ b
    except ZeroDivisionError:
        interp.raise_py("ZeroDivisionError")
    except TypeError as exc:
        interp.raise_py("TypeError", str(exc))
    raise Undecided("operator %s" % opn)


# ============================================================================= isinstance

TYPE_NAMES = {"int": (int, SInt, SBool, bool), "bool": (bool, SBool), "str": (str, SStr), "bytes": (bytes, SBytes),
              "bytearray": (bytearray,), "list": (list,), "tuple": (tuple,), "dict": (PDict, dict),
              "set": (PSet, ASet), "float": (float,), "slice": (slice,)}


class TypeObj:
    """A built-in type used as a value (int, str, bytes ...)."""

    def __init__(self, name):
        self.name = name

    def __repr__(self):
        return "<type %s>" % self.name


def isinstance_sym(rt, interp, v, spec):
    if isinstance(spec, tuple):
        return Or(*[isinstance_sym(rt, interp, v, s) for s in spec])
    if isinstance(spec, TypeObj):
        if spec.name == "object":
            return True
        return isinstance(v, TYPE_NAMES.get(spec.name, ()))
    if isinstance(spec, PyClass):
        if isinstance(v, Obj):
            return v.cls.issubclass(spec)
        if isinstance(v, NT):
            return v.pycls.issubclass(spec) or spec.name == "tuple"
        if isinstance(v, SXVal):
            return rt.xval_isinstance(v, spec)
        if isinstance(v, SOid):
            return rt.oid is not None and rt.oid.oid_class(interp).issubclass(spec)
        hook = rt.isinstance_hooks.get(type(v).__name__)
        if hook is not None:
            return hook(rt, interp, v, spec)
        return False
    if isinstance(spec, Opaque):
        raise Undecided("isinstance against %r" % (spec,))
    interp.raise_py("TypeError", "isinstance() arg 2 must be a type")


# ============================================================================= builtins

def _len(interp, args, kwargs):
    (v,) = args
    rt = interp.rt
    if isinstance(v, (list, tuple, str, bytes, dict, range)):
        return len(v)
    if isinstance(v, PDict):
        return len(v.pairs)
    if isinstance(v, PSet):
        if all(not isinstance(x, Sym) for x in v.items):
            return len(v.items)
        raise Undecided("len() of a set with symbolic elements")
    if isinstance(v, GenResult):
        interp.raise_py("TypeError", "object of type 'generator' has no len()")
    if isinstance(v, SBytes):
        if getattr(rt, "wire", None) is not None:
            from .wire import SLen
            return SLen(rt.blen(v.e), v)      # an integer that remembers what it is the length of (length octets)
        return SInt(rt.blen(v.e))
    if isinstance(v, SStr):
        return SInt(rt.slen(v.e))
    if isinstance(v, SOid):
        return rt.oid.olen_sym(interp, v)
    if isinstance(v, Obj):
        m = rt.lookup_method(v.cls, "__len__")
        if m is not None:
            return interp.call(rt.bind(m, v), [], {})
        if rt.is_library_obj(v):
            raise Undecided("len() of the model object %s" % v.cls.name)
        interp.raise_py("TypeError", "object of type %r has no len()" % v.cls.name)
    hook = rt.len_hooks.get(type(v).__name__)
    if hook is not None:
        return hook(rt, interp, v)
    interp.raise_py("TypeError", "object has no len()")


def _isinstance(interp, args, kwargs):
    return isinstance_sym(interp.rt, interp, args[0], args[1])


def _sorted(interp, args, kwargs):
    items = interp.iterate(args[0])
    key = kwargs.get("key")
    keyed = [(interp.call(key, [x], {}) if key is not None else x, x) for x in items]
    out = []
    rev = kwargs.get("reverse")
    if rev is not None and not isinstance(rev, (bool, int)):
        raise Undecided("sorted() with a symbolic reverse flag")
    for k, x in keyed:            # stable insertion sort; comparisons fork
        pos = len(out)
        for i in range(len(out)):
            # ascending: before the first element greater than k; reverse=True: before the first element smaller than k
            # (equal keys keep their original order in both directions, as CPython's sort does)
            a, b = (out[i][0], k) if rev else (k, out[i][0])
            if interp.truth(order(interp.rt, interp, ast.Lt(), a, b)):
                pos = i
                break
        out.insert(pos, (k, x))
    return [x for _, x in out]


def _any(interp, args, kwargs):
    for x in interp.iterate(args[0]):
        if interp.truth(x):
            return True
    return False


def _all(interp, args, kwargs):
    for x in interp.iterate(args[0]):
        if not interp.truth(x):
            return False
    return True


def _minmax(which):
    def fn(interp, args, kwargs):
        items = interp.iterate(args[0]) if len(args) == 1 else list(args)
        if not items:
            if "default" in kwargs and len(args) == 1:
                return kwargs["default"]
            interp.raise_py("ValueError", "empty sequence")
        key = kwargs.get("key")
        if key is not None:
            # the first element with the smallest / largest key (ties keep the earlier one, as CPython does)
            keys = [interp.call(key, [x], {}) for x in items]
            best, bk = items[0], keys[0]
            for x, kx in zip(items[1:], keys[1:]):
                lt = order(interp.rt, interp, ast.Lt(), kx, bk) if which == "min" else order(interp.rt, interp, ast.Lt(), bk, kx)
                if interp.truth(lt):
                    best, bk = x, kx
            return best
        if all(isinstance(x, (int, float)) for x in items):
            return min(items) if which == "min" else max(items)
        best = items[0]
        for x in items[1:]:
            lt = order(interp.rt, interp, ast.Lt(), x, best) if which == "min" else order(interp.rt, interp, ast.Lt(), best, x)
            if _is_intlike(x) and _is_intlike(best):
                best = lift_int(z3.If(zbool(lt), zint(x), zint(best)))
            elif interp.truth(lt):
                best = x
        return best
    return fn


def _list(interp, args, kwargs):
    if not args:
        return []
    return list(interp.iterate(args[0]))


def _tuple(interp, args, kwargs):
    if not args:
        return ()
    return tuple(interp.iterate(args[0]))


def _dict(interp, args, kwargs):
    d = PDict()
    if args:
        src = args[0]
        if isinstance(src, (PDict, dict)):
            for k, v in interp.rt.dict_items(interp, src):
                interp.rt.setitem(interp, d, k, v)
        else:
            for item in interp.iterate(src):
                kv = interp.iterate(item)
                if len(kv) != 2:
                    interp.raise_py("ValueError", "dictionary update sequence element has wrong length")
                interp.rt.setitem(interp, d, kv[0], kv[1])
    for k, v in kwargs.items():
        interp.rt.setitem(interp, d, k, v)
    return d


def _set(interp, args, kwargs):
    if not args:
        return PSet()
    return PSet(interp.iterate(args[0]))


def _bytes(interp, args, kwargs):
    rt = interp.rt
    if not args:
        return b""
    v = args[0]
    if isinstance(v, (bytes, bytearray)):
        return bytes(v)
    if isinstance(v, SBytes):
        return v
    if isinstance(v, int):
        return bytes(v)
    if isinstance(v, (list, tuple)):
        if all(isinstance(x, int) for x in v):
            try:
                return bytes(v)
            except ValueError as exc:
                interp.raise_py("ValueError", str(exc))
        hook = rt.hooks.get("bytes(list)")
        if hook is not None:
            return hook(interp, list(v))
        raise Undecided("bytes() of a list with symbolic elements")
    if isinstance(v, Obj):
        m = rt.lookup_method(v.cls, "__bytes__")
        if m is not None:
            return interp.call(rt.bind(m, v), [], {})
        interp.raise_py("TypeError", "cannot convert %r object to bytes" % v.cls.name)
    if isinstance(v, NT):
        m = rt.lookup_method(v.pycls, "__bytes__")
        if m is not None:
            return interp.call(rt.bind(m, v), [], {})
    hook = rt.bytes_hooks.get(type(v).__name__)
    if hook is not None:
        return hook(rt, interp, v)
    raise Undecided("bytes(%r)" % (v,))


def _int(interp, args, kwargs):
    if not args:
        return 0
    v = args[0]
    if isinstance(v, bool):
        return int(v)
    if isinstance(v, (int, SInt)):
        return v
    if isinstance(v, SBool):
        return lift_int(zint(v))
    if isinstance(v, float):
        return int(v)
    if isinstance(v, str):
        try:
            return int(v, *args[1:])
        except ValueError as exc:
            interp.raise_py("ValueError", str(exc))
    if isinstance(v, Obj):
        m = interp.rt.lookup_method(v.cls, "__int__")
        if m is not None:
            return interp.call(interp.rt.bind(m, v), [], {})
    hook = interp.rt.int_hooks.get(type(v).__name__)
    if hook is not None:
        return hook(interp.rt, interp, v)
    raise Undecided("int(%r)" % (v,))


def _bool(interp, args, kwargs):
    if not args:
        return False
    return interp.truth_sym(args[0])


def _str(interp, args, kwargs):
    rt = interp.rt
    if not args:
        return ""
    v = args[0]
    if isinstance(v, (str, SStr)):
        return v
    if isinstance(v, (int, float, bytes)) or v is None:
        return str(v)
    if isinstance(v, SInt):
        return SStr(rt.f_int_str(v.e))
    if isinstance(v, SOid):
        return SStr(rt.f_oidstr(v.e))
    if isinstance(v, Obj):
        m = rt.lookup_method(v.cls, "__str__")
        if m is not None:
            return interp.call(rt.bind(m, v), [], {})
        return interp.ctx.fresh_str("str")
    hook = rt.str_hooks.get(type(v).__name__)
    if hook is not None:
        return hook(rt, interp, v)
    return interp.ctx.fresh_str("str")


def _repr(interp, args, kwargs):
    v = args[0]
    if isinstance(v, (int, str, bytes, float)) or v is None:
        return repr(v)
    return interp.ctx.fresh_str("repr")


def _type(interp, args, kwargs):
    (v,) = args
    if isinstance(v, Obj):
        return v.cls
    if isinstance(v, NT):
        return v.pycls
    if isinstance(v, SXVal):
        raise Undecided("type() of an environment value")
    for name, tys in TYPE_NAMES.items():
        if name in ("int",) and isinstance(v, (bool, SBool)):
            continue
        if isinstance(v, tys):
            return interp.rt.builtins[name]
    return Opaque("type(%r)" % (v,))


def _hasattr(interp, args, kwargs):
    obj, name = args
    try:
        interp.rt.getattr(interp, obj, name)
        return True
    except PyExc as pe:
        if pe.obj.cls.name == "AttributeError":
            return False
        raise
    except Undecided as und:
        # a module that simply has no such name: False. Anything else (a construct outside the engine met while the module-level
        # assignment was evaluated) must stay UNDECIDED - answering False there made a plug-in "invalid" and turned an engine
        # limit into a VIOLATION of the units that load it
        if isinstance(obj, ModuleObj) and str(und).startswith("name %s not found in module " % name):
            return False
        raise


def _getattr(interp, args, kwargs):
    obj, name = args[0], args[1]
    try:
        return interp.rt.getattr(interp, obj, name)
    except PyExc as pe:
        if pe.obj.cls.name == "AttributeError" and len(args) > 2:
            return args[2]
        raise


def _zip(interp, args, kwargs):
    # (collected eagerly; zip, enumerate, reversed, map, filter give single-pass iterators)
    lists = [interp.iterate(a) for a in args]
    if kwargs.get("strict") and len({len(x) for x in lists}) > 1:
        # (raised when the shorter argument runs out: collected eagerly, the pairs before it are not handed out)
        interp.raise_py("ValueError", "zip() argument 2 is %s than argument 1" % ("shorter" if len(lists[1]) < len(lists[0]) else "longer"))
    return GenResult([tuple(xs) for xs in zip(*lists)])


def _enumerate(interp, args, kwargs):
    start = args[1] if len(args) > 1 else kwargs.get("start", 0)
    return GenResult([(i + start, x) for i, x in enumerate(interp.iterate(args[0]))])


def _undecided(msg):
    raise Undecided(msg)


def _divmod(interp, args, kwargs):
    import ast as _ast
    return (interp.binop(_ast.FloorDiv(), args[0], args[1]), interp.binop(_ast.Mod(), args[0], args[1]))


def _map(interp, args, kwargs):
    lists = [interp.iterate(a) for a in args[1:]]
    return GenResult([interp.call(args[0], list(xs), {}) for xs in zip(*lists)])


def _filter(interp, args, kwargs):
    out = []
    for x in interp.iterate(args[1]):
        if interp.truth(x if args[0] is None else interp.call(args[0], [x], {})):
            out.append(x)
    return GenResult(out)


def _range(interp, args, kwargs):
    if all(isinstance(a, int) for a in args):
        return range(*args)
    raise Undecided("range() with symbolic bounds (needs a loop clause)")


def _reversed(interp, args, kwargs):
    if isinstance(args[0], GenResult):
        interp.raise_py("TypeError", "argument to reversed() must be a sequence")
    return GenResult(list(reversed(interp.iterate(args[0]))))


def _iter(interp, args, kwargs):
    if isinstance(args[0], GenResult):
        return args[0]          # iter(iterator) is the iterator itself
    return GenResult(interp.iterate(args[0]))


def _next(interp, args, kwargs):
    g = args[0]
    if isinstance(g, GenResult):
        if g.pos < len(g.items):
            g.pos += 1
            return g.items[g.pos - 1]
        if len(args) > 1:
            return args[1]
        interp.raise_py("StopIteration")
    raise Undecided("next() on %r" % (g,))


def _replace(interp, args, kwargs):
    obj = args[0]
    if isinstance(obj, Obj) and obj.cls.kind == "dataclass":
        for k in kwargs:
            if k not in obj.cls.fields:
                interp.raise_py("TypeError", "__init__() got an unexpected keyword argument %r" % k)
        fields = {f: kwargs.get(f, obj.fields.get(f)) for f in obj.cls.fields}
        return interp.rt.instantiate(interp, obj.cls, [], fields)
    interp.raise_py("TypeError", "replace() should be called on dataclass instances")


def _hash(interp, args, kwargs):
    return interp.ctx.fresh_int("hash")


def _sum(interp, args, kwargs):
    total = args[1] if len(args) > 1 else 0
    for x in interp.iterate(args[0]):
        total = binop(interp.rt, interp, ast.Add(), total, x)
    return total


def _abs(interp, args, kwargs):
    v = args[0]
    if isinstance(v, SInt):
        return lift_int(z3.If(v.e >= 0, v.e, -v.e))
    return abs(v)


def _ordered_dict(interp, args, kwargs):
    return _dict(interp, args, kwargs)


# ============================================================================= native attribute models

def _list_method(rt, interp, lst, name):
    if name in ("append", "extend", "insert", "reverse", "pop"):
        rt.note_write(lst) if False else None

    def append(i, a, k):
        rt.note_write(lst)
        lst.append(a[0])

    def extend(i, a, k):
        lst.extend(i.iterate(a[0]))

    def insert(i, a, k):
        lst.insert(a[0], a[1])

    def reverse(i, a, k):
        lst.reverse()

    def pop(i, a, k):
        if not lst:
            i.raise_py("IndexError", "pop from empty list")
        return lst.pop(*a)

    def index(i, a, k):
        for j, x in enumerate(lst):
            if i.truth(i.eq(x, a[0])):
                return j
        i.raise_py("ValueError", "not in list")

    def copy(i, a, k):
        return list(lst)

    def count(i, a, k):
        return sum(1 for x in lst if i.truth(i.eq(x, a[0])))

    def sort(i, a, k):
        lst[:] = _sorted(i, [list(lst)], k)       # in place, stable, same comparisons as sorted()

    def clear(i, a, k):
        del lst[:]

    def remove(i, a, k):
        for j, x in enumerate(lst):
            if i.truth(i.eq(x, a[0])):
                del lst[j]
                return None
        i.raise_py("ValueError", "list.remove(x): x not in list")

    fns = {"append": append, "extend": extend, "insert": insert, "reverse": reverse, "pop": pop, "index": index,
           "copy": copy, "count": count, "clear": clear, "remove": remove, "sort": sort}
    if name in fns:
        return Builtin("list." + name, fns[name])
    return MISSING


def _dict_method(rt, interp, d, name):
    def items(i, a, k):
        return [(kk, vv) for kk, vv in d.pairs]

    def keys(i, a, k):
        return [kk for kk, _ in d.pairs]

    def values(i, a, k):
        return [vv for _, vv in d.pairs]

    def get(i, a, k):
        idx = rt.dict_find(i, d, a[0])
        if idx is None:
            return a[1] if len(a) > 1 else None
        return d.pairs[idx][1]

    def setdefault(i, a, k):
        idx = rt.dict_find(i, d, a[0])
        if idx is None:
            rt.note_write(d)
            d.pairs.append([a[0], a[1] if len(a) > 1 else None])
            return d.pairs[-1][1]
        return d.pairs[idx][1]

    def pop(i, a, k):
        idx = rt.dict_find(i, d, a[0])
        if idx is None:
            if len(a) > 1:
                return a[1]
            i.raise_py("KeyError", a[0])
        rt.note_write(d)
        return d.pairs.pop(idx)[1]

    def update(i, a, k):
        for kk, vv in rt.dict_items(i, a[0]):
            rt.setitem(i, d, kk, vv)

    def copy(i, a, k):
        return d.copy()

    fns = {"items": items, "keys": keys, "values": values, "get": get, "setdefault": setdefault, "pop": pop,
           "update": update, "copy": copy}
    if name in fns:
        return Builtin("dict." + name, fns[name])
    return MISSING


def _set_method(rt, interp, s, name):
    def add(i, a, k):
        rt.note_write(s)
        if isinstance(s, PSet):
            s.items.append(a[0])
        else:
            s.arr = z3.Store(s.arr, rt.to_sort_expr(a[0], s.arr.sort().domain()), z3.BoolVal(True))

    if name == "add":
        return Builtin("set.add", add)
    return MISSING


def _str_method(rt, interp, s, name):
    if isinstance(s, str):
        def encode(i, a, k):
            try:
                return s.encode(*a)
            except UnicodeError:
                i.raise_py("UnicodeError")

        def join(i, a, k):
            items = i.iterate(a[0])
            if all(isinstance(x, str) for x in items):
                return s.join(items)
            hook = rt.hooks.get("str.join")
            if hook is not None:
                return hook(i, s, items)
            raise Undecided("str.join over symbolic strings")

        def generic(nm):
            def fn(i, a, k):
                if all(isinstance(x, (str, int, tuple)) for x in a):
                    return getattr(s, nm)(*a)
                raise Undecided("str.%s with symbolic argument" % nm)
            return fn

        if name == "encode":
            return Builtin("str.encode", encode)
        if name == "join":
            return Builtin("str.join", join)
        if name in ("startswith", "endswith", "split", "lstrip", "rstrip", "strip", "splitlines", "format",
                    "center", "lower", "upper", "replace", "removeprefix", "removesuffix", "rsplit", "partition", "rpartition",
                    "isdigit", "zfill", "ljust", "rjust", "count", "find", "index", "title", "capitalize"):
            return Builtin("str." + name, generic(name))
        return MISSING
    # symbolic string
    if name == "encode":
        rt.theory.note("str.encode('ascii') on symbolic strings is an uninterpreted injective function "
                       "(strings assumed ASCII)")
        return Builtin("str.encode", lambda i, a, k: SBytes(rt.f_str_ascii(s.e)))
    if name == "lstrip":
        return Builtin("str.lstrip", lambda i, a, k: SStr(rt.f_str_lstrip(s.e)))
    if name == "startswith" and rt.oid is not None:
        def startswith(i, a, k):
            # textual prefix of dotted OID strings: implied by (but weaker than) the node-wise prefix
            cands = a[0] if isinstance(a[0], tuple) else (a[0],)
            out = []
            for c in cands:
                ce = rt.to_str_expr(c)
                if not (z3.is_app(s.e) and s.e.decl().name() == "oid_str" and z3.is_app(ce) and ce.decl().name() == "oid_str"):
                    raise Undecided("str.startswith on symbolic strings that are not OID texts")
                out.append(lift_bool(rt.oid.textprefix(s.e.arg(0), ce.arg(0))))
            return Or(*out)
        return Builtin("str.startswith", startswith)
    return MISSING


def _bytes_method(rt, interp, b, name):
    if isinstance(b, bytes):
        def join(i, a, k):
            items = i.iterate(a[0])
            if all(isinstance(x, bytes) for x in items):
                return b.join(items)
            hook = rt.hooks.get("bytes.join")
            if hook is not None:
                return hook(i, b, items)
            out = None
            for x in items:
                e = rt.to_bytes_expr(x)
                out = e if out is None else rt.f_bcat(out, e)
            return SBytes(out) if out is not None else b""

        def generic(nm):
            def fn(i, a, k):
                return getattr(b, nm)(*a, **k)
            return fn
        if name == "join":
            return Builtin("bytes.join", join)
        if name in ("hex", "find", "decode", "startswith"):
            return Builtin("bytes." + name, generic(name))
        return MISSING
    hook = rt.hooks.get("SBytes.attr")
    if hook is not None:
        return hook(interp, b, name)
    return MISSING


def _int_method(rt, interp, v, name):
    if name == "to_bytes":
        def to_bytes(i, a, k):
            # (arguments by position or by keyword: one spelling for the models behind)
            k = dict(k)
            a = [a[0] if a else k.pop("length", 1), a[1] if len(a) > 1 else k.pop("byteorder", "big")]
            k.pop("length", None)
            k.pop("byteorder", None)
            if isinstance(v, int) and all(isinstance(x, (int, str)) for x in a) and all(isinstance(x, bool) for x in k.values()):
                try:
                    return v.to_bytes(*a, **k)
                except OverflowError as exc:
                    i.raise_py("OverflowError", str(exc))
            hook = rt.hooks.get("int.to_bytes")
            if hook is not None:
                return hook(i, v, a, k)
            raise Undecided("int.to_bytes on a symbolic integer")
        return Builtin("int.to_bytes", to_bytes)
    if name == "bit_length" and isinstance(v, int):
        return Builtin("int.bit_length", lambda i, a, k: v.bit_length())
    if name == "bit_length" and isinstance(v, SInt):
        def bit_length(i, a, k):
            # exact for |v| < 2^128 (an if-then-else chain); above, only "at least 129" is known
            x = zint(v)
            mag = z3.If(x >= 0, x, -x)
            big = i.ctx.fresh_int("bit_length_beyond_128")
            i.ctx.assume(big >= 129)
            e = zint(big)
            for kbits in range(128, -1, -1):
                e = z3.If(mag < 2 ** kbits, z3.IntVal(kbits), e)
            return lift_int(e)
        return Builtin("int.bit_length", bit_length)
    return MISSING


def native_getattr(rt, interp, obj, name):
    if isinstance(obj, NativeCtx):
        return obj.getattr(interp, name)
    if isinstance(obj, list):
        return _list_method(rt, interp, obj, name)
    if isinstance(obj, PDict):
        return _dict_method(rt, interp, obj, name)
    if isinstance(obj, (PSet, ASet)):
        return _set_method(rt, interp, obj, name)
    if isinstance(obj, (str, SStr)):
        return _str_method(rt, interp, obj, name)
    if isinstance(obj, (bytes, SBytes)):
        return _bytes_method(rt, interp, obj, name)
    if isinstance(obj, (int, SInt)) and not isinstance(obj, bool):
        return _int_method(rt, interp, obj, name)
    if isinstance(obj, tuple):
        if name == "index":
            return _list_method(rt, interp, list(obj), name)
        if name == "count":
            return Builtin("tuple.count", lambda i, a, k: sum(1 for x in obj if i.truth(i.eq(x, a[0]))))
    if isinstance(obj, slice):
        if name in ("start", "stop", "step"):
            return getattr(obj, name)
    if isinstance(obj, TypeObj):
        if obj.name == "int" and name == "from_bytes":
            def from_bytes(i, a, k):
                data = a[0] if a else k.get("bytes")
                order_ = a[1] if len(a) > 1 else k.get("byteorder", "big")
                signed = k.get("signed", False)
                if isinstance(data, list) and all(isinstance(x, int) for x in data):
                    data = bytes(data)
                if isinstance(data, bytes) and isinstance(signed, bool):
                    return int.from_bytes(data, order_, signed=signed)
                hook = rt.hooks.get("int.from_bytes")
                if hook is not None:
                    return hook(i, data, order_, signed)
                raise Undecided("int.from_bytes on symbolic data")
            return Builtin("int.from_bytes", from_bytes)
        if obj.name == "dict" and name == "fromkeys":
            return Builtin("dict.fromkeys", lambda i, a, k: PDict([(x, a[1] if len(a) > 1 else None) for x in i.iterate(a[0])]))
    hook = rt.getattr_hooks.get(type(obj).__name__)
    if hook is not None:
        return hook(rt, interp, obj, name)
    return MISSING


def native_getitem(rt, interp, c, idx):
    hook = rt.getitem_hooks.get(type(c).__name__)
    if hook is not None:
        return hook(rt, interp, c, idx)
    if isinstance(c, dict):
        return c[idx]
    return MISSING


def native_getslice(rt, interp, c, lo, hi, step):
    if isinstance(c, SBytes) and lo is None and hi is None and step is None:
        return c
    hook = rt.getslice_hooks.get(type(c).__name__)
    if hook is not None:
        return hook(rt, interp, c, lo, hi, step)
    return MISSING


def native_iterate(rt, interp, v):
    hook = rt.iter_hooks.get(type(v).__name__)
    if hook is not None:
        return hook(rt, interp, v)
    return MISSING


def native_contains(rt, interp, container, item):
    hook = rt.contains_hooks.get(type(container).__name__)
    if hook is not None:
        return hook(rt, interp, container, item)
    return MISSING


def to_sort_expr(rt, v, sort):
    if sort == Bytes:
        return rt.to_bytes_expr(v)
    if sort == PStr:
        return rt.to_str_expr(v)
    if sort == OID and isinstance(v, Obj) and rt.oid is not None:
        return rt.oid.lit(None, v)
    raise EngineError("cannot embed %r into sort %s" % (v, sort))


def truth_hook(rt, v):
    return rt.truth_hooks.get(type(v).__name__)


LOGGER_NOOPS = ("debug", "info", "warning", "warn", "error", "exception", "critical", "log", "setLevel", "addHandler")


def callable_hook(rt, fn):
    if isinstance(fn, TypeObj):
        return lambda interp, f, args, kwargs: rt.builtins["__type_ctor__" + fn.name].fn(interp, args, kwargs)
    if isinstance(fn, Opaque) and fn.name.startswith("logger."):
        # methods of a logging.getLogger() object, whatever the module calls it: emitting a record is a no-op for the
        # properties (DESIGN 2.2; the arguments have been evaluated by the call), isEnabledFor is False as for `LOG`
        meth = fn.name.split(".", 1)[1]
        if meth in LOGGER_NOOPS:
            return lambda interp, f, args, kwargs: None
        if meth == "isEnabledFor":
            return lambda interp, f, args, kwargs: interp._debug_logging()
    return rt.call_hooks.get(type(fn).__name__)


# ============================================================================= context managers

class GenCtxMgr:
    """@contextmanager function called: body split at its single yield (DESIGN 3.8)."""

    def __init__(self, closure, args, kwargs):
        self.closure = closure
        self.args = args
        self.kwargs = kwargs
        self.frame = None


class NativeCtx:
    """contextlib.suppress / nullcontext / ExitStack"""

    def __init__(self, kind, classes=None, value=None):
        self.kind, self.classes, self.value = kind, classes or [], value
        self.callbacks = []          # ExitStack: (kind, callable / manager, args, kwargs), run last-in first-out

    def getattr(self, interp, name):
        if self.kind != "ExitStack":
            return MISSING
        if name == "callback":
            def callback(i, a, k):
                self.callbacks.append(("callback", a[0], list(a[1:]), dict(k)))
                return a[0]
            return Builtin("ExitStack.callback", callback)
        if name == "enter_context":
            def enter_context(i, a, k):
                v = context_enter(i.rt, i, a[0])
                self.callbacks.append(("manager", a[0], [], {}))
                return v
            return Builtin("ExitStack.enter_context", enter_context)
        if name == "close":
            return Builtin("ExitStack.close", lambda i, a, k: self.unwind(i, None))
        return MISSING

    def unwind(self, interp, exc):
        """True when a registered manager swallowed the exception"""
        swallowed = False
        pending = exc
        while self.callbacks:
            kind, fn, a, k = self.callbacks.pop()
            try:
                if kind == "callback":
                    interp.call(fn, a, k)
                elif context_exit(interp.rt, interp, fn, pending) is True:
                    swallowed, pending = True, None
            except PyExc as pe:
                pending, swallowed = pe.obj, False
        if pending is not None and pending is not exc:
            raise PyExc(pending)
        return swallowed


class CachedProperty:
    def __init__(self, fget):
        self.fget = fget


def operator_model():
    import ast as _ast
    def getter(kind):
        def make(i, a, k):
            names = list(a)

            def one(i2, obj, nm):
                if kind == "attr":
                    v = obj
                    for part in nm.split("."):
                        v = i2.rt.getattr(i2, v, part)
                    return v
                return i2.rt.getitem(i2, obj, nm)

            def call(i2, a2, k2):
                if len(names) == 1:
                    return one(i2, a2[0], names[0])
                return tuple(one(i2, a2[0], nm) for nm in names)
            return Builtin("operator.%sgetter%r" % (kind, tuple(names)), call)
        return make
    ops = {"add": _ast.Add(), "sub": _ast.Sub(), "mul": _ast.Mult(), "or_": _ast.BitOr(), "and_": _ast.BitAnd(), "xor": _ast.BitXor(),
           "floordiv": _ast.FloorDiv(), "mod": _ast.Mod(), "lshift": _ast.LShift(), "rshift": _ast.RShift()}
    cmps = {"eq": _ast.Eq(), "ne": _ast.NotEq(), "lt": _ast.Lt(), "le": _ast.LtE(), "gt": _ast.Gt(), "ge": _ast.GtE(),
            "is_": _ast.Is(), "is_not": _ast.IsNot(), "contains": None}
    m = {"attrgetter": Builtin("operator.attrgetter", getter("attr")), "itemgetter": Builtin("operator.itemgetter", getter("item"))}
    for name, op in ops.items():
        m[name] = Builtin("operator." + name, lambda i, a, k, op=op: i.binop(op, a[0], a[1]))
    for name, op in cmps.items():
        if op is not None:
            m[name] = Builtin("operator." + name, lambda i, a, k, op=op: i.compare(op, a[0], a[1]))
    m["contains"] = Builtin("operator.contains", lambda i, a, k: i.rt.contains(i, a[0], a[1]))
    m["not_"] = Builtin("operator.not_", lambda i, a, k: Not(i.truth(a[0])))
    m["truth"] = Builtin("operator.truth", lambda i, a, k: i.truth(a[0]))
    m["getitem"] = Builtin("operator.getitem", lambda i, a, k: i.rt.getitem(i, a[0], a[1]))
    return m


def context_enter(rt, interp, mgr):
    if isinstance(mgr, NativeCtx):
        return mgr if mgr.kind == "ExitStack" else mgr.value
    if isinstance(mgr, GenCtxMgr):
        return rt.ctxmgr_enter(interp, mgr)
    if isinstance(mgr, Opaque) or mgr is None:
        return None      # threading.Lock and friends: single-threaded, no-op
    if isinstance(mgr, Obj):
        m = rt.lookup_method(mgr.cls, "__enter__")
        if m is not None:
            return interp.call(rt.bind(m, mgr), [], {})
    raise Undecided("with-statement on %r" % (mgr,))


def context_exit(rt, interp, mgr, exc):
    """returns True when the manager swallows the exception"""
    if isinstance(mgr, NativeCtx):
        if mgr.kind == "suppress":
            return exc is not None and any(interp.truth(isinstance_sym(rt, interp, exc, c)) for c in mgr.classes)
        if mgr.kind == "ExitStack":
            return mgr.unwind(interp, exc)
        return None
    if isinstance(mgr, GenCtxMgr):
        return rt.ctxmgr_exit(interp, mgr, exc)
    if isinstance(mgr, Obj):
        m = rt.lookup_method(mgr.cls, "__exit__")
        if m is None:
            if rt.is_library_obj(mgr):
                raise Undecided("with-statement: __exit__ of the model object %s" % mgr.cls.name)
            interp.raise_py("AttributeError", "__exit__")
        args = [exc.cls, exc, Opaque("traceback")] if exc is not None else [None, None, None]
        return interp.truth(interp.call(rt.bind(m, mgr), args, {}))
    return None


# ============================================================================= installation

def install(rt):
    rt.oid = None
    rt.eq_hooks, rt.binop_hooks, rt.isinstance_hooks = {}, {}, {}
    rt.len_hooks, rt.bytes_hooks, rt.int_hooks, rt.str_hooks = {}, {}, {}, {}
    rt.getattr_hooks, rt.getitem_hooks, rt.getslice_hooks = {}, {}, {}
    rt.iter_hooks, rt.contains_hooks, rt.truth_hooks, rt.call_hooks = {}, {}, {}, {}
    rt.f_int_str = z3.Function("int_str", Int, PStr)
    rt.f_str_lstrip = z3.Function("str_lstrip_dot", PStr, PStr)

    B = rt.builtins
    for name, fn in [("len", _len), ("isinstance", _isinstance), ("sorted", _sorted), ("any", _any), ("all", _all),
                     ("min", _minmax("min")), ("max", _minmax("max")), ("zip", _zip), ("enumerate", _enumerate),
                     ("range", _range), ("reversed", _reversed), ("iter", _iter), ("next", _next), ("hash", _hash),
                     ("map", _map), ("filter", _filter), ("divmod", _divmod),
                     ("setattr", lambda i, a, k: i.rt.setattr(i, a[0], a[1], a[2]) if isinstance(a[1], str) else _undecided("setattr with a symbolic name")),
                     ("delattr", lambda i, a, k: _undecided("delattr")),
                     ("hasattr", _hasattr), ("getattr", _getattr), ("repr", _repr), ("type", _type), ("sum", _sum),
                     ("abs", _abs), ("print", lambda i, a, k: None), ("id", lambda i, a, k: i.ctx.fresh_int("id"))]:
        B[name] = Builtin(name, fn)
    for name, ctor in [("int", _int), ("bool", _bool), ("str", _str), ("bytes", _bytes), ("list", _list),
                       ("tuple", _tuple), ("dict", _dict), ("set", _set), ("object", lambda i, a, k: Obj(rt.object_class)),
                       ("float", lambda i, a, k: float(a[0])), ("bytearray", lambda i, a, k: bytearray(*a)),
                       ("slice", lambda i, a, k: slice(*a)), ("frozenset", _set)]:
        B[name] = TypeObj(name)
        B["__type_ctor__" + name] = Builtin(name, ctor)
    B["True"], B["False"], B["None"] = True, False, None
    B["NotImplemented"] = Opaque("NotImplemented")
    B["Ellipsis"] = Opaque("Ellipsis")
    B["__name__"] = "module"
    B["property"] = Builtin("property", lambda i, a, k: PropertyObj(a[0]))
    B["staticmethod"] = Builtin("staticmethod", lambda i, a, k: StaticM(a[0]))
    B["classmethod"] = Builtin("classmethod", lambda i, a, k: ClassM(a[0]))
    B["issubclass"] = Builtin("issubclass", lambda i, a, k: a[0].issubclass(a[1]))

    N = rt.native_modules
    N["typing"] = {"cast": Builtin("cast", lambda i, a, k: a[1]), "TYPE_CHECKING": False,
                   "NamedTuple": Opaque("NamedTuple")}
    N["typing_extensions"] = {}
    def _dc_obj(i, a, what):
        o = a[0]
        if isinstance(o, PyClass) and o.kind == "dataclass":
            return o, None
        if isinstance(o, Obj) and o.cls.kind == "dataclass":
            return o.cls, o
        i.raise_py("TypeError", "%s() should be called on dataclass instances" % what)

    def _dc_fields(i, a, k):
        cls, _o = _dc_obj(i, a, "fields")
        fcls = PyClass("dataclasses.Field", [], kind="builtin")
        return tuple(Obj(fcls, {"name": f, "default": cls.field_defaults.get(f)}) for f in cls.fields)

    def _dc_asdict(i, a, k):
        cls, o = _dc_obj(i, a, "asdict")
        if o is None or any(isinstance(v, (Obj, list, PDict, dict)) for v in o.fields.values()):
            raise Undecided("dataclasses.asdict on nested values (deep copy)")
        return PDict([(f, o.fields.get(f)) for f in cls.fields])

    def _dc_astuple(i, a, k):
        cls, o = _dc_obj(i, a, "astuple")
        if o is None or any(isinstance(v, (Obj, list, PDict, dict)) and not (isinstance(v, Obj) and v.cls.kind != "dataclass")
                            for v in o.fields.values()):
            raise Undecided("dataclasses.astuple on nested values (deep copy)")
        if any(isinstance(v, Obj) for v in o.fields.values()):
            raise Undecided("dataclasses.astuple copies non-dataclass members (copy.deepcopy)")
        return tuple(o.fields.get(f) for f in cls.fields)
    N["dataclasses"] = {"fields": Builtin("dataclasses.fields", _dc_fields), "asdict": Builtin("dataclasses.asdict", _dc_asdict),
                        "astuple": Builtin("dataclasses.astuple", _dc_astuple),
                        "replace": Builtin("dataclasses.replace", _replace),
                        "dataclass": Builtin("dataclass", lambda i, a, k: a[0] if a else Builtin("dc", lambda i2, a2, k2: a2[0]))}
    N["collections"] = {"OrderedDict": Builtin("OrderedDict", _ordered_dict)}
    def _partial(i, a, k):
        fn, pre, prek = a[0], list(a[1:]), dict(k)
        return Builtin("partial(%r)" % (fn,), lambda i2, a2, k2: i2.call(fn, pre + list(a2), dict(prek, **k2)))
    def _reduce(i, a, k):
        items = i.iterate(a[1])
        if len(a) > 2:
            acc = a[2]
        elif items:
            acc, items = items[0], items[1:]
        else:
            i.raise_py("TypeError", "reduce() of empty iterable with no initial value")
        for x in items:
            acc = i.call(a[0], [acc, x], {})
        return acc
    def _lru(i, a, k):
        # @lru_cache / @lru_cache(maxsize=...): results that are heap objects are shared between equal calls (runtime._lru_wrap)
        if len(a) == 1 and not k and isinstance(a[0], (Closure, LambdaFn)):
            return i.rt._lru_wrap(a[0])
        return Builtin("lru", lambda i2, a2, k2: i2.rt._lru_wrap(a2[0]))
    N["functools"] = {"lru_cache": Builtin("lru_cache", _lru),
                      # (functools.cache like lru_cache: the function is executed on every call - same results for the pure
                      #  functions it is meant for, and a function with effects shows them more often, never less)
                      "cache": Builtin("cache", lambda i, a, k: i.rt._lru_wrap(a[0])),
                      "partial": Builtin("partial", _partial), "reduce": Builtin("reduce", _reduce),
                      "cached_property": Builtin("cached_property", lambda i, a, k: CachedProperty(a[0]))}
    N["contextlib"] = {"contextmanager": Builtin("contextmanager", lambda i, a, k: a[0]),
                       "suppress": Builtin("suppress", lambda i, a, k: NativeCtx("suppress", classes=list(a))),
                       "nullcontext": Builtin("nullcontext", lambda i, a, k: NativeCtx("nullcontext", value=a[0] if a else None)),
                       "ExitStack": Builtin("ExitStack", lambda i, a, k: NativeCtx("ExitStack"))}
    N["operator"] = operator_model()
    N["logging"] = {"getLogger": Builtin("getLogger", lambda i, a, k: Opaque("logger")), "DEBUG": 10}
    N["warnings"] = {"warn": Builtin("warn", lambda i, a, k: None)}
    N["threading"] = {"Lock": Builtin("Lock", lambda i, a, k: Opaque("lock"))}
    N["textwrap"] = {"indent": Builtin("indent", lambda i, a, k: i.ctx.fresh_str("indent"))}
    N["sys"] = {"stdout": None, "version_info": (3, 12)}
    N["enum"] = {"Enum": Opaque("Enum")}
    N["itertools"] = itertools_model()
    N["binascii"] = {"hexlify": Opaque("hexlify"), "unhexlify": Opaque("unhexlify")}
    N["datetime"] = {"datetime": Opaque("datetime"), "timedelta": Opaque("timedelta")}
    N["t61codec"] = {}
    N["types"] = {"ModuleType": Opaque("ModuleType")}
    N["asyncio.events"] = {"AbstractEventLoop": Opaque("AbstractEventLoop")}
    N["asyncio.transports"] = {"BaseTransport": Opaque("BaseTransport")}
    N["socket"] = {"timeout": rt.builtin_class("TimeoutError"), "gethostbyname": Opaque("gethostbyname"),
                   "error": rt.builtin_class("OSError"), "gaierror": rt.builtin_class("OSError"), "herror": rt.builtin_class("OSError")}
    def _ensure_future(i, a, k):
        from .objects import Coroutine, Task
        if a and isinstance(a[0], Task):
            return a[0]
        if not a or not isinstance(a[0], Coroutine):
            raise Undecided("ensure_future / create_task of something that is not a coroutine object of the source")
        t = Task(a[0])
        i.rt.pending_tasks.append(t)
        i.rt.used_models.add("asyncio.ensure_future/create_task: the task runs at its own await; any other await while it is pending is undecided")
        return t
    N["asyncio"] = {"TimeoutError": rt.builtin_class("TimeoutError"),
                    "DatagramProtocol": PyClass("DatagramProtocol", [], kind="builtin"),
                    "get_event_loop": Opaque("get_event_loop"),
                    "ensure_future": Builtin("asyncio.ensure_future", _ensure_future),
                    "create_task": Builtin("asyncio.create_task", _ensure_future)}
    N["ipaddress"] = {"ip_address": Opaque("ip_address"), "IPv4Address": Opaque("IPv4Address"),
                      "IPv6Address": Opaque("IPv6Address")}
    N["hashlib"] = {"md5": Opaque("hashlib.md5"), "sha1": Opaque("hashlib.sha1")}
    N["hmac"] = {"new": Opaque("hmac.new"), "digest": Opaque("hmac.digest"), "compare_digest": Opaque("hmac.compare_digest")}
    N["time"] = {"time": Opaque("time.time")}
    def _getrandbits(i, a, k):
        n = a[0]
        if not isinstance(n, int):
            raise Undecided("getrandbits with a symbolic width")
        v = i.ctx.fresh_int("random_bits")
        i.ctx.assume(And(v >= 0, v < 2 ** n))
        return v

    def _randint(i, a, k):
        v = i.ctx.fresh_int("random_int")
        i.ctx.assume(And(v >= a[0], v <= a[1]))
        return v
    # the random module: any value of the documented range (nondeterministic)
    N["random"] = {"getrandbits": Builtin("random.getrandbits", _getrandbits), "randint": Builtin("random.randint", _randint),
                   "randrange": Opaque("random.randrange"), "random": Opaque("random.random"), "choice": Opaque("random.choice")}
    N["secrets"] = {"randbits": Builtin("secrets.randbits", _getrandbits)}
    N["importlib"] = {"import_module": Opaque("import_module")}
    N["pkgutil"] = {"iter_modules": Opaque("iter_modules"), "ModuleInfo": Opaque("ModuleInfo")}


def _zip_longest(interp, args, kwargs):
    lists = [interp.iterate(a) for a in args]
    fill = kwargs.get("fillvalue")
    n = max(len(x) for x in lists) if lists else 0
    return GenResult([tuple(x[i] if i < len(x) else fill for x in lists) for i in range(n)])


def _take(interp, it, n):
    """the next n elements of an iterable; a single-pass iterator keeps what is behind them"""
    if isinstance(it, GenResult):
        out = it.items[it.pos:it.pos + n] if n is not None else it.items[it.pos:]
        it.pos += len(out)
        return list(out)
    items = interp.iterate(it)
    return items if n is None else items[:n]


def _concrete_index(v, what):
    if v is None or (isinstance(v, int) and not isinstance(v, bool)):
        return v
    raise Undecided("itertools.islice with a symbolic %s" % what)


def itertools_model():
    """itertools over path-concrete sequences, collected eagerly like generators: the elements, their order and the calls of
    the predicates (each element once, in order, up to the first one that decides) are CPython's; what differs is WHEN they run
    relative to the consumer's own effects (DESIGN 3.4)."""
    def takewhile(i, a, k):
        src, out = a[1], []
        items = i.iterate(src, in_loop=True) if isinstance(src, GenResult) else i.iterate(src)
        n = 0
        for x in items:
            n += 1
            if not i.truth(i.call(a[0], [x], {})):
                break
            out.append(x)
        if isinstance(src, GenResult):
            src.pos += n          # the element that ended it is consumed as well
        return GenResult(out)

    def dropwhile(i, a, k):
        items = i.iterate(a[1])
        j = 0
        while j < len(items) and i.truth(i.call(a[0], [items[j]], {})):
            j += 1
        return GenResult(items[j:])

    def islice(i, a, k):
        src = a[0]
        if len(a) == 2:
            start, stop, step = 0, _concrete_index(a[1], "stop"), 1
        else:
            start, stop = _concrete_index(a[1], "start") or 0, _concrete_index(a[2], "stop")
            step = (_concrete_index(a[3], "step") if len(a) > 3 else 1) or 1
        if start < 0 or (stop is not None and stop < 0) or step < 1:
            i.raise_py("ValueError", "Indices for islice() must be None or an integer: 0 <= x <= sys.maxsize.")
        got = _take(i, src, stop if stop is None else max(stop, start))
        return GenResult(got[start::step] if stop is None else got[start:stop:step])

    def chain(i, a, k):
        out = []
        for part in a:
            out.extend(i.iterate(part))
        return GenResult(out)

    def from_iterable(i, a, k):
        out = []
        for part in i.iterate(a[0]):
            out.extend(i.iterate(part))
        return GenResult(out)

    def repeat(i, a, k):
        n = a[1] if len(a) > 1 else k.get("times")
        if not isinstance(n, int):
            raise Undecided("itertools.repeat without a concrete count")
        return GenResult([a[0]] * n)

    def product(i, a, k):
        import itertools
        pools = [i.iterate(x) for x in a] * int(k.get("repeat", 1))
        return GenResult([tuple(t) for t in itertools.product(*pools)])

    def starmap(i, a, k):
        return GenResult([i.call(a[0], list(i.iterate(t)), {}) for t in i.iterate(a[1])])

    def filterfalse(i, a, k):
        return GenResult([x for x in i.iterate(a[1]) if not i.truth(x if a[0] is None else i.call(a[0], [x], {}))])

    def accumulate(i, a, k):
        import ast as _ast
        items, out = i.iterate(a[0]), []
        fn = a[1] if len(a) > 1 else k.get("func")
        for x in items:
            if not out:
                out.append(x)
            else:
                out.append(i.call(fn, [out[-1], x], {}) if fn is not None else i.binop(_ast.Add(), out[-1], x))
        return GenResult(out)

    def pairwise(i, a, k):
        items = i.iterate(a[0])
        return GenResult(list(zip(items, items[1:])))

    def compress(i, a, k):
        return GenResult([x for x, s in zip(i.iterate(a[0]), i.iterate(a[1])) if i.truth(s)])
    ch = Builtin("chain", chain)
    ch.attrs = {"from_iterable": Builtin("chain.from_iterable", from_iterable)}
    return {"zip_longest": Builtin("zip_longest", _zip_longest), "takewhile": Builtin("takewhile", takewhile),
            "dropwhile": Builtin("dropwhile", dropwhile), "islice": Builtin("islice", islice), "chain": ch,
            "repeat": Builtin("repeat", repeat), "product": Builtin("product", product), "starmap": Builtin("starmap", starmap),
            "filterfalse": Builtin("filterfalse", filterfalse), "accumulate": Builtin("accumulate", accumulate),
            "pairwise": Builtin("pairwise", pairwise), "compress": Builtin("compress", compress)}


# ============================================================================= floats (real relaxation), timedelta, ip

class SReal(Sym):
    """A double, over-approximated by a real number: every correctly rounded operation returns the exact
    result plus an error bounded by half an ulp of the (proved) magnitude bound (DESIGN 7.17)."""
    pytype = "float"


def zreal(v):
    if isinstance(v, SReal):
        return v.e
    if isinstance(v, float):
        if v != v or v in (float("inf"), float("-inf")):
            raise Undecided("non-finite float")
        from fractions import Fraction
        fr = Fraction(v)
        return z3.RealVal("%d/%d" % (fr.numerator, fr.denominator))
    if isinstance(v, (int, SInt, SBool, bool)):
        return z3.ToReal(zint(v))
    raise EngineError("not a number: %r" % (v,))


def float_round(interp, exact):
    """The double nearest to the real ``exact``: exact + err, |err| <= 2^(k-53) where 2^k bounds |exact|."""
    rt = interp.rt
    rt.theory.note("machine arithmetic treated as mathematical: IEEE-754 double operations are modelled by the sound real "
                   "relaxation result = exact + err, |err| <= half an ulp of a proved magnitude bound")
    for k in (0, 8, 16, 24, 26, 32, 40, 48, 53, 64):
        if _prove(interp, z3.And(exact <= z3.RealVal(2) ** k, exact >= -(z3.RealVal(2) ** k))):
            r = interp.ctx.fresh(z3.RealSort(), "fl")
            bound = z3.Q(1, 2 ** (53 - k)) if k <= 53 else z3.RealVal(2 ** (k - 53))
            interp.ctx.assume(lift_bool(z3.And(r - exact <= bound, exact - r <= bound)))
            # rounding to nearest is monotone and every integer below 2^53 is a double:
            # the result never crosses an integer (in particular it keeps the sign)
            if k <= 53:
                kf = interp.ctx.fresh(Int, "fl_floor")
                interp.ctx.assume(lift_bool(z3.And(z3.ToReal(kf) <= exact, exact < z3.ToReal(kf) + 1,
                                                   z3.ToReal(kf) <= r, r <= z3.ToReal(kf) + 1,
                                                   z3.Implies(exact == z3.ToReal(kf), r == exact))))
            return SReal(r)
    raise Undecided("float operation on a value without a proved magnitude bound")


def real_binop(rt, interp, opn, a, b):
    x, y = zreal(a), zreal(b)
    if opn == "Div":
        if isinstance(b, (int, float)) and b == 0:
            interp.raise_py("ZeroDivisionError")
        if not isinstance(b, (int, float)):
            raise Undecided("float division by a symbolic divisor")
        return float_round(interp, x / y)
    if opn == "Mult":
        if isinstance(a, Sym) and isinstance(b, Sym):
            raise Undecided("float product of two symbolic values")
        return float_round(interp, x * y)
    if opn == "Add":
        return float_round(interp, x + y)
    if opn == "Sub":
        return float_round(interp, x - y)
    raise Undecided("float operator %s" % opn)


def real_floor(interp, r):
    """floor of a real as a fresh integer."""
    k = interp.ctx.fresh(Int, "floor")
    interp.ctx.assume(lift_bool(z3.And(z3.ToReal(k) <= r, r < z3.ToReal(k) + 1)))
    return k


def install_numeric_models(rt, interp):
    """timedelta / ip_address / int.to_bytes models (assumed contracts of the standard library)."""
    td_cls = PyClass("timedelta", [], kind="builtin")
    ip4_cls = PyClass("IPv4Address", [], kind="builtin")
    rt.td_cls, rt.ip4_cls = td_cls, ip4_cls
    rt.theory.note("datetime.timedelta: a whole number of microseconds; timedelta(seconds=<float>) follows CPython's "
                   "delta_new/accum algorithm (modf, one multiplication by 1e6, round-half-even of the left-over)")
    UNITS = {"days": 86400 * 10 ** 6, "seconds": 10 ** 6, "microseconds": 1, "milliseconds": 1000, "minutes": 60 * 10 ** 6,
             "hours": 3600 * 10 ** 6, "weeks": 7 * 86400 * 10 ** 6}

    def new_td(i, cls, args, kwargs):
        names = ["days", "seconds", "microseconds", "milliseconds", "minutes", "hours", "weeks"]
        kw = dict(zip(names, args))
        kw.update(kwargs)
        total = z3.IntVal(0)
        for k, v in kw.items():
            if k not in UNITS:
                i.raise_py("TypeError", "unexpected keyword %r" % k)
            if isinstance(v, (SReal, float)):
                if k != "seconds":
                    raise Undecided("float timedelta argument other than seconds")
                s = zreal(v)
                q = real_floor(i, s)                      # modf: integral part (s >= 0 assumed below)
                if not _prove(i, s >= 0):
                    raise Undecided("timedelta(seconds=<possibly negative float>)")
                f = s - z3.ToReal(q)                      # exact
                d = float_round(i, f * 10 ** 6).e         # one rounded multiplication
                ip = real_floor(i, d)
                fr = d - z3.ToReal(ip)
                tie = i.ctx.fresh(Int, "half_even")
                i.ctx.assume(lift_bool(z3.Or(tie == 0, tie == 1)))
                whole = z3.If(fr > z3.Q(1, 2), 1, z3.If(fr < z3.Q(1, 2), 0, tie))
                total = total + q * 10 ** 6 + ip + whole
            else:
                total = total + zint(v) * UNITS[k]
        return Obj(td_cls, {"us": lift_int(total)})
    rt.hooks["new:timedelta"] = new_td
    rt.native_modules["datetime"]["timedelta"] = td_cls
    rt.module_cache.pop("datetime", None)

    def td_binop(rt_, i, a, b):
        return MISSING
    for opn in ("FloorDiv", "Div", "Mult", "Add", "Sub"):
        def mk(opn):
            def hook(rt_, i, a, b):
                ta = isinstance(a, Obj) and a.cls is td_cls
                tb = isinstance(b, Obj) and b.cls is td_cls
                if ta and tb and opn == "FloorDiv":
                    ub = b.fields["us"]
                    if not isinstance(ub, int) or ub <= 0:
                        raise Undecided("timedelta // non-positive or symbolic timedelta")
                    return lift_int(zint(a.fields["us"]) / ub)
                if ta and tb and opn in ("Add", "Sub"):
                    return Obj(td_cls, {"us": binop(rt_, i, ast.Add() if opn == "Add" else ast.Sub(), a.fields["us"], b.fields["us"])})
                if isinstance(a, (SReal, float)) or isinstance(b, (SReal, float)):
                    if isinstance(a, (SReal, float, int, SInt)) and isinstance(b, (SReal, float, int, SInt)):
                        return real_binop(rt_, i, opn, a, b)
                if opn == "Div" and _is_intlike(a) and _is_intlike(b):
                    return real_binop(rt_, i, opn, a, b)
                return MISSING
            return hook
        rt.binop_hooks.setdefault(opn, []).append(mk(opn))

    def td_attr(i, obj, name):
        if name == "total_seconds":
            return Builtin("total_seconds", lambda i2, a, k: float_round(i2, z3.ToReal(zint(obj.fields["us"])) / 10 ** 6))
        return NotImplemented
    td_cls.native_attrs["total_seconds"] = Builtin("timedelta.total_seconds",
                                                   lambda i, a, k: float_round(i, z3.ToReal(zint(a[0].fields["us"])) / 10 ** 6))
    rt.int_hooks["SReal"] = lambda rt_, i, v: _trunc(i, v)
    rt.eq_hooks["SReal"] = lambda rt_, i, a, b: lift_bool(a.e == zreal(b))

    # ---- ipaddress
    rt.theory.note("ipaddress.ip_address(int) for 0 <= int < 2^32 is the IPv4Address with that number; int(IPv4Address) "
                   "is the number; int.to_bytes / int.from_bytes with equal length and byte order are inverse on "
                   "0 <= x < 256^n (assumed contracts of the standard library)")
    rt.f_tobytes = z3.Function("int_to_bytes", Int, Int, Bool, Bytes)
    rt.f_frombytes = z3.Function("int_from_bytes", Bytes, Bool, Bool, Int)
    def bytes_axiom():
        xx, nn, bb = z3.Int("xx"), z3.Int("nn"), z3.Bool("bb")
        rt.theory.add_once("to/from-bytes", lambda: z3.ForAll([xx, nn, bb], z3.Implies(
            z3.And(xx >= 0, nn >= 0), z3.And(rt.f_frombytes(rt.f_tobytes(xx, nn, bb), bb, False) == xx,
                                             rt.f_blen(rt.f_tobytes(xx, nn, bb)) == nn))))

    def to_bytes(i, v, a, k):
        bytes_axiom()
        n = a[0] if a else k.get("length", 1)
        order_ = a[1] if len(a) > 1 else k.get("byteorder", "big")
        if not isinstance(n, int):
            raise Undecided("to_bytes with symbolic length")
        x = zint(v)
        if not _prove(i, z3.And(x >= 0, x < 256 ** n)):
            if i.ctx.branch(lift_bool(z3.Or(x < 0, x >= 256 ** n))):
                i.raise_py("OverflowError", "int too big to convert")
        return SBytes(rt.f_tobytes(x, z3.IntVal(n), z3.BoolVal(order_ == "big")))
    rt.hooks["int.to_bytes"] = to_bytes

    def from_bytes(i, data, order_, signed):
        bytes_axiom()
        return SInt(rt.f_frombytes(rt.to_bytes_expr(data), z3.BoolVal(order_ == "big"), z3.BoolVal(bool(signed))))
    rt.hooks["int.from_bytes"] = from_bytes

    def ip_address(i, fn, args, kwargs):
        v = args[0]
        if _is_intlike(v):
            x = zint(v)
            if i.ctx.branch(lift_bool(z3.And(x >= 0, x < 2 ** 32))):
                return Obj(ip4_cls, {"n": v})
            raise Undecided("ip_address() of a number outside the IPv4 range (IPv6 / ValueError)")
        from .objects import Opaque
        return Opaque("ip(%r)" % (v,))
    rt.ip_address_model = ip_address
    rt.native_modules["ipaddress"]["ip_address"] = Builtin("ip_address", lambda i, a, k: ip_address(i, None, a, k))
    rt.native_modules["ipaddress"]["IPv4Address"] = ip4_cls
    rt.module_cache.pop("ipaddress", None)
    rt.int_hooks["Obj"] = None
    ip4_cls.native_attrs["__int__"] = Builtin("IPv4Address.__int__", lambda i, a, k: a[0].fields["n"])
    ip4_cls.native_attrs["__eq__"] = Builtin("IPv4Address.__eq__", lambda i, a, k: (
        isinstance(a[1], Obj) and a[1].cls is ip4_cls and i.eq(a[0].fields["n"], a[1].fields["n"])))
    td_cls.native_attrs["__eq__"] = Builtin("timedelta.__eq__", lambda i, a, k: (
        isinstance(a[1], Obj) and a[1].cls is td_cls and i.eq(a[0].fields["us"], a[1].fields["us"])))


def _trunc(interp, v):
    """int(<float>) : truncation toward zero (non-negative values only)."""
    if not _prove(interp, v.e >= 0):
        raise Undecided("int() of a possibly negative float")
    return lift_int(real_floor(interp, v.e))
