"""Entry point: ./check <ID> quick|thorough | ./check <ID> --replay <file>"""
import os
import sys

sys.setrecursionlimit(20000)


def main(argv):
    if len(argv) < 2:
        print("usage: check <ID> quick|thorough | check <ID> --replay <file>")
        return 3
    prop = argv[0]
    seed = int(os.environ.get("VERIF_SEED", "0") or 0)
    from contracts import registry
    if prop not in registry.PROPS:
        print("CHECKER-ERROR no check registered for %s" % prop)
        return 3
    entry = registry.PROPS[prop]
    if argv[1] == "--replay":
        # re-run the concrete input of a replay file against the real code of the current tree
        import json
        from pyvc import vu
        d = json.load(open(argv[2]))
        scen = d.get("scenario") or (d.get("replay") or {}).get("native_witness")
        if not scen:
            print("REPLAY property=%s file=%s carries no concrete input (the obligation and the verifier's output are in the file)" % (prop, argv[2]))
            return 2
        r = vu.native_replay(scen)
        if r is None or r.get("reproduced") is None:
            print("REPLAY property=%s no native driver for a scenario of kind %r" % (prop, scen.get("kind")))
            return 2
        print("REPLAY property=%s reproduced=%s %s" % (prop, r.get("reproduced"), json.dumps(r.get("detail"), default=str)[:600]))
        if r.get("reproduced"):
            print("VIOLATION property=%s replay=%s" % (prop, argv[2]))
            return 1
        return 0
    tier = argv[1]
    if tier not in ("quick", "thorough"):
        tier = os.environ.get("VERIF_TIER", "quick")
    # A check always ends: every exploration job (also the ones split off later) stops at this instant at the latest and the
    # units left over are UNDECIDED - never a verdict. (unchanged tree: quick < 2 min, thorough < 45 min per property)
    import time as _time
    budget = float(os.environ.get("PYVC_CHECK_BUDGET_S", "1500" if tier == "quick" else "14400"))
    os.environ["PYVC_CHECK_DEADLINE"] = repr(_time.time() + budget)
    from pyvc import vu
    units = []
    for mk in entry["units"]:
        units.extend(u for u in mk(tier) if prop in u.props)
    extra = entry.get("standins", [])
    only = os.environ.get("PYVC_ONLY")            # debugging aid: run the units whose name contains this text, no stand-ins
    if only:
        units = [u for u in units if only in u.name]
        extra = []
    replay_fn = entry.get("replay")
    return vu.run_check(prop, units, tier, seed, level=entry["level"], technique_text=entry["technique"],
                        trusted_base=entry.get("trusted_base", []), replay_fn=replay_fn, extra_checks=extra,
                        design_ref=entry.get("design_ref", ""))


if __name__ == "__main__":
    sys.exit(main(sys.argv[1:]))
