"""
Symbolic interpreter over Python ``ast`` (the subset listed in DESIGN.md 3.3).

One Interp instance executes ONE path (it holds the path context).  Calls are resolved in
the order  contract/model hook -> source (inlining) -> unsupported.
"""
import ast

import z3

from . import core
from .core import (EngineError, Undecided, Sym, SBool, SInt, SOid, SXVal, SBytes, SStr, SPy, And, Or, Not,
                   lift_bool, lift_int, zbool, zint)
from .objects import (PyExc, ReturnSignal, BreakSignal, ContinueSignal, PyClass, Obj, NT, Closure, LambdaFn,
                      BoundMethod, Builtin, ModuleObj, PropertyObj, StaticM, ClassM, Opaque, GenResult, PDict,
                      PSet, ASet)

DROPPED_CALL_PREFIXES = ("LOG.", "warnings.warn", "warn")


class Frame:
    def __init__(self, func, module, parent=None):
        self.func = func          # Closure or None
        self.module = module      # ModuleObj
        self.parent = parent      # defining frame for closures
        self.locals = {}
        self.yielded = None
        self.loop_ordinal = 0
        self.declared_locals = set()
        self.nonlocals = set()    # names declared `nonlocal` in this frame: assignments go to the defining frame

    def lookup(self, name):
        f = self
        while f is not None:
            if name in f.locals:
                return f, f.locals[name]
            f = f.parent
        return None, None


class LoopClause:
    """Inductive invariant for a loop with a symbolic trip count (DESIGN.md 3.5)."""

    def __init__(self, havoc, invariant, decreases=None, name="loop", mode="both"):
        self.havoc = havoc            # fn(interp, frame) -> None : replace modified state by fresh symbols
        self.invariant = invariant    # fn(interp, frame, when) -> list of (label, cond)
        self.decreases = decreases    # fn(interp, frame) -> SInt/int  or None
        self.name = name
        # both: establish, then the inductive step on the same path
        # establish: check establishment and stop (the step is verified by another unit)
        # step: start from an arbitrary state satisfying the invariant: the path condition collected
        #       so far is dropped down to the unit's base assumptions, every loop-visible local is havocked
        self.mode = mode


class Poison:
    """A local the loop assigns but the loop invariant says nothing about: using it before it is assigned
    again means the contract no longer describes the loop (undecided, never a verdict)."""

    def __init__(self, name):
        self.name = name


def loop_assigned_names(loop):
    """names stored anywhere inside a loop statement"""
    out = set()
    for n in ast.walk(loop):
        if isinstance(n, ast.Name) and isinstance(n.ctx, ast.Store):
            out.add(n.id)
    return out


def nth_loop(fn_ast, ordinal, kind=(ast.While,)):
    loops = [n for n in ast.walk(fn_ast) if isinstance(n, kind)]
    loops.sort(key=lambda n: (n.lineno, n.col_offset))
    return loops[ordinal] if ordinal < len(loops) else None


class LoopCut(Exception):
    """Raised after the inductive step of a loop has been checked (path ends)."""


class Interp:
    def __init__(self, program, ctx, runtime):
        self.program = program
        self.ctx = ctx
        self.rt = runtime             # shared Runtime (class table, builtins, hooks)
        self.call_depth = 0
        self.unroll_limit = 64
        self.prop = runtime.prop
        self.on_yield = None          # fn(interp, frame, value)
        self.loop_clauses = {}        # (fullname, ordinal) -> LoopClause
        self.call_log = []

    # ------------------------------------------------------------------ errors
    def unsupported(self, what, node=None):
        where = ""
        if node is not None and hasattr(node, "lineno"):
            where = " (line %d)" % node.lineno
        raise Undecided("unsupported construct: %s%s" % (what, where))

    def raise_py(self, clsname, *args):
        cls = self.rt.builtin_class(clsname)
        raise PyExc(self.rt.make_exception(cls, list(args)))

    # ------------------------------------------------------------------ truth / equality
    def truth(self, v):
        """Python truthiness -> Python bool (may fork)."""
        return self.ctx.branch(self.truth_sym(v))

    def truth_sym(self, v):
        if isinstance(v, bool):
            return v
        if v is None:
            return False
        if isinstance(v, SBool):
            return v
        if isinstance(v, int):
            return v != 0
        if isinstance(v, SInt):
            return Not(v.eq(0))
        if isinstance(v, (str, bytes, list, tuple, dict, set, frozenset)):
            return len(v) > 0
        if isinstance(v, PDict):
            return len(v.pairs) > 0
        if isinstance(v, PSet):
            return len(v.items) > 0
        if isinstance(v, GenResult):
            return True
        if isinstance(v, SBytes):
            return Not(SInt(self.rt.blen(v.e)).eq(0))
        if isinstance(v, SStr):
            return Not(SInt(self.rt.slen(v.e)).eq(0))
        if isinstance(v, SXVal):
            return lift_bool(self.rt.xtruth(v.e))
        if isinstance(v, SPy):
            return lift_bool(self.rt.pytruth(v.e))
        if isinstance(v, SOid):
            # x690's ObjectIdentifier defines __len__ (number of arcs) and no __bool__: the zero-length OID is falsy
            if self.rt.oid is None:
                raise Undecided("truth value of an OID without an OID theory")
            n = self.rt.oid.olen_sym(self, v)
            return (n != 0) if isinstance(n, int) else Not(n.eq(0))
        if isinstance(v, Obj):
            m = self.rt.lookup_method(v.cls, "__bool__")
            if m is not None:
                return self.truth_sym(self.call(self.rt.bind(m, v), [], {}))
            m = self.rt.lookup_method(v.cls, "__len__")
            if m is not None:
                n = self.call(self.rt.bind(m, v), [], {})
                return self.truth_sym(n)
            return True
        if isinstance(v, (Closure, BoundMethod, Builtin, PyClass, ModuleObj, Opaque, LambdaFn)):
            return True
        if isinstance(v, float):
            return v != 0.0
        hook = self.rt.truth_hook(v)
        if hook is not None:
            return hook(self, v)
        self.unsupported("truth value of %r" % (v,))

    def eq(self, a, b):
        """a == b  -> bool | SBool (never forks)."""
        if a is b and not isinstance(a, float):
            return True
        hooks = self.rt.eq_hooks
        if hooks:
            hook = hooks.get(type(a).__name__) or hooks.get(type(b).__name__)
            if hook is not None and not (isinstance(a, Sym) and type(a).__name__ == "SReal" and False):
                return hook(self.rt, self, a, b)
        if isinstance(a, Sym) or isinstance(b, Sym):
            return self.rt.sym_eq(self, a, b)
        if isinstance(a, (NT, tuple, list)) and isinstance(b, (NT, tuple, list)):
            if isinstance(a, list) != isinstance(b, list):
                return False
            if len(a) != len(b):
                return False
            return And(*[self.eq(x, y) for x, y in zip(a, b)])
        if isinstance(a, Obj) or isinstance(b, Obj):
            return self.rt.obj_eq(self, a, b)
        if isinstance(a, PDict) and isinstance(b, PDict):
            self.unsupported("dict equality")
        if isinstance(a, (PyClass, Closure, ModuleObj, Opaque, Builtin)) or isinstance(
                b, (PyClass, Closure, ModuleObj, Opaque, Builtin)):
            return a is b
        try:
            return bool(a == b)
        except Exception:
            return False

    # ------------------------------------------------------------------ calls
    def call(self, fn, args, kwargs):
        self.call_depth += 1
        if self.call_depth > 60:
            raise Undecided("call depth exceeded (recursion on the explored path)")
        try:
            return self._call(fn, args, kwargs)
        finally:
            self.call_depth -= 1

    def _call(self, fn, args, kwargs):
        if isinstance(fn, BoundMethod):
            return self._call(fn.func, [fn.self_obj] + list(args), kwargs)
        if isinstance(fn, Builtin):
            return fn.fn(self, list(args), dict(kwargs))
        if isinstance(fn, StaticM):
            return self._call(fn.func, args, kwargs)
        if isinstance(fn, Closure):
            if fn.attrs.get("contextmanager"):
                from .stdlib import GenCtxMgr
                return GenCtxMgr(fn, list(args), dict(kwargs))
            hook = self.rt.hooks.get(fn.info.fullname)
            if hook is not None:
                res = hook(self, fn, list(args), dict(kwargs))
                if res is not NotImplemented:
                    self.rt.by_contract.add(fn.info.fullname)
                    return res
            self.rt.executed.add(fn.info.fullname)
            return self.call_closure(fn, args, kwargs)
        if isinstance(fn, LambdaFn):
            frame = Frame(None, fn.module, parent=fn.frame)
            self.bind_args(frame, fn.node.args, getattr(fn, "defaults", []), getattr(fn, "kwdefaults", {}), args, kwargs, "<lambda>")
            return self.eval(fn.node.body, frame)
        if isinstance(fn, PyClass):
            return self.rt.instantiate(self, fn, list(args), dict(kwargs))
        if isinstance(fn, Obj):
            m = self.rt.lookup_method(fn.cls, "__call__")
            if m is not None:
                return self.call(self.rt.bind(m, fn), args, kwargs)
        hook = self.rt.callable_hook(fn)
        if hook is not None:
            return hook(self, fn, list(args), dict(kwargs))
        self.unsupported("call of %r" % (fn,))

    def bind_args(self, frame, a, defaults, kwdefaults, args, kwargs, fname):
        params = [p.arg for p in a.posonlyargs] + [p.arg for p in a.args]
        args = list(args)
        kwargs = dict(kwargs)
        n = len(params)
        if len(args) > n and a.vararg is None:
            self.raise_py("TypeError", "%s() takes %d positional arguments but %d were given" % (fname, n, len(args)))
        for i, name in enumerate(params):
            if i < len(args):
                if name in kwargs:
                    self.raise_py("TypeError", "%s() got multiple values for argument %r" % (fname, name))
                frame.locals[name] = args[i]
            elif name in kwargs:
                frame.locals[name] = kwargs.pop(name)
            else:
                di = i - (n - len(defaults))
                if di >= 0:
                    frame.locals[name] = defaults[di]
                else:
                    self.raise_py("TypeError", "%s() missing required argument %r" % (fname, name))
        if a.vararg is not None:
            frame.locals[a.vararg.arg] = tuple(args[n:])
        for p in a.kwonlyargs:
            if p.arg in kwargs:
                frame.locals[p.arg] = kwargs.pop(p.arg)
            elif p.arg in kwdefaults:
                frame.locals[p.arg] = kwdefaults[p.arg]
            else:
                self.raise_py("TypeError", "%s() missing keyword-only argument %r" % (fname, p.arg))
        if a.kwarg is not None:
            frame.locals[a.kwarg.arg] = PDict(list(kwargs.items()))
        elif kwargs:
            self.raise_py("TypeError", "%s() got an unexpected keyword argument %r" % (fname, sorted(kwargs)[0]))

    def call_closure(self, fn, args, kwargs):
        info = fn.info
        frame = Frame(fn, fn.module, parent=fn.frame)
        self.bind_args(frame, info.node.args, fn.defaults, fn.kwdefaults, args, kwargs, info.qualname)
        if info.is_generator:
            frame.yielded = []
        self.call_log.append(info.fullname)
        try:
            self.exec_block(info.node.body, frame)
            result = None
        except ReturnSignal as r:
            result = r.value
        except PyExc as pe:
            if info.is_generator and frame.yielded and getattr(frame, "yield_callback", None) is None:
                # the consumer sees the items yielded so far BEFORE the exception (it is raised when they are used up)
                return GenResult(frame.yielded, pending_exc=pe.obj, from_function=True)
            raise
        if info.is_generator:
            return GenResult(frame.yielded, from_function=True)
        return result

    # ------------------------------------------------------------------ statements
    def exec_block(self, body, frame):
        for st in body:
            self.exec(st, frame)

    def exec(self, st, frame):
        m = getattr(self, "x_" + type(st).__name__, None)
        if m is None:
            self.unsupported("statement %s" % type(st).__name__, st)
        return m(st, frame)

    def x_Expr(self, st, frame):
        v = st.value
        if isinstance(v, ast.Constant):
            return  # docstring
        if isinstance(v, ast.Call):
            txt = ast.unparse(v.func)
            if txt.startswith("LOG.") or txt in ("warn", "warnings.warn"):
                if txt.startswith("LOG.") and not txt.endswith("isEnabledFor"):
                    self._eval_dropped_args(v, frame)
                return  # DESIGN 2.2: logging and warnings are no-ops (their arguments are still evaluated)
        self.eval(v, frame)

    def x_Pass(self, st, frame):
        pass

    def x_Global(self, st, frame):
        self.unsupported("global", st)

    def x_Nonlocal(self, st, frame):
        frame.nonlocals.update(st.names)

    def x_Import(self, st, frame):
        for a in st.names:
            frame.locals[a.asname or a.name.split(".")[0]] = self.rt.import_module(a.name if a.asname else a.name.split(".")[0])

    def x_ImportFrom(self, st, frame):
        modname = frame.module.info._resolve_relative(st.module, st.level) if frame.module.info else st.module
        for a in st.names:
            frame.locals[a.asname or a.name] = self.rt.module_attr(self, self.rt.import_module(modname), a.name)

    def x_FunctionDef(self, st, frame):
        from .loader import FuncInfo
        owner = frame.func.info.qualname if frame.func is not None else ""
        info = FuncInfo(frame.module.info, (owner + ".<locals>." if owner else "") + st.name, st,
                        decorators=st.decorator_list)
        defaults = [self.eval(d, frame) for d in st.args.defaults]
        kwd = {p.arg: self.eval(d, frame) for p, d in zip(st.args.kwonlyargs, st.args.kw_defaults) if d is not None}
        clo = Closure(info, frame, defaults, kwd, frame.module)
        val = clo
        for dec in reversed(st.decorator_list):
            val = self.rt.apply_decorator(self, dec, val, frame)
        frame.locals[st.name] = val

    x_AsyncFunctionDef = x_FunctionDef

    def x_Return(self, st, frame):
        raise ReturnSignal(self.eval(st.value, frame) if st.value is not None else None)

    def x_Assign(self, st, frame):
        v = self.eval(st.value, frame)
        for t in st.targets:
            self.assign(t, v, frame)

    def x_AnnAssign(self, st, frame):
        if st.value is not None:
            self.assign(st.target, self.eval(st.value, frame), frame)

    def x_AugAssign(self, st, frame):
        load = ast.copy_location(_as_load(st.target), st.target)
        cur = self.eval(load, frame)
        rhs = self.eval(st.value, frame)
        if isinstance(cur, list) and isinstance(st.op, ast.Add):
            cur.extend(self.iterate(rhs))        # list += iterable extends the SAME list object (aliases see it)
            self.assign(st.target, cur, frame)
            return
        if isinstance(cur, PDict) and isinstance(st.op, ast.BitOr) and isinstance(rhs, (PDict, dict)):
            for k_, v_ in (rhs.pairs if isinstance(rhs, PDict) else rhs.items()):      # d |= other updates the SAME dict
                self.rt.setitem(self, cur, k_, v_)
            self.assign(st.target, cur, frame)
            return
        if isinstance(cur, (PDict, PSet, bytearray)) or (isinstance(cur, list) and isinstance(st.op, ast.Mult)):
            self.unsupported("augmented assignment on a mutable container", st)
        v = self.binop(st.op, cur, rhs, st)
        self.assign(st.target, v, frame)

    def x_Delete(self, st, frame):
        for t in st.targets:
            if isinstance(t, ast.Subscript):
                c = self.eval(t.value, frame)
                i = self.eval(t.slice, frame)
                if isinstance(c, list) and isinstance(i, int):
                    del c[i]
                    continue
            self.unsupported("del", st)

    def x_Assert(self, st, frame):
        if not self.truth(self.eval(st.test, frame)):
            self.raise_py("AssertionError")

    def assign(self, t, v, frame):
        if isinstance(t, ast.Name):
            if t.id in frame.nonlocals:
                f = frame.parent
                while f is not None and t.id not in f.locals:
                    f = f.parent
                if f is None:
                    self.unsupported("nonlocal name %s without a binding in an enclosing function" % t.id, t)
                f.locals[t.id] = v
                return
            frame.locals[t.id] = v
        elif isinstance(t, (ast.Tuple, ast.List)):
            items = self.iterate(v)
            stars = [i for i, e in enumerate(t.elts) if isinstance(e, ast.Starred)]
            if stars:
                k = stars[0]
                after = len(t.elts) - k - 1
                if len(stars) > 1 or len(items) < len(t.elts) - 1:
                    self.raise_py("ValueError", "unpack arity")
                for e, x in zip(t.elts[:k], items[:k]):
                    self.assign(e, x, frame)
                self.assign(t.elts[k].value, list(items[k:len(items) - after]), frame)
                for e, x in zip(t.elts[k + 1:], items[len(items) - after:]):
                    self.assign(e, x, frame)
                return
            if len(items) != len(t.elts):
                self.raise_py("ValueError", "unpack arity")
            for e, x in zip(t.elts, items):
                self.assign(e, x, frame)
        elif isinstance(t, ast.Attribute):
            self.rt.setattr(self, self.eval(t.value, frame), t.attr, v)
        elif isinstance(t, ast.Subscript):
            self.rt.setitem(self, self.eval(t.value, frame), self.eval(t.slice, frame), v)
        else:
            self.unsupported("assignment target %s" % type(t).__name__, t)

    def x_If(self, st, frame):
        if self.truth(self.eval(st.test, frame)):
            self.exec_block(st.body, frame)
        else:
            self.exec_block(st.orelse, frame)

    def x_For(self, st, frame):
        it = self.eval(st.iter, frame)
        gen = it if isinstance(it, GenResult) and it.from_function else None
        items = self.iterate(it, in_loop=True)
        single_pass = it if isinstance(it, GenResult) else None
        broke = False
        n = 0
        try:
            for x in items:
                n += 1
                if single_pass is not None:
                    single_pass.pos += 1          # the element is taken from the iterator before the body runs
                self.assign(st.target, x, frame)
                try:
                    self.exec_block(st.body, frame)
                except BreakSignal:
                    broke = True
                    break
                except ContinueSignal:
                    continue
        except (PyExc, ReturnSignal, BreakSignal, ContinueSignal):
            if gen is not None and (n < len(items) or gen.pending_exc is not None):
                self._abandoned(gen)
            raise
        if broke and gen is not None and (n < len(items) or gen.pending_exc is not None):
            self._abandoned(gen)
        if gen is not None and gen.pending_exc is not None:
            exc, gen.pending_exc = gen.pending_exc, None
            raise PyExc(exc)
        if not broke:
            self.exec_block(st.orelse, frame)

    # ------------------------------------------------------------------ match
    def x_Match(self, st, frame):
        subject = self.eval(st.subject, frame)
        for case in st.cases:
            binds = {}
            if self.match_pattern(case.pattern, subject, frame, binds):
                for k, v in binds.items():
                    self.assign(ast.Name(id=k, ctx=ast.Store()), v, frame)
                if case.guard is not None and not self.truth(self.eval(case.guard, frame)):
                    continue
                self.exec_block(case.body, frame)
                return

    def _is_seq(self, v):
        return isinstance(v, (list, tuple, NT)) and not isinstance(v, (str, bytes))

    def match_pattern(self, p, v, frame, binds):
        """PEP 634 on path-concrete shapes; comparisons with literals are ordinary (possibly symbolic) equalities"""
        if isinstance(p, ast.MatchValue):
            return self.truth(self.eq(v, self.eval(p.value, frame)))
        if isinstance(p, ast.MatchSingleton):
            return self.truth(self.rt.is_(self, v, p.value))
        if isinstance(p, ast.MatchAs):
            if p.pattern is not None and not self.match_pattern(p.pattern, v, frame, binds):
                return False
            if p.name is not None:
                binds[p.name] = v
            return True
        if isinstance(p, ast.MatchOr):
            for alt in p.patterns:
                b2 = {}
                if self.match_pattern(alt, v, frame, b2):
                    binds.update(b2)
                    return True
            return False
        if isinstance(p, ast.MatchSequence):
            if isinstance(v, (GenResult, PDict, PSet, dict, set)) or isinstance(v, (str, bytes, bytearray)):
                return False
            if not self._is_seq(v):
                if isinstance(v, (int, float, bool)) or v is None or isinstance(v, Obj):
                    if isinstance(v, Obj) and self.rt.is_library_obj(v):
                        raise Undecided("sequence pattern against the model object %s" % v.cls.name)
                    return False
                raise Undecided("sequence pattern against %r" % (type(v).__name__,))
            items = list(v)
            stars = [i for i, q in enumerate(p.patterns) if isinstance(q, ast.MatchStar)]
            if not stars:
                if len(items) != len(p.patterns):
                    return False
                return all(self.match_pattern(q, x, frame, binds) for q, x in zip(p.patterns, items))
            k = stars[0]
            before, after = p.patterns[:k], p.patterns[k + 1:]
            if len(items) < len(before) + len(after):
                return False
            for q, x in zip(before, items[:len(before)]):
                if not self.match_pattern(q, x, frame, binds):
                    return False
            tail = items[len(items) - len(after):] if after else []
            for q, x in zip(after, tail):
                if not self.match_pattern(q, x, frame, binds):
                    return False
            if p.patterns[k].name is not None:
                binds[p.patterns[k].name] = items[len(before):len(items) - len(after)]
            return True
        if isinstance(p, ast.MatchMapping):
            if not isinstance(v, (PDict, dict)):
                if self._is_seq(v) or isinstance(v, (int, float, str, bytes)) or v is None:
                    return False
                raise Undecided("mapping pattern against %r" % (type(v).__name__,))
            d = v if isinstance(v, PDict) else PDict(list(v.items()))
            used = []
            for kexpr, q in zip(p.keys, p.patterns):
                key = self.eval(kexpr, frame)
                idx = self.rt.dict_find(self, d, key)
                if idx is None:
                    return False
                used.append(idx)
                if not self.match_pattern(q, d.pairs[idx][1], frame, binds):
                    return False
            if p.rest is not None:
                binds[p.rest] = PDict([(kk, vv) for i, (kk, vv) in enumerate(d.pairs) if i not in used])
            return True
        if isinstance(p, ast.MatchClass):
            cls = self.eval(p.cls, frame)
            if not self.truth(self.call(self.rt.builtins["isinstance"], [v, cls], {})):
                return False
            if p.patterns:
                from .stdlib import TypeObj
                if isinstance(cls, TypeObj):
                    if len(p.patterns) != 1:
                        self.raise_py("TypeError", "%s() accepts 1 positional sub-pattern" % cls.name)
                    if not self.match_pattern(p.patterns[0], v, frame, binds):
                        return False
                else:
                    found, names = (False, None)
                    if isinstance(cls, PyClass):
                        found, names = self.rt.class_attr(self, cls, "__match_args__")
                        if not found and cls.kind in ("dataclass", "namedtuple"):
                            found, names = True, tuple(cls.fields)
                    if not found:
                        self.raise_py("TypeError", "class pattern with positional sub-patterns needs __match_args__")
                    names = list(names)
                    if len(p.patterns) > len(names):
                        self.raise_py("TypeError", "too many positional sub-patterns")
                    for q, attr in zip(p.patterns, names):
                        if not self._match_attr(q, v, attr, frame, binds):
                            return False
            for attr, q in zip(p.kwd_attrs, p.kwd_patterns):
                if not self._match_attr(q, v, attr, frame, binds):
                    return False
            return True
        self.unsupported("pattern %s" % type(p).__name__)

    def _match_attr(self, q, v, attr, frame, binds):
        try:
            x = self.rt.getattr(self, v, attr)
        except PyExc as pe:
            if pe.obj.cls.name == "AttributeError":
                return False
            raise
        return self.match_pattern(q, x, frame, binds)

    def _abandoned(self, gen):
        raise Undecided("a generator function's result is abandoned before it is used up: the model has already executed "
                        "the rest of its body (generators are collected eagerly)")

    x_AsyncFor = x_For

    def x_While(self, st, frame):
        ordinal = frame.loop_ordinal
        frame.loop_ordinal += 1
        key = (frame.func.info.fullname if frame.func else "<module>", ordinal)
        clause = self.loop_clauses.get(key)
        if clause is not None:
            return self.while_by_invariant(st, frame, clause, key)
        n = 0
        while True:
            if not self.truth(self.eval(st.test, frame)):
                self.exec_block(st.orelse, frame)
                return
            n += 1
            if n > self.unroll_limit:
                raise Undecided("loop in %s (ordinal %d) has no invariant clause and exceeds the unroll limit %d"
                                % (key[0], ordinal, self.unroll_limit))
            try:
                self.exec_block(st.body, frame)
            except BreakSignal:
                return
            except ContinueSignal:
                continue

    def while_by_invariant(self, st, frame, clause, key):
        """Classical rule: establish, havoc, assume inv, then fork: (guard: body, preserve, cut) / (exit: continue)."""
        ctx = self.ctx
        base = "%s/%s/loop[%d]" % (self.prop, key[0].replace("puresnmp.", ""), key[1])
        if clause.mode in ("both", "establish"):
            for label, cond in clause.invariant(self, frame, "entry"):
                ctx.check("%s/invariant-established:%s" % (base, label), cond)
            if clause.mode == "establish":
                raise LoopCut()
        else:
            del ctx.pc[ctx.base_len:]
        clause.havoc(self, frame)
        for label, cond in clause.invariant(self, frame, "assume"):
            ctx.assume(cond)
        guard = self.truth(self.eval(st.test, frame))
        if not guard:
            self.exec_block(st.orelse, frame)
            return  # continue after the loop from the havocked state
        v0 = clause.decreases(self, frame) if clause.decreases else None
        heap0 = self._heap_snapshot(frame)
        try:
            self.exec_block(st.body, frame)
        except BreakSignal:
            return  # leaves the loop: code after the loop runs from this state
        except ContinueSignal:
            pass
        # the next iteration starts from the havocked locals AND from the heap as the body leaves it: an object that
        # exists before the loop and is modified by the body would have to be described by the invariant
        changed = self._heap_changed(heap0)
        if changed is not None:
            raise Undecided("the loop body modifies %s, which exists before the loop; the loop invariant of the contract "
                            "does not describe that state" % changed)
        for label, cond in clause.invariant(self, frame, "preserve"):
            ctx.check("%s/invariant-preserved:%s" % (base, label), cond)
        if v0 is not None:
            v1 = clause.decreases(self, frame)
            ctx.check("%s/variant-decreases" % base, And(lift_bool(zint(v1) >= 0), lift_bool(zint(v1) < zint(v0))))
        raise LoopCut()

    def _heap_snapshot(self, frame):
        """fields of every instance of a source class reachable from the locals of the frame (and its closures)"""
        seen, snap = set(), []

        def visit(v, depth):
            if depth > 6 or id(v) in seen:
                return
            if isinstance(v, Obj):
                seen.add(id(v))
                if getattr(v.cls, "kind", "") != "builtin":
                    snap.append((v, {k: (x, list(x) if isinstance(x, list) else None) for k, x in v.fields.items()}))
                for x in list(v.fields.values()):
                    visit(x, depth + 1)
            elif isinstance(v, (list, tuple)):
                seen.add(id(v))
                for x in v:
                    visit(x, depth + 1)
            elif isinstance(v, PDict):
                for k, x in v.pairs:
                    visit(x, depth + 1)
            elif isinstance(v, BoundMethod):
                visit(v.self_obj, depth + 1)
            elif isinstance(v, Closure) and v.frame is not None:
                for x in list(v.frame.locals.values()):
                    visit(x, depth + 1)
        f = frame
        while f is not None:
            for x in list(f.locals.values()):
                visit(x, 0)
            f = f.parent
        return snap

    @staticmethod
    def _heap_changed(snap):
        for obj, fields in snap:
            if set(obj.fields) != set(fields):
                return "an instance of %s (attribute %s)" % (obj.cls.name, sorted(set(obj.fields) ^ set(fields))[0])
            for k, (x, xs) in fields.items():
                now = obj.fields[k]
                if now is not x or (xs is not None and (len(now) != len(xs) or any(a is not b for a, b in zip(now, xs)))):
                    return "an instance of %s (attribute %s)" % (obj.cls.name, k)
        return None

    def x_Break(self, st, frame):
        raise BreakSignal()

    def x_Continue(self, st, frame):
        raise ContinueSignal()

    def x_Raise(self, st, frame):
        if st.exc is None:
            cur = getattr(frame, "handling", None)
            if cur is None:
                self.raise_py("RuntimeError", "No active exception to reraise")
            raise PyExc(cur)
        e = self.eval(st.exc, frame)
        if isinstance(e, PyClass):
            e = self.rt.instantiate(self, e, [], {})
        if not (isinstance(e, Obj) and self.rt.is_exception_class(e.cls)):
            self.raise_py("TypeError", "exceptions must derive from BaseException")
        if st.cause is not None:
            e.fields["__cause__"] = self.eval(st.cause, frame)
        raise PyExc(e)

    def x_Try(self, st, frame):
        try:
            try:
                self.exec_block(st.body, frame)
            except PyExc as pe:
                handled = False
                for h in st.handlers:
                    if h.type is None or self.exc_matches(pe.obj, self.eval(h.type, frame)):
                        handled = True
                        if h.name:
                            frame.locals[h.name] = pe.obj
                        prev = getattr(frame, "handling", None)
                        frame.handling = pe.obj
                        try:
                            self.exec_block(h.body, frame)
                        finally:
                            frame.handling = prev
                            if h.name:
                                frame.locals.pop(h.name, None)      # `except E as name`: the name is deleted afterwards
                        break
                if not handled:
                    raise
            else:
                self.exec_block(st.orelse, frame)
        finally:
            if st.finalbody:
                # control-flow signals pass through after the finally block has run
                self.exec_block(st.finalbody, frame)

    def exc_matches(self, exc_obj, spec):
        if isinstance(spec, tuple):
            return any(self.exc_matches(exc_obj, s) for s in spec)
        if isinstance(spec, PyClass):
            return exc_obj.cls.issubclass(spec)
        self.unsupported("except clause with %r" % (spec,))

    def x_With(self, st, frame):
        if len(st.items) != 1:
            self.unsupported("with several items", st)
        item = st.items[0]
        mgr = self.eval(item.context_expr, frame)
        from .stdlib import GenCtxMgr
        if isinstance(mgr, GenCtxMgr):
            def body(value):
                if item.optional_vars is not None:
                    self.assign(item.optional_vars, value, frame)
                self.exec_block(st.body, frame)
            return self.run_ctxmgr(mgr, body)
        enter = self.rt.context_enter(self, mgr)
        if item.optional_vars is not None:
            self.assign(item.optional_vars, enter, frame)
        try:
            self.exec_block(st.body, frame)
        except PyExc as pe:
            if self.rt.context_exit(self, mgr, pe.obj) is True:
                return            # __exit__ returned a true value: the exception is swallowed
            raise
        except (ReturnSignal, BreakSignal, ContinueSignal):
            self.rt.context_exit(self, mgr, None)
            raise
        else:
            self.rt.context_exit(self, mgr, None)

    x_AsyncWith = x_With

    def run_ctxmgr(self, mgr, body):
        """
        ``with cm(...) as v: BODY`` for an @contextmanager generator function (DESIGN 3.8): the function is
        executed; at its (single) ``yield v`` BODY runs; an exception of BODY is raised AT the yield (gen.throw),
        so the function's except/finally clauses see it; a function that returns normally afterwards has
        swallowed it.
        """
        fn = mgr.closure
        info = fn.info
        frame = Frame(fn, fn.module, parent=fn.frame)
        self.bind_args(frame, info.node.args, fn.defaults, fn.kwdefaults, mgr.args, mgr.kwargs, info.qualname)
        state = {"yields": 0}

        def at_yield(value):
            state["yields"] += 1
            if state["yields"] > 1:
                self.raise_py("RuntimeError", "generator didn't stop")
            body(value)
        frame.yielded = []
        frame.yield_callback = at_yield
        try:
            self.exec_block(info.node.body, frame)
        except ReturnSignal as r:
            if getattr(r, "from_ctx_body", False):
                raise
        if state["yields"] == 0:
            self.raise_py("RuntimeError", "generator didn't yield")
        return None

    # ------------------------------------------------------------------ expressions
    def eval(self, e, frame):
        m = getattr(self, "e_" + type(e).__name__, None)
        if m is None:
            self.unsupported("expression %s" % type(e).__name__, e)
        return m(e, frame)

    def e_Constant(self, e, frame):
        return e.value

    def e_Name(self, e, frame):
        f, v = frame.lookup(e.id)
        if f is not None:
            if isinstance(v, Poison):
                raise Undecided("the loop carries the local `%s` from one iteration to the next and the loop invariant "
                                "of the contract does not describe it" % v.name)
            return v
        return self.rt.global_lookup(self, frame, e.id, e)

    def e_Attribute(self, e, frame):
        return self.rt.getattr(self, self.eval(e.value, frame), e.attr, e)

    def e_Await(self, e, frame):
        if isinstance(e.value, ast.Call):
            self._awaited_call = e.value        # `await f(...)`: the coroutine object is consumed on the spot
        v = self.eval(e.value, frame)
        return self.rt.await_value(self, v)

    def e_Yield(self, e, frame):
        v = self.eval(e.value, frame) if e.value is not None else None
        if frame.yielded is None:
            self.unsupported("yield outside a generator frame", e)
        cb = getattr(frame, "yield_callback", None)
        if cb is not None:
            cb(v)
            return None
        if self.on_yield is not None:
            self.on_yield(self, frame, v)
        frame.yielded.append(v)
        return None

    def e_YieldFrom(self, e, frame):
        for x in self.iterate(self.eval(e.value, frame)):
            if self.on_yield is not None:
                self.on_yield(self, frame, x)
            frame.yielded.append(x)
        return None

    def e_Lambda(self, e, frame):
        fn = LambdaFn(e, frame, frame.module)
        # default values are evaluated when the lambda is created
        fn.defaults = [self.eval(d, frame) for d in e.args.defaults]
        fn.kwdefaults = {a.arg: self.eval(d, frame) for a, d in zip(e.args.kwonlyargs, e.args.kw_defaults) if d is not None}
        return fn

    def e_IfExp(self, e, frame):
        if self.truth(self.eval(e.test, frame)):
            return self.eval(e.body, frame)
        return self.eval(e.orelse, frame)

    def e_BoolOp(self, e, frame):
        is_and = isinstance(e.op, ast.And)
        v = None
        for i, sub in enumerate(e.values):
            v = self.eval(sub, frame)
            if i == len(e.values) - 1:
                return v
            t = self.truth(v)
            if is_and and not t:
                return v
            if not is_and and t:
                return v
        return v

    def e_UnaryOp(self, e, frame):
        v = self.eval(e.operand, frame)
        if isinstance(e.op, ast.Not):
            return Not(self.truth_sym(v))
        if isinstance(e.op, ast.USub):
            if isinstance(v, SInt):
                return -v
            return -v
        if isinstance(e.op, ast.UAdd):
            return v
        self.unsupported("unary %s" % type(e.op).__name__, e)

    def e_BinOp(self, e, frame):
        return self.binop(e.op, self.eval(e.left, frame), self.eval(e.right, frame), e)

    def e_Compare(self, e, frame):
        left = self.eval(e.left, frame)
        result = True
        for i, (op, rn) in enumerate(zip(e.ops, e.comparators)):
            right = self.eval(rn, frame)
            r = self.compare(op, left, right, e)
            if i == len(e.ops) - 1:
                return And(result, r) if result is not True else r
            if not self.truth(r):
                return False
            left = right
        return result

    def e_Tuple(self, e, frame):
        return tuple(self._elts(e.elts, frame))

    def e_List(self, e, frame):
        return list(self._elts(e.elts, frame))

    def e_Set(self, e, frame):
        return PSet(self._elts(e.elts, frame))

    def _elts(self, elts, frame):
        out = []
        for x in elts:
            if isinstance(x, ast.Starred):
                out.extend(self.iterate(self.eval(x.value, frame)))
            else:
                out.append(self.eval(x, frame))
        return out

    def e_Dict(self, e, frame):
        d = PDict()
        for k, v in zip(e.keys, e.values):
            if k is None:
                src = self.eval(v, frame)
                for kk, vv in self.rt.dict_items(self, src):
                    self.rt.setitem(self, d, kk, vv)
            else:
                self.rt.setitem(self, d, self.eval(k, frame), self.eval(v, frame))
        return d

    def e_JoinedStr(self, e, frame):
        parts = []
        concrete = True
        for v in e.values:
            if isinstance(v, ast.Constant):
                parts.append(v.value)
            else:
                x = self.eval(v.value, frame)
                if isinstance(x, (int, str)) and not isinstance(x, bool) and v.conversion == -1 and v.format_spec is None:
                    parts.append(str(x))
                else:
                    concrete = False
        if concrete:
            return "".join(parts)
        return self.ctx.fresh_str("fstring")

    def e_Subscript(self, e, frame):
        base = self.eval(e.value, frame)
        if isinstance(e.slice, ast.Slice):
            lo = self.eval(e.slice.lower, frame) if e.slice.lower is not None else None
            hi = self.eval(e.slice.upper, frame) if e.slice.upper is not None else None
            st = self.eval(e.slice.step, frame) if e.slice.step is not None else None
            return self.rt.getslice(self, base, lo, hi, st, e)
        idx = self.eval(e.slice, frame)
        return self.rt.getitem(self, base, idx, e)

    def e_Slice(self, e, frame):
        lo = self.eval(e.lower, frame) if e.lower is not None else None
        hi = self.eval(e.upper, frame) if e.upper is not None else None
        st = self.eval(e.step, frame) if e.step is not None else None
        return slice(lo, hi, st)

    def e_Starred(self, e, frame):
        self.unsupported("starred expression", e)

    def e_Call(self, e, frame):
        # dropped calls (DESIGN 2.2)
        if isinstance(e.func, ast.Attribute) and isinstance(e.func.value, ast.Name) and e.func.value.id == "LOG":
            if e.func.attr == "isEnabledFor":
                return self._debug_logging()
            # the logging CALL is dropped (DESIGN 2.2) but Python evaluates its arguments before the call, whatever the
            # level: their side effects and exceptions are part of the function (`LOG.debug("%s", message.pretty())`).
            # An argument the engine cannot evaluate is skipped (what it would do stays unknown, as before).
            self._eval_dropped_args(e, frame)
            return None
        if isinstance(e.func, ast.Name) and e.func.id == "cast" and len(e.args) == 2:
            return self.eval(e.args[1], frame)
        if isinstance(e.func, ast.Name) and e.func.id == "super" and not e.args:
            return self.rt.make_super(self, frame)
        fn = self.eval(e.func, frame)
        if (isinstance(fn, Builtin) and fn.name in ("any", "all") and len(e.args) == 1 and not e.keywords
                and isinstance(e.args[0], ast.GeneratorExp)):
            return self._lazy_any_all(fn.name, e.args[0], frame)
        args = []
        for a in e.args:
            if isinstance(a, ast.Starred):
                args.extend(self.iterate(self.eval(a.value, frame)))
            else:
                args.append(self.eval(a, frame))
        kwargs = {}
        for k in e.keywords:
            if k.arg is None:
                src = self.eval(k.value, frame)
                for kk, vv in self.rt.dict_items(self, src):
                    if not isinstance(kk, str):
                        self.unsupported("** with non-string key", e)
                    kwargs[kk] = vv
            else:
                kwargs[k.arg] = self.eval(k.value, frame)
        if getattr(self, "_awaited_call", None) is e:
            self._awaited_call = None
        elif self._is_coroutine_function(fn):
            # a coroutine object that is stored / passed on instead of being awaited here: its body has not run
            from .objects import Coroutine
            return Coroutine(fn, args, kwargs)
        return self.call(fn, args, kwargs)

    @staticmethod
    def _is_coroutine_function(fn):
        while isinstance(fn, (BoundMethod, StaticM)):
            fn = fn.func
        return (isinstance(fn, Closure) and isinstance(fn.info.node, ast.AsyncFunctionDef) and not fn.info.is_generator
                and not fn.attrs.get("contextmanager"))

    class _Stop(Exception):
        pass

    def _lazy_any_all(self, which, gen, frame):
        """any(<genexp>) / all(<genexp>) stop at the first deciding element: the remaining element expressions are NOT
        evaluated (their side effects and exceptions do not happen)"""
        box = {"r": which == "all"}

        def emit(fr):
            t = self.truth(self.eval(gen.elt, fr))
            if which == "any" and t:
                box["r"] = True
                raise Interp._Stop()
            if which == "all" and not t:
                box["r"] = False
                raise Interp._Stop()
        try:
            self._comp(gen.generators, frame, emit)
        except Interp._Stop:
            pass
        return box["r"]

    def _debug_logging(self):
        """LOG.isEnabledFor(...): whether debug logging is on is the deployment's choice - ONE unknown per path (so paths double
        once, not per call); code guarded by it (hexdumps, re-bound variables) is part of the function in both settings"""
        b = getattr(self.ctx, "_debug_logging", None)
        if b is None:
            b = self.ctx.fresh_bool("debug_logging_enabled")
            self.ctx._debug_logging = b
        return b

    def _eval_dropped_args(self, call, frame):
        for a in list(call.args) + [k.value for k in call.keywords]:
            if isinstance(a, (ast.Constant, ast.Name)):
                continue
            try:
                self.eval(a.value if isinstance(a, ast.Starred) else a, frame)
            except Undecided:
                pass

    def _comp(self, generators, frame, emit):
        def rec(i, fr):
            if i == len(generators):
                emit(fr)
                return
            g = generators[i]
            for x in self.iterate(self.eval(g.iter, fr)):
                self.assign(g.target, x, fr)
                ok = True
                for cond in g.ifs:
                    if not self.truth(self.eval(cond, fr)):
                        ok = False
                        break
                if ok:
                    rec(i + 1, fr)
        inner = Frame(frame.func, frame.module, parent=frame)
        inner.yielded = frame.yielded
        inner.is_comprehension = True
        rec(0, inner)

    def e_NamedExpr(self, e, frame):
        v = self.eval(e.value, frame)
        target = frame
        while getattr(target, "is_comprehension", False) and target.parent is not None:
            target = target.parent          # `:=` inside a comprehension binds in the enclosing function
        self.assign(e.target, v, target)
        return v

    def e_ListComp(self, e, frame):
        out = []
        self._comp(e.generators, frame, lambda fr: out.append(self.eval(e.elt, fr)))
        return out

    def e_GeneratorExp(self, e, frame):
        out = []
        self._comp(e.generators, frame, lambda fr: out.append(self.eval(e.elt, fr)))
        return GenResult(out)

    def e_SetComp(self, e, frame):
        out = []
        self._comp(e.generators, frame, lambda fr: out.append(self.eval(e.elt, fr)))
        return PSet(out)

    def e_DictComp(self, e, frame):
        d = PDict()
        self._comp(e.generators, frame,
                   lambda fr: self.rt.setitem(self, d, self.eval(e.key, fr), self.eval(e.value, fr)))
        return d

    # ------------------------------------------------------------------ operators
    def iterate(self, v, in_loop=False):
        """Materialise an iterable of path-concrete shape into a Python list."""
        if isinstance(v, (list, tuple)):
            return list(v)
        if isinstance(v, GenResult):
            if v.pending_exc is not None and not in_loop:
                # list(gen), sorted(gen), ...: the consumer has no effects of its own, the exception is what is left
                exc, v.pending_exc = v.pending_exc, None
                raise PyExc(exc)
            rest = list(v.items[v.pos:])
            if not in_loop:
                v.pos = len(v.items)          # an iterator is used up by whoever reads it to its end (the `for` statement counts itself)
            return rest
        if isinstance(v, PDict):
            return [k for k, _ in v.pairs]
        if isinstance(v, PSet):
            self.unsupported("iteration over a set (order could matter)")
        if isinstance(v, range):
            return list(v)
        if isinstance(v, (bytes, str)):
            return list(v)
        if isinstance(v, dict):
            return list(v.keys())
        return self.rt.iterate(self, v)

    def binop(self, op, a, b, node=None):
        return self.rt.binop(self, op, a, b, node)

    def compare(self, op, a, b, node=None):
        if isinstance(op, ast.Eq):
            return self.eq(a, b)
        if isinstance(op, ast.NotEq):
            return Not(self.eq(a, b))
        if isinstance(op, ast.Is):
            return self.rt.is_(self, a, b)
        if isinstance(op, ast.IsNot):
            return Not(self.rt.is_(self, a, b))
        if isinstance(op, ast.In):
            return self.rt.contains(self, b, a)
        if isinstance(op, ast.NotIn):
            return Not(self.rt.contains(self, b, a))
        return self.rt.order(self, op, a, b)


def _as_load(t):
    if isinstance(t, ast.Name):
        return ast.Name(id=t.id, ctx=ast.Load())
    if isinstance(t, ast.Attribute):
        return ast.Attribute(value=t.value, attr=t.attr, ctx=ast.Load())
    if isinstance(t, ast.Subscript):
        return ast.Subscript(value=t.value, slice=t.slice, ctx=ast.Load())
    raise Undecided("augmented assignment target")
