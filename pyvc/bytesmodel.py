"""
Byte-level model of an ARBITRARY (possibly malformed) datagram, for the termination / progress
obligations of C20:  SData = a byte array of symbolic length with an uninterpreted content function.

    len(d)          symbolic n >= 0
    d[i]            0..255, IndexError outside [-n, n)
    d[a:b]          a view (Python clamping semantics for non-negative bounds)
    d.find(b"\\0\\0", s)   -1 or a position p >= s with p + 2 <= n holding two zero octets
    int.from_bytes(view)  a non-negative integer (value uninterpreted)
"""
import z3

from .core import (Sym, SBool, SInt, And, Or, Not, lift_bool, lift_int, zint, Undecided, Int)
from .objects import Builtin
from . import stdlib


class SData(Sym):
    pytype = "bytes"

    def __init__(self, arr, off, n):
        self.e = arr          # z3 Array Int -> Int (content)
        self.off = off        # z3 Int: offset of this view in the array
        self.n = n            # z3 Int: length of this view

    def __repr__(self):
        return "SData(off=%s,len=%s)" % (self.off, self.n)


def fresh_data(ctx, name="datagram"):
    arr = ctx.fresh(z3.ArraySort(Int, Int), name)
    n = ctx.fresh(Int, name + "_len")
    ctx.assume(lift_bool(n >= 0))
    return SData(arr, z3.IntVal(0), n)


def install(rt):
    stdlib.TYPE_NAMES["bytes"] = tuple(set(stdlib.TYPE_NAMES["bytes"]) | {SData})
    rt.len_hooks["SData"] = lambda rt_, i, v: lift_int(v.n)
    rt.truth_hooks["SData"] = lambda i, v: lift_bool(v.n > 0)
    rt.bytes_hooks["SData"] = lambda rt_, i, v: v

    def getitem(rt_, i, c, idx):
        if isinstance(idx, slice):
            return getslice(rt_, i, c, idx.start, idx.stop, idx.step)
        x = zint(idx)
        if i.ctx.branch(lift_bool(z3.Or(x >= c.n, x < -c.n))):
            i.raise_py("IndexError", "index out of range")
        pos = z3.If(x >= 0, x, c.n + x)
        b = z3.Select(c.e, c.off + pos)
        i.ctx.assume(lift_bool(z3.And(b >= 0, b <= 255)))
        return lift_int(b)
    rt.getitem_hooks["SData"] = getitem

    def clamp(i, c, v, default):
        if v is None:
            return default
        x = zint(v)
        if not stdlib._prove(i, x >= 0):
            raise Undecided("slice of a datagram with a possibly negative bound")
        return z3.If(x > c.n, c.n, x)

    def getslice(rt_, i, c, lo, hi, step):
        if step is not None:
            raise Undecided("strided slice of a datagram")
        lo_, hi_ = clamp(i, c, lo, z3.IntVal(0)), clamp(i, c, hi, c.n)
        n = z3.If(hi_ > lo_, hi_ - lo_, 0)
        return SData(c.e, z3.simplify(c.off + lo_), z3.simplify(n))
    rt.getslice_hooks["SData"] = getslice

    def getattr_(rt_, i, c, name):
        if name == "find":
            def find(i2, a, k):
                sub = a[0]
                start = zint(a[1]) if len(a) > 1 else z3.IntVal(0)
                if not isinstance(sub, bytes) or not sub:
                    raise Undecided("bytes.find with a symbolic needle")
                r = i2.ctx.fresh(Int, "find")
                L = len(sub)
                occ = [z3.Select(c.e, c.off + r + j) == sub[j] for j in range(L)]
                i2.ctx.assume(lift_bool(z3.Or(r == -1, z3.And(r >= start, r >= 0, r + L <= c.n, *occ))))
                return lift_int(r)
            return Builtin("bytes.find", find)
        return stdlib.MISSING
    rt.getattr_hooks["SData"] = getattr_

    def from_bytes(i, data, order_, signed):
        if isinstance(data, SData):
            v = i.ctx.fresh(Int, "be_value")
            if signed:
                return lift_int(v)
            i.ctx.assume(lift_bool(z3.And(v >= 0, z3.Implies(data.n == 0, v == 0))))
            return lift_int(v)
        if isinstance(data, list) and len(data) == 1 and isinstance(data[0], (int, SInt)):
            return data[0]
        raise Undecided("int.from_bytes on %r" % (data,))
    rt.hooks["int.from_bytes"] = from_bytes
    rt.eq_hooks["SData"] = lambda rt_, i, a, b: (
        lift_bool((a if isinstance(a, SData) else b).n == 0) if (b == b"" or a == b"") else _undecided_eq())


def _undecided_eq():
    raise Undecided("equality on datagram contents")
