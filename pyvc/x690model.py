"""
Assumed contracts of the x690 package on the wire term algebra (DESIGN.md section 5), plus the
models of hashlib / hmac / importlib / pkgutil that the plug-in code touches.

  bytes(obj)            = TLV(identifier octet of obj's class, x690 length octets, content)
                          content = the received content octets for a decoded object, else obj.encode_raw()
  decode(data, i)       = the object for the i-th TLV of data: class registered for its identifier octet
                          (registry rebuilt from the class bodies, later definitions override earlier ones),
                          UnknownType otherwise; next index i+1.  Indices are TLV ordinals: sound for code that
                          only uses 0 and indices returned by decode (checked: anything else is unsupported).
  obj.value             = cls.decode_raw(content) for a decoded object (lazy, not cached)
  Integer               content <-> value (two's complement; unsigned classes: well-formed values are >= 0)
  OctetString(v).value  = v
Everything the repository overrides (PDU.encode_raw/decode_raw, BulkGetRequest.__bytes__, IpAddress ...)
is executed from the repository's source.
"""
import z3

from . import core, wire
from .core import (Sym, SBool, SInt, SOid, SXVal, SBytes, SStr, And, Or, Not, lift_bool, lift_int, zint, Undecided,
                   EngineError, Bytes, Int, PStr)
from .objects import Obj, NT, PyExc, PyClass, Builtin, BoundMethod, ModuleObj, Opaque, StaticM, ClassM, Closure, PDict
from .wire import W, WLit, WByte, WInt, WOidC, WVal, WTlv, WCat, WLenOct, SLen, tlvs_of, parts_of, normalise

TC = {"universal": 0, "application": 1, "context": 2, "private": 3}


def enum_val(v):
    return v.fields["value"] if isinstance(v, Obj) and v.fields.get("_enum") else v


class X690Model:
    def __init__(self, rt, interp):
        self.rt = rt
        if not hasattr(rt, "wire"):
            wire.install(rt)
        self.w = rt.wire
        self.base = rt.get_class(rt.program.find_class("x690.types:X690Type"), interp)
        self.unknown = rt.get_class(rt.program.find_class("x690.types:UnknownType"), interp)
        self.registry = {}
        self.decode_counts = {}
        self._build_registry(interp)
        H = rt.hooks
        H["x690.types:X690Type.__bytes__"] = self.h_bytes
        H["x690.types:Integer.encode_raw"] = self.h_int_encode
        H["x690.types:Integer.decode_raw"] = self.h_int_decode
        H["x690.types:ObjectIdentifier.encode_raw"] = self.h_oid_encode
        H["x690.types:OctetString.__init__"] = self.h_octets_init
        H["x690.types:Sequence.decode_raw"] = self.h_seq_decode
        H["x690.types:decode"] = self.h_decode
        H["x690.types:X690Type.decode"] = self.h_cls_decode
        H["x690.util:encode_length"] = self.h_encode_length
        rt.attr_hooks[("x690.types:X690Type", "value")] = self.h_value
        rt.bytes_hooks["SOid"] = lambda rt_, i, v: WTlv(0x06, WOidC(v), "x690")
        rt.bytes_hooks["SXVal"] = lambda rt_, i, v: WVal(v)
        rt.getslice_hooks["SBytes"] = self.h_sbytes_slice
        rt.call_hooks["Opaque"] = self.h_opaque_call
        rt.f_hash = z3.Function("hash", PStr, Bytes, Bytes)
        rt.f_hmac = z3.Function("hmac_digest", PStr, Bytes, Bytes, Bytes)
        rt.f_prefix = z3.Function("bytes_prefix", Bytes, Int, Bytes)
        rt.theory.note("hashlib.md5/sha1 and hmac.new(...).digest() are uninterpreted functions of their arguments "
                       "(cryptographic assumption: a digest valid under a key cannot be produced without the key)")
        rt.getattr_hooks["ModuleObj"] = None

    # ------------------------------------------------------------------ registry
    def ident_of(self, interp, cls):
        rt = self.rt
        _, tc = rt.class_attr(interp, cls, "TYPECLASS")
        _, nat = rt.class_attr(interp, cls, "NATURE")
        _, tag = rt.class_attr(interp, cls, "TAG")
        tc, nat0 = enum_val(tc), enum_val(nat[0])
        if tc not in TC or not isinstance(tag, int) or not 0 <= tag < 31:
            raise Undecided("class %s has no single-octet identifier (TYPECLASS=%r TAG=%r)" % (cls.name, tc, tag))
        return (TC[tc] << 6) | ((1 if nat0 == "constructed" else 0) << 5) | tag

    def _build_registry(self, interp):
        rt = self.rt
        order = ["x690.types", "puresnmp.pdu", "puresnmp.types"]
        mods = order + [m for m in sorted(rt.program.modules) if m not in order]
        for mname in mods:
            m = rt.program.modules.get(mname)
            if m is None:
                continue
            for ci in sorted(m.classes.values(), key=lambda c: c.node.lineno):
                cls = rt.get_class(ci, interp)
                if self.base not in cls.mro() or cls is self.base:
                    continue
                _, tc = rt.class_attr(interp, cls, "TYPECLASS")
                _, nat = rt.class_attr(interp, cls, "NATURE")
                _, tag = rt.class_attr(interp, cls, "TAG")
                tc = enum_val(tc)
                if tc not in TC or not isinstance(tag, int) or not 0 <= tag < 31:
                    continue
                for n in nat:
                    ident = (TC[tc] << 6) | ((1 if enum_val(n) == "constructed" else 0) << 5) | tag
                    self.registry[ident] = cls

    # ------------------------------------------------------------------ encoding side
    def h_bytes(self, interp, closure, args, kwargs):
        obj = args[0]
        rt = self.rt
        if "_wire" in obj.fields and obj.fields.get("_touched") is None:
            content = obj.fields["_wire"].content
        else:
            content = interp.call(rt.getattr(interp, obj, "encode_raw"), [], {})
        if not wire.is_wire(content):
            raise Undecided("encode_raw of %s returned a non-bytes value" % obj.cls.name)
        return WTlv(self.ident_of(interp, obj.cls), content, "x690")

    def h_int_encode(self, interp, closure, args, kwargs):
        obj = args[0]
        v = obj.fields.get("pyvalue")
        if isinstance(v, Obj):        # UNINITIALISED sentinel
            return b""
        if not isinstance(v, (int, SInt)):
            return NotImplemented
        return WInt(v)

    def h_oid_encode(self, interp, closure, args, kwargs):
        return NotImplemented

    def h_octets_init(self, interp, closure, args, kwargs):
        obj = args[0]
        value = args[1] if len(args) > 1 else kwargs.get("value", b"")
        if isinstance(value, (str, SStr)):
            value = interp.call(self.rt.getattr(interp, value, "encode"), ["ascii"], {})
        # OctetString(v): `.value == v` and bytes() == TLV(04, v); the empty string is kept (x690 stores the
        # UNINITIALISED marker for it, which reads back as b"")
        if isinstance(value, (bytes, str)) and not value:
            # the no-argument form (also used by from_bytes): x690 stores its UNINITIALISED marker
            mod = self.rt.import_module("x690.types")
            value = self.rt.module_attr(interp, mod, "UNINITIALISED")
        obj.fields["pyvalue"] = value
        obj.fields["_raw_bytes"] = b""
        return None

    def h_encode_length(self, interp, closure, args, kwargs):
        v = args[0]
        if isinstance(v, SLen):
            return WLenOct(v.of, "x690")
        if isinstance(v, int):
            return NotImplemented
        raise Undecided("encode_length of a symbolic number that is not the length of a wire value")

    # ------------------------------------------------------------------ decoding side
    def obj_for(self, interp, t):
        rt = self.rt
        if isinstance(t, WVal):
            return t.v
        if not isinstance(t, WTlv):
            raise Undecided("decode of a non-TLV wire value")
        if t.ident == 0x06 and isinstance(t.content, WOidC):
            return t.content.oid
        cls = self.registry.get(t.ident, self.unknown)
        try:
            obj = rt.instantiate(interp, cls, [], {})
        except PyExc as pe:
            if pe.obj.cls.name == "TypeError":
                xerr = rt.get_class(rt.program.find_class("x690.exc:X690Error"), interp)
                raise PyExc(rt.make_exception(xerr, ["no no-arg constructor"]))
            raise
        obj.fields["_raw_bytes"] = t.content
        obj.fields["bounds"] = slice(None)
        obj.fields["_wire"] = t
        if cls is self.unknown:
            obj.fields["tag"] = t.ident
        return obj

    def h_decode(self, interp, closure, args, kwargs):
        names = ["data", "start_index", "enforce_type", "strict"]
        a = dict(zip(names, args))
        a.update(kwargs)
        data = a["data"]
        idx = a.get("start_index", 0)
        if isinstance(idx, wire.WIdx):
            idx = idx.k
        elif idx is None or isinstance(idx, bool) or not isinstance(idx, int) or idx != 0:
            # start_index is a BYTE offset: 0, or what an earlier decode() of this value returned
            raise Undecided("decode() at start_index=%r: only offset 0 and offsets returned by decode() are modelled" % (idx,))
        enforce = a.get("enforce_type")
        strict = a.get("strict", False)
        if not wire.is_wire(data):
            raise Undecided("decode() of a non-bytes value")
        tl = tlvs_of(data)
        if tl is None:
            raise Undecided("decode() of bytes without TLV structure (unstructured network input)")
        if not isinstance(idx, int):
            raise Undecided("decode() at a symbolic index")
        if idx >= len(tl):
            interp.raise_py("IndexError", "Attempting to read past the data")
        obj = self.obj_for(interp, tl[idx])
        if enforce is not None:
            from .stdlib import isinstance_sym
            if not interp.truth(isinstance_sym(self.rt, interp, obj, enforce)):
                cls = self.rt.get_class(self.rt.program.find_class("x690.exc:UnexpectedType"), interp)
                raise PyExc(self.rt.make_exception(cls, ["unexpected type"]))
        if strict and idx + 1 < len(tl):
            cls = self.rt.get_class(self.rt.program.find_class("x690.exc:IncompleteDecoding"), interp)
            raise PyExc(self.rt.make_exception(cls, ["remaining bytes"]))
        # the second component is the byte offset behind the TLV just read
        return (obj, wire.WIdx(idx + 1))

    def h_cls_decode(self, interp, closure, args, kwargs):
        cls, data = args[0], args[1]
        tl = tlvs_of(data) if wire.is_wire(data) else None
        if not tl:
            raise Undecided("X690Type.decode() of unstructured bytes")
        t = tl[0]
        if not isinstance(t, WTlv):
            raise Undecided("X690Type.decode() of an opaque value")
        out = self.call_decode_raw(interp, cls, t.content)
        return self.rt.instantiate(interp, cls, [out], {})

    def call_decode_raw(self, interp, cls, content):
        rt = self.rt
        found, fn = rt.class_attr(interp, cls, "decode_raw")
        if isinstance(fn, StaticM):
            return interp.call(fn.func, [content, slice(None)], {})
        if isinstance(fn, ClassM):
            return interp.call(fn.func, [cls, content, slice(None)], {})
        raise Undecided("decode_raw of %s is neither static nor class method" % cls.name)

    def h_value(self, interp, obj):
        if "_wire" not in obj.fields:
            return NotImplemented
        pv = obj.fields.get("pyvalue")
        if not (isinstance(pv, Obj) and pv.cls.name == "_SENTINEL_UNINITIALISED"):
            return NotImplemented
        # cost ghost: how often each received value is (lazily, uncached) decoded
        if obj.fields["_wire"].ident & 0x20:      # constructed values: decoding them walks all their members
            self.decode_counts[id(obj.fields["_wire"])] = self.decode_counts.get(id(obj.fields["_wire"]), 0) + 1
        return self.call_decode_raw(interp, obj.cls, obj.fields["_wire"].content)

    def h_seq_decode(self, interp, closure, args, kwargs):
        data = args[0]
        if isinstance(data, (bytes, WLit)) and not (data if isinstance(data, bytes) else data.b):
            return []
        tl = tlvs_of(data) if wire.is_wire(data) else None
        if tl is None:
            raise Undecided("Sequence.decode_raw of unstructured bytes")
        return [self.obj_for(interp, t) for t in tl]

    def h_int_decode(self, interp, closure, args, kwargs):
        cls, data = args[0], args[1]
        rt = self.rt
        if isinstance(data, WInt):
            _, signed = rt.class_attr(interp, cls, "SIGNED")
            if signed is False:
                # a well-formed unsigned value is a non-negative two's complement INTEGER: both readings agree
                interp.ctx.assume(lift_bool(zint(data.v) >= 0))
            return data.v
        return NotImplemented

    # ------------------------------------------------------------------ misc
    def h_sbytes_slice(self, rt, interp, c, lo, hi, step):
        if lo is None and hi is None and step is None:
            return c
        if lo is None and isinstance(hi, int) and step is None:
            return SBytes(rt.f_prefix(c.e, z3.IntVal(hi)))
        raise Undecided("slice [%r:%r:%r] of symbolic bytes" % (lo, hi, step))

    def h_opaque_call(self, interp, fn, args, kwargs):
        rt = self.rt
        name = fn.name
        if name in ("hashlib.md5", "hashlib.sha1"):
            data = args[0] if args else b""
            hname = rt.str_lit(name.split(".")[1])
            digest = SBytes(rt.f_hash(hname, rt.wire.z(data) if wire.is_wire(data) else rt.to_bytes_expr(data)))
            cls = PyClass("hash-object", [], kind="builtin")
            cls.native_attrs["digest"] = Builtin("digest", lambda i, a, k: digest)
            return Obj(cls)
        if name == "hmac.new":
            key, msg = args[0], args[1] if len(args) > 1 else kwargs.get("msg")
            method = kwargs.get("digestmod", args[2] if len(args) > 2 else None)
            if not isinstance(method, (str, SStr)):
                raise Undecided("hmac.new with a non-string digestmod")
            if msg is None:
                raise Undecided("an hmac object fed incrementally (hmac.new without msg, update(), copy()) is not modelled")
            d = SBytes(rt.f_hmac(rt.to_str_expr(method), rt.wire.z(key), rt.wire.z(msg)))
            cls = PyClass("hmac-object", [], kind="builtin")
            cls.native_attrs["digest"] = Builtin("digest", lambda i, a, k: d)
            return Obj(cls)
        if name == "hmac.digest":
            # the one-shot form: hmac.digest(key, msg, digest) == hmac.new(key, msg, digest).digest()
            key, msg = args[0], args[1] if len(args) > 1 else kwargs.get("msg")
            method = kwargs.get("digest", args[2] if len(args) > 2 else None)
            if not isinstance(method, (str, SStr)):
                raise Undecided("hmac.digest with a non-string digest name")
            return SBytes(rt.f_hmac(rt.to_str_expr(method), rt.wire.z(key), rt.wire.z(msg)))
        if name == "hmac.compare_digest":
            return interp.eq(args[0], args[1])
        if name == "import_module":
            mod = args[0]
            if rt.program.module(mod) is not None or any(n.startswith(mod + ".") for n in rt.program.modules):
                return rt.import_module(mod)
            interp.raise_py("ImportError", mod)
        if name == "iter_modules":
            prefix = args[1] if len(args) > 1 else kwargs.get("prefix", "")
            ns = prefix.rstrip(".")
            rt.theory.note("pkgutil.iter_modules over a plug-in namespace yields exactly the modules found under "
                           "/repo/src/%s (nothing else is on the path in the check)" % ns.replace(".", "/"))
            return [(None, m.name, False) for m in rt.program.plugin_modules(ns)]
        if name in ("ip_address", "IPv4Address"):
            return Opaque("ip(%r)" % (args[0],))
        if name == "time.time":
            raise Undecided("time.time() reached (get_request_id is a contract slot)")
        raise Undecided("call of external %s" % name)


def install(rt, interp):
    if getattr(rt, "x690", None) is None:
        rt.x690 = X690Model(rt, interp)
    return rt.x690
