"""Runtime object model of the symbolic interpreter."""
import z3

from .core import (EngineError, Sym, SBool, SInt, SOid, SXVal, SBytes, SStr, SPy, Undecided, lift_bool,
                   zbool, And, Or, Not)


class PyExc(Exception):
    """A Python-level exception travelling through the interpreted program."""

    def __init__(self, obj):
        super().__init__(obj)
        self.obj = obj


class ReturnSignal(Exception):
    def __init__(self, value):
        self.value = value


class BreakSignal(Exception):
    pass


class ContinueSignal(Exception):
    pass


class PyClass:
    """A class object: either backed by a ClassInfo from the sources or a synthetic built-in."""

    def __init__(self, name, bases=(), info=None, module=None, kind="plain"):
        self.name = name
        self.bases = list(bases)
        self.info = info
        self.module = module
        self.kind = kind            # plain | dataclass | namedtuple | enum | exception-builtin
        self.frozen = False
        self.fields = []            # dataclass / namedtuple field names in order
        self.field_defaults = {}    # name -> ast expr or ("val", v)
        self.attrs = {}             # evaluated class attributes (lazily filled)
        self.native_attrs = {}      # attributes set natively (models)
        self.slots = None
        self._mro = None

    @property
    def fullname(self):
        return "%s:%s" % (self.module, self.name) if self.module else self.name

    def mro(self):
        if self._mro is None:
            out = [self]
            for b in self.bases:
                for c in b.mro():
                    if c in out:
                        out.remove(c)
                    out.append(c)
            self._mro = out
        return self._mro

    def issubclass(self, other):
        return other in self.mro()

    def __repr__(self):
        return "<pyclass %s>" % self.fullname


class Obj:
    """Instance of a PyClass with identity."""
    _n = 0

    def __init__(self, cls, fields=None):
        self.cls = cls
        self.fields = dict(fields or {})
        Obj._n += 1
        self.oid_ = Obj._n

    def __repr__(self):
        return "<%s #%d %s>" % (self.cls.name, self.oid_, {k: v for k, v in self.fields.items()})


class NT(tuple):
    """NamedTuple instance: a tuple with a class."""

    def __new__(cls, pycls, values):
        self = super().__new__(cls, values)
        self.pycls = pycls
        return self

    def __repr__(self):
        return "%s%s" % (self.pycls.name, tuple.__repr__(self))


class Closure:
    def __init__(self, info, frame, defaults, kwdefaults, module, name=None):
        self.info = info
        self.frame = frame          # defining frame (None for module level)
        self.defaults = defaults    # evaluated positional defaults (list)
        self.kwdefaults = kwdefaults
        self.module = module
        self.attrs = {}
        self.name = name or info.node.name

    def __repr__(self):
        return "<closure %s>" % self.info.fullname


class LambdaFn:
    def __init__(self, node, frame, module):
        self.node = node
        self.frame = frame
        self.module = module


class BoundMethod:
    def __init__(self, func, self_obj):
        self.func = func
        self.self_obj = self_obj

    def __repr__(self):
        return "<bound %r of %r>" % (self.func, self.self_obj)


class Builtin:
    """Native model of a built-in / external callable: fn(interp, args, kwargs)."""

    def __init__(self, name, fn):
        self.name = name
        self.fn = fn

    def __repr__(self):
        return "<builtin %s>" % self.name


class ModuleObj:
    def __init__(self, name, info=None, native=None):
        self.name = name
        self.info = info
        self.native = native or {}
        self.cache = {}

    def __repr__(self):
        return "<module %s>" % self.name


class PropertyObj:
    def __init__(self, fget, fset=None):
        self.fget = fget
        self.fset = fset


class StaticM:
    def __init__(self, func):
        self.func = func


class ClassM:
    def __init__(self, func):
        self.func = func


class Opaque:
    """A value the engine carries around but never inspects (typing objects, loggers ...)."""

    def __init__(self, name):
        self.name = name

    def __repr__(self):
        return "<opaque %s>" % self.name


class Coroutine:
    """The object a call of an `async def` function returns when it is not awaited on the spot: nothing of the body
    has run yet; `await` runs it (once)."""

    def __init__(self, fn, args, kwargs):
        self.fn, self.args, self.kwargs = fn, list(args), dict(kwargs)
        self.state = "created"


class Task:
    """asyncio.ensure_future(coro) / create_task(coro): the coroutine runs when the creating task next awaits;
    the model runs it at the `await` of the task itself and gives up (Undecided) if anything else is awaited while
    the task is still pending.  The outcome (result or exception) is kept and handed to every later `await`."""

    def __init__(self, coro):
        self.coro = coro
        self.state = "pending"      # pending | result | exception
        self.value = None


class GenResult:
    """Eagerly collected generator."""

    def __init__(self, items, pending_exc=None, from_function=False):
        self.items = list(items)
        self.pos = 0
        self.pending_exc = pending_exc      # the generator function raised this AFTER yielding the items
        self.from_function = from_function  # a generator function (its body ran to the end already), not a genexp


# ----------------------------------------------------------------------------- containers

class PDict:
    """Insertion-ordered dict whose keys may be symbolic (lookup forks on key equality)."""

    def __init__(self, pairs=None):
        self.pairs = [[k, v] for k, v in (pairs or [])]

    def copy(self):
        return PDict([(k, v) for k, v in self.pairs])

    def __repr__(self):
        return "PDict(%r)" % (self.pairs,)


class PSet:
    """Set with possibly symbolic elements: membership only (list-backed)."""

    def __init__(self, items=None):
        self.items = list(items or [])

    def __repr__(self):
        return "PSet(%r)" % (self.items,)


class ASet:
    """Array-backed set over a z3 sort (unbounded ghost/accumulator sets)."""

    def __init__(self, arr):
        self.arr = arr

    def __repr__(self):
        return "ASet(%s)" % self.arr
