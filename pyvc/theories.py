"""
Theories plugged into the runtime: the OID order (axioms = the Lean-checked lemmas of
/verif/lemmas/OidOrder.lean), environment values (XVal with a class table read from the sources).
"""
import z3

from . import core
from .core import (EngineError, Undecided, Sym, SBool, SInt, SOid, SXVal, SBytes, SStr, SPy, And, Or, Not,
                   lift_bool, lift_int, zbool, zint, OID, XVal, Bytes, PStr, PyV, Int, Bool)
from .objects import Obj, NT, Builtin, PyClass
from . import stdlib


class SNodes(Sym):
    """``oid.nodes`` of a symbolic OID (a tuple of ints of symbolic length)."""
    pytype = "tuple"


class OidTheory:
    def __init__(self, rt, order=True):
        """order=False: only the function symbols and `len >= 0` (units that never compare OIDs)"""
        self.rt = rt
        th = rt.theory
        F = z3.Function
        self.lt = F("oid_lt", OID, OID, Bool)
        self.below = F("oid_below", OID, OID, Bool)     # below(x, r): r is a prefix of x (x == r included)
        self.olen = F("oid_len", OID, Int)
        self.lits = {}
        self._textprefix = None
        x, y, z, r, r2 = [z3.Const(n, OID) for n in ("x", "y", "z", "r", "r2")]
        lt, below = self.lt, self.below
        A = z3.ForAll
        rt.getattr_hooks["SOid"] = self._getattr
        rt.contains_hooks["SOid"] = self._contains
        rt.str_hooks["SOid"] = lambda rt_, i, v: SStr(rt_.f_oidstr(v.e))
        self._cls = None
        if not order:
            th.add("oid:len", A([x], self.olen(x) >= 0))
            return
        # L1: strict total order
        th.add("oid:irreflexive", A([x], z3.Not(lt(x, x))))
        th.add("oid:transitive", A([x, y, z], z3.Implies(z3.And(lt(x, y), lt(y, z)), lt(x, z))))
        th.add("oid:total", A([x, y], z3.Or(lt(x, y), x == y, lt(y, x))))
        # L5: prefix order is reflexive and transitive
        th.add("oid:below-refl", A([x], below(x, x)))
        th.add("oid:below-trans", A([x, y, z], z3.Implies(z3.And(below(x, y), below(y, z)), below(x, z))))
        # L2: below => greater
        th.add("oid:L2", A([x, r], z3.Implies(z3.And(below(x, r), x != r), lt(r, x))))
        # L3: a subtree is convex
        th.add("oid:L3", A([x, y, z, r], z3.Implies(z3.And(below(x, r), below(z, r), lt(x, y), lt(y, z)), below(y, r))))
        # L4: two prefixes of one OID are comparable
        th.add("oid:L4", A([x, r, r2], z3.Implies(z3.And(below(x, r), below(x, r2)), z3.Or(below(r, r2), below(r2, r)))))
        # antisymmetry of the prefix relation, lengths
        th.add("oid:below-antisym", A([x, y], z3.Implies(z3.And(below(x, y), below(y, x)), x == y)))
        th.add("oid:len", A([x], self.olen(x) >= 0))
        th.add("oid:below-len", A([x, r], z3.Implies(z3.And(below(x, r), x != r), self.olen(x) > self.olen(r))))
        th.note("OID theory: ObjectIdentifier.__lt__ is the lexicographic order on .nodes and `a in b` is "
                "`b.nodes is a prefix of a.nodes` (assumed contract of x690, validated by enumeration); the "
                "axioms L1-L5 are machine-checked in lemmas/OidOrder.lean")
        rt.getattr_hooks["SOid"] = self._getattr
        rt.contains_hooks["SOid"] = self._contains
        rt.str_hooks["SOid"] = lambda rt_, i, v: SStr(rt_.f_oidstr(v.e))
        self._cls = None

    def textprefix(self, a, b):
        """str(a).startswith(str(b)) for dotted OID texts: an uninterpreted predicate that the node-wise
        prefix implies (and nothing more: "1.3.61" starts with "1.3.6" without lying below it)."""
        if self._textprefix is None:
            self._textprefix = z3.Function("oid_text_startswith", OID, OID, Bool)
            x, r = z3.Const("x", OID), z3.Const("r", OID)
            self.rt.theory.add("oid:text-prefix", z3.ForAll([x, r], z3.Implies(self.below(x, r), self._textprefix(x, r))))
        return self._textprefix(a, b)

    def oid_class(self, interp):
        if self._cls is None:
            info = self.rt.program.find_class("x690.types:ObjectIdentifier")
            self._cls = self.rt.get_class(info, interp)
        return self._cls

    def is_oid_obj(self, obj):
        return isinstance(obj, Obj) and obj.cls.name == "ObjectIdentifier" and isinstance(obj.fields.get("pyvalue"), str)

    def lit(self, interp, obj):
        s = obj.fields["pyvalue"]
        if s not in self.lits:
            c = z3.Const("oid!lit!%s" % s, OID)
            nodes = tuple(int(n) for n in s.split(".")) if s else ()
            th = self.rt.theory
            th.add("oidlit-len", self.olen(c) == len(nodes), light=True)
            for s2, (c2, n2) in self.lits.items():
                th.add("oidlit", c != c2, light=True)
                th.add("oidlit", self.lt(c, c2) if nodes < n2 else self.lt(c2, c), light=True)
                th.add("oidlit", self.below(c, c2) == z3.BoolVal(nodes[:len(n2)] == n2), light=True)
                th.add("oidlit", self.below(c2, c) == z3.BoolVal(n2[:len(nodes)] == nodes), light=True)
            self.lits[s] = (c, nodes)
        return self.lits[s][0]

    def expr(self, interp, v):
        if isinstance(v, SOid):
            return v.e
        if self.is_oid_obj(v):
            return self.lit(interp, v)
        raise Undecided("not an OID: %r" % (v,))

    def lt_sym(self, interp, a, b):
        return lift_bool(self.lt(self.expr(interp, a), self.expr(interp, b)))

    def below_sym(self, interp, x, r):
        return lift_bool(self.below(self.expr(interp, x), self.expr(interp, r)))

    def olen_sym(self, interp, v):
        return SInt(self.olen(self.expr(interp, v)))

    def _contains(self, rt, interp, container, item):
        # `item in container`  ==  container.__contains__(item)  ==  item lies below container
        return self.below_sym(interp, item, container)

    def _getattr(self, rt, interp, obj, name):
        if name in ("value",):
            return SStr(rt.f_oidstr(obj.e))
        if name == "pythonize":
            return Builtin("oid.pythonize", lambda i, a, k: SStr(rt.f_oidstr(obj.e)))
        if name == "nodes":
            return SNodes(obj.e)
        if name in ("pyvalue", "raw_bytes", "bounds"):
            raise Undecided("internal attribute %s of a symbolic OID" % name)
        return stdlib.MISSING


class XValTheory:
    """Environment-supplied x690 values: a class id per value, isinstance by table lookup."""

    def __init__(self, rt, interp):
        self.rt = rt
        base = rt.get_class(rt.program.find_class("x690.types:X690Type"), interp)
        self.base = base
        self.classes = []
        for mname in sorted(rt.program.modules):
            m = rt.program.modules[mname]
            for cname in sorted(m.classes):
                c = rt.get_class(m.classes[cname], interp)
                if base in c.mro() and c is not base:
                    self.classes.append(c)
        for c in self.classes:
            rt.class_id(c)
        rt.xval_isinstance = self.isinstance
        rt.getattr_hooks["SXVal"] = self._getattr
        rt.theory.note("environment values (XVal): instances of the X690Type subclasses found in the sources "
                       "(%d classes); `isinstance` is decided from the class table read from the class bodies" % len(self.classes))

    def ids_of(self, spec, pred=None):
        return [self.rt.class_id(c) for c in self.classes if spec in c.mro() and (pred is None or pred(c))]

    def isinstance(self, v, spec):
        if spec is self.base or spec.name == "object":
            return True
        ids = self.ids_of(spec)
        if not ids:
            return False
        return Or(*[lift_bool(self.rt.f_cls(v.e) == i) for i in ids])

    def is_value_class(self, c):
        """Classes an agent can put into a varbind value (everything registered except PDUs/sequences)."""
        return True

    def fresh(self, ctx, base="xval", among=None):
        v = ctx.fresh_xval(base)
        cs = among if among is not None else self.classes
        ctx.assume(Or(*[lift_bool(self.rt.f_cls(v.e) == self.rt.class_id(c)) for c in cs]))
        return v

    def _getattr(self, rt, interp, obj, name):
        if name == "pythonize":
            return Builtin("xval.pythonize", lambda i, a, k: SPy(rt.f_pyz(obj.e)))
        if name == "value":
            # the wrapped python value; NOT the same as pythonize() for classes that override it (TimeTicks)
            return SPy(rt.f_xvalue(obj.e))
        return stdlib.MISSING
