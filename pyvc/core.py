"""
pyvc core: symbolic values, path context (re-execution with a decision trace),
obligations and their discharge.

A *path* is a list of Booleans.  The interpreter runs a verification unit from the top;
at the k-th symbolic branch it takes decision k of the trace; past the end of the trace it
asks the solver which sides are feasible, follows one and queues the other prefix.
No interpreter state is ever copied or merged.
"""
import itertools
import os
import time

import z3

# ----------------------------------------------------------------------------- sorts

OID = z3.DeclareSort("OID")
XVal = z3.DeclareSort("XVal")       # an x690 value object received from the environment
Bytes = z3.DeclareSort("Bytes")
PStr = z3.DeclareSort("PStr")
PyV = z3.DeclareSort("PyV")         # result of pythonize() on an XVal (opaque python value)

Int, Bool = z3.IntSort(), z3.BoolSort()


class Undecided(Exception):
    """The engine cannot decide (unsupported construct, solver unknown...). Never a violation."""


class EngineError(Exception):
    """The checker itself is broken (exit 3)."""


class PathInfeasible(Exception):
    """An assumption made the current path infeasible; the path is dropped."""


# ----------------------------------------------------------------------------- symbolic values

class Sym:
    """Base of symbolic scalar values. ``e`` is the z3 expression."""
    __slots__ = ("e",)
    pytype = "object"

    def __init__(self, e):
        self.e = e

    def __bool__(self):
        raise EngineError("truth value of a symbolic %s used natively: %s" % (type(self).__name__, self.e))

    def __repr__(self):
        return "%s(%s)" % (type(self).__name__, self.e)

    def __hash__(self):
        return hash((type(self).__name__, self.e.get_id()))


def zint(x):
    if isinstance(x, SInt):
        return x.e
    if isinstance(x, bool):
        return z3.IntVal(1 if x else 0)
    if isinstance(x, int):
        return z3.IntVal(x)
    if isinstance(x, SBool):
        return z3.If(x.e, z3.IntVal(1), z3.IntVal(0))
    raise EngineError("not an int: %r" % (x,))


def zbool(x):
    if isinstance(x, SBool):
        return x.e
    if isinstance(x, bool):
        return z3.BoolVal(x)
    if z3.is_bool(x):
        return x
    raise EngineError("not a bool: %r" % (x,))


def lift_bool(e):
    e = z3.simplify(e)
    if z3.is_true(e):
        return True
    if z3.is_false(e):
        return False
    return SBool(e)


def lift_int(e):
    e = z3.simplify(e)
    if z3.is_int_value(e):
        return e.as_long()
    return SInt(e)


class SBool(Sym):
    pytype = "bool"

    def __and__(self, o):
        return lift_bool(z3.And(self.e, zbool(o)))

    __rand__ = __and__

    def __or__(self, o):
        return lift_bool(z3.Or(self.e, zbool(o)))

    __ror__ = __or__

    def __invert__(self):
        return lift_bool(z3.Not(self.e))


class SInt(Sym):
    pytype = "int"

    def __add__(self, o):
        return lift_int(self.e + zint(o))

    __radd__ = __add__

    def __sub__(self, o):
        return lift_int(self.e - zint(o))

    def __rsub__(self, o):
        return lift_int(zint(o) - self.e)

    def __mul__(self, o):
        return lift_int(self.e * zint(o))

    __rmul__ = __mul__

    def __neg__(self):
        return lift_int(-self.e)

    def __lt__(self, o):
        return lift_bool(self.e < zint(o))

    def __le__(self, o):
        return lift_bool(self.e <= zint(o))

    def __gt__(self, o):
        return lift_bool(self.e > zint(o))

    def __ge__(self, o):
        return lift_bool(self.e >= zint(o))

    def eq(self, o):
        return lift_bool(self.e == zint(o))


class SOid(Sym):
    pytype = "ObjectIdentifier"


class SXVal(Sym):
    pytype = "X690Type"


class SBytes(Sym):
    pytype = "bytes"


class SStr(Sym):
    pytype = "str"


class SPy(Sym):
    """Opaque Python value obtained by pythonize() on an environment value."""
    pytype = "pyvalue"


def And(*xs):
    xs = [x for x in xs if x is not True]
    if any(x is False for x in xs):
        return False
    if not xs:
        return True
    return lift_bool(z3.And(*[zbool(x) for x in xs]))


def Or(*xs):
    xs = [x for x in xs if x is not False]
    if any(x is True for x in xs):
        return True
    if not xs:
        return False
    return lift_bool(z3.Or(*[zbool(x) for x in xs]))


def Not(x):
    if isinstance(x, bool):
        return not x
    return lift_bool(z3.Not(zbool(x)))


def Implies(a, b):
    return Or(Not(a), b)


def Iff(a, b):
    return lift_bool(zbool(a) == zbool(b))


# ----------------------------------------------------------------------------- theory

class Theory:
    """Axioms shared by every query of a verification unit (OID order, agent model, literals)."""

    def __init__(self):
        self.axioms = []          # (name, expr)
        self.light_axioms = []    # quantifier-free part (used by the cheap feasibility pre-check)
        self._lits = {}
        self.assumptions = []     # human-readable list for evidence

    def add(self, name, expr, light=False):
        self.axioms.append((name, expr))
        if light:
            self.light_axioms.append(expr)

    def note(self, text):
        if text not in self.assumptions:
            self.assumptions.append(text)

    def exprs(self):
        return [e for _, e in self.axioms]


# ----------------------------------------------------------------------------- obligations

class Obligation:
    __slots__ = ("name", "pc", "goal", "known", "finding", "trace", "verdict", "model", "seconds",
                 "backend", "label", "extra")

    def __init__(self, name, pc, goal, known=None, finding=None, trace=(), label="proved", extra=None):
        self.name = name
        self.pc = list(pc)
        self.goal = goal
        self.known = known
        self.finding = finding
        self.trace = tuple(trace)
        self.verdict = None
        self.model = None
        self.seconds = 0.0
        self.backend = None
        self.label = label
        self.extra = extra or {}


class Stats:
    def __init__(self):
        self.feas_queries = 0
        self.feas_seconds = 0.0
        self.paths = 0
        self.solver_seconds = 0.0


class Ctx:
    """State of one path."""

    _ids = itertools.count()

    def __init__(self, theory, trace, stats, timeout_ms=10000, seed=0, open_findings=()):
        self.theory = theory
        self.trace = list(trace)
        self.pos = 0
        self.pc = []
        self.obligations = []
        self.pending = []
        self.stats = stats
        self.timeout_ms = timeout_ms
        self.seed = seed
        self.names = {}
        self.ghost = {}
        self.open_findings = set(open_findings)
        self.notes = []
        self._feas_cache = {}
        self.base_len = 0
        self.deadline = None          # wall-clock end of the exploration job this path belongs to

    # -- fresh symbols
    def fresh_name(self, base):
        n = self.names.get(base, 0)
        self.names[base] = n + 1
        return "%s!%d" % (base, n)

    def fresh(self, sort, base):
        return z3.Const(self.fresh_name(base), sort)

    def fresh_int(self, base):
        return SInt(self.fresh(Int, base))

    def fresh_bool(self, base):
        return SBool(self.fresh(Bool, base))

    def fresh_oid(self, base):
        return SOid(self.fresh(OID, base))

    def fresh_xval(self, base):
        return SXVal(self.fresh(XVal, base))

    def fresh_bytes(self, base):
        return SBytes(self.fresh(Bytes, base))

    def fresh_str(self, base):
        return SStr(self.fresh(PStr, base))

    # -- solver plumbing
    def _solver(self, light=False, feas=False):
        s = z3.Solver()
        s.set("timeout", 200 if light else self.timeout_ms)
        if feas:
            # feasibility only needs refutations: without model-based instantiation z3 answers
            # `unknown` at once where it would otherwise search for a model of the quantified axioms;
            # unknown counts as feasible (over-approximation: vacuous obligations, never a verdict)
            s.set("smt.mbqi", False)
            s.set("timeout", int(os.environ.get("PYVC_FEAS_MS", "300")))
        s.set("random_seed", self.seed)
        for e in (self.theory.light_axioms if light else self.theory.exprs()):
            s.add(e)
        return s

    def _feasible(self, extra):
        key = (tuple(p.get_id() for p in self.pc), extra.get_id())
        if key in self._feas_cache:
            return self._feas_cache[key]
        t0 = time.time()
        self.stats.feas_queries += 1
        # cheap pre-check without quantified axioms: unsat there is final
        s = self._solver(light=True)
        s.add(*self.pc)
        s.add(extra)
        r = s.check()
        if r == z3.unsat:
            res = False
        else:
            s = self._solver(feas=True)
            s.add(*self.pc)
            s.add(extra)
            r = s.check()
            res = r != z3.unsat     # unknown: over-approximate (harmless, adds vacuous obligations)
        self.stats.feas_seconds += time.time() - t0
        self._feas_cache[key] = res
        return res

    def branch(self, cond):
        """Decide a symbolic condition on this path; returns a Python bool."""
        if isinstance(cond, bool):
            return cond
        e = z3.simplify(zbool(cond))
        if z3.is_true(e):
            return True
        if z3.is_false(e):
            return False
        if self.pos < len(self.trace):
            d = self.trace[self.pos]
            self.pos += 1
            self.pc.append(e if d else z3.Not(e))
            return d
        if self.deadline is not None:
            import time as _time
            if _time.time() > self.deadline:
                raise Undecided("exploration time budget of one job exceeded inside a path (PYVC_JOB_BUDGET_S)")
        can_t = self._feasible(e)
        can_f = self._feasible(z3.Not(e)) if can_t else True
        if can_t and can_f:
            self.pending.append(self.trace + [False])
            d = True
        elif can_t:
            d = True
        elif can_f:
            d = False
        else:
            raise PathInfeasible()
        self.trace.append(d)
        self.pos += 1
        self.pc.append(e if d else z3.Not(e))
        return d

    def assume(self, cond):
        if cond is True:
            return
        if cond is False:
            raise PathInfeasible()
        self.pc.append(z3.simplify(zbool(cond)))

    def check(self, name, cond, known=None, finding=None, label="proved", extra=None):
        """Record the obligation  pc => cond.

        ``known``: pattern predicate K of an open finding ``finding``, or a list of (finding id, K)."""
        goal = z3.BoolVal(cond) if isinstance(cond, bool) else zbool(cond)
        pairs = []
        if isinstance(known, list):
            pairs = known
        elif known is not None and finding is not None:
            pairs = [(finding, known)]
        ks = []
        for fid, k in pairs:
            if fid not in self.open_findings or k is False:
                continue
            ks.append((fid, z3.BoolVal(k) if isinstance(k, bool) else zbool(k)))
        self.obligations.append(Obligation(name, self.pc, goal, ks or None, None, self.trace[:self.pos],
                                           label=label, extra=extra))

    def note(self, text):
        self.notes.append(text)

    def mark_base(self):
        """Everything assumed so far is a unit-level assumption (kept when a loop step drops the path condition)."""
        self.base_len = len(self.pc)


# ----------------------------------------------------------------------------- discharge

def discharge(theory, ob, timeout_ms=10000, seed=0):
    """Decide one obligation.  verdict in {proved, refuted, known, unknown}."""
    t0 = time.time()

    def query(extra):
        s = z3.Solver()
        s.set("timeout", timeout_ms)
        s.set("random_seed", seed)
        for e in theory.exprs():
            s.add(e)
        s.add(*ob.pc)
        for x in extra:
            s.add(x)
        r = s.check()
        return r, s

    neg = z3.Not(ob.goal)
    if not ob.known:
        r, s = query([neg])
        if r == z3.unsat:
            ob.verdict = "proved"
        elif r == z3.sat:
            ob.verdict = "refuted"
            ob.model = s.model()
        else:
            ob.verdict = "unknown"
    else:
        # outside every known pattern the obligation must hold ...
        anyk = z3.Or(*[k for _, k in ob.known])
        r, s = query([z3.Not(anyk), neg])
        if r == z3.sat:
            ob.verdict = "refuted"
            ob.model = s.model()
        elif r != z3.unsat:
            ob.verdict = "unknown"
        else:
            # ... and inside each pattern we report whether that finding is still there
            seen = []
            unk = False
            for fid, k in ob.known:
                r2, s2 = query([k, neg])
                if r2 == z3.sat:
                    seen.append(fid)
                    ob.model = s2.model()
                elif r2 != z3.unsat:
                    unk = True
            if seen:
                ob.verdict = "known"
                ob.finding = "+".join(seen)
            elif unk:
                ob.verdict = "unknown"
            else:
                ob.verdict = "proved"
    ob.seconds = time.time() - t0
    ob.backend = "z3-%s" % z3.get_version_string()
    return ob


def to_smt2(theory, ob, negate_goal=True, with_known=None):
    s = z3.Solver()
    for e in theory.exprs():
        s.add(e)
    s.add(*ob.pc)
    if with_known is True and ob.known:
        s.add(z3.Or(*[k for _, k in ob.known]))
    if with_known is False and ob.known:
        s.add(z3.Not(z3.Or(*[k for _, k in ob.known])))
    if negate_goal:
        s.add(z3.Not(ob.goal))
    return s.to_smt2()


def explore(theory, run, stats=None, timeout_ms=10000, seed=0, open_findings=(), max_paths=20000,
            start=None, split_at=None):
    """Run ``run(ctx)`` over every feasible path extending ``start``; returns (paths, obligations, leftover).

    With ``split_at`` the exploration stops after that many paths; the unexplored prefixes are
    returned as ``leftover`` and handed to other workers by the caller."""
    stats = stats or Stats()
    queue = [list(start or [])]
    all_obs = []
    finished = []
    import os as _os
    import time as _time
    deadline = min(_time.time() + float(_os.environ.get("PYVC_JOB_BUDGET_S", "900")),
                   float(_os.environ.get("PYVC_CHECK_DEADLINE", "inf")))
    while queue:
        if split_at is not None and stats.paths >= split_at:
            break
        if _time.time() > deadline:
            # a check must end: exploration that does not finish within the budget is undecided, never a verdict
            raise Undecided("exploration time budget of one job exceeded (PYVC_JOB_BUDGET_S)")
        trace = queue.pop()
        ctx = Ctx(theory, trace, stats, timeout_ms=timeout_ms, seed=seed, open_findings=open_findings)
        ctx.deadline = deadline
        try:
            outcome = run(ctx)
        except PathInfeasible:
            outcome = "infeasible"
        stats.paths += 1
        if stats.paths > max_paths:
            raise Undecided("path budget exceeded (%d)" % max_paths)
        queue.extend(ctx.pending)
        all_obs.extend(ctx.obligations)
        finished.append((tuple(ctx.trace[:ctx.pos]), outcome, ctx))
    return finished, all_obs, queue
