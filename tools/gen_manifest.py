#!/usr/bin/env python3-vt
"""Regenerate MANIFEST.json from contracts/registry.py (checks) and the not-applicable list below."""
import json
import os
import sys

HERE = os.path.dirname(os.path.dirname(os.path.abspath(__file__)))
sys.path.insert(0, HERE)
from contracts import registry  # noqa

ALL = ["C%02d" % i for i in range(1, 21)]
NOT_APPLICABLE = registry.NOT_APPLICABLE if hasattr(registry, "NOT_APPLICABLE") else {}

LEVEL_TEXT = {
    "proof": "every obligation generated from the current source is discharged for all values of its symbolic inputs "
             "(unbounded in every dimension the property quantifies over, modulo the assumptions listed)",
    "other": "deductive: obligations are discharged for ALL values (OIDs, integers, byte strings, databases, iteration counts via "
             "inductive invariants) but container SHAPES (number of roots / bindings / repetitions) are enumerated up to a stated "
             "bound, or an environment model carries part of the weight; not counted as a full proof. Bounded stand-ins and "
             "known findings are reported under their own keys and never raise the level.",
}

checks = []
for pid in ALL:
    if pid not in registry.PROPS:
        continue
    e = registry.PROPS[pid]
    checks.append({
        "property_id": pid,
        "quick_cmd": "./check %s quick" % pid,
        "thorough_cmd": "./check %s thorough" % pid,
        "evidence_file": "evidence/%s.json" % pid,
        "replay_cmd_template": "./check %s --replay {path}" % pid,
        "engine": "pyvc",
        "level_claimed": {"category": e["level"], "text": LEVEL_TEXT[e["level"]] + " -- " + e["technique"],
                          "design_ref": "DESIGN.md section " + e.get("design_ref", "7")},
        "level_note": "; ".join(e.get("trusted_base", [])) or "see evidence.assumptions",
        "technique": "contract-based deductive verification: VC generation from the real Python ASTs (pyvc) + z3/cvc5",
    })
manifest = {
    "version": 1,
    "setup_cmd": "./setup.sh",
    "hooks": {
        "guard": "PURESNMP_VERIF",
        "enable": "no hooks: contracts live in sidecar files under /verif/contracts; /repo sources are re-read with ast on every run",
        "baseline_off_cmd": "cd /repo && /venv/bin/python -m pytest -ra -q -p no:cacheprovider --timeout=900 --continue-on-collection-errors",
        "source_commits": [],
        "add_only": True,
    },
    "engines": [{"name": "pyvc", "path": "pyvc/", "serves_properties": [c["property_id"] for c in checks],
                 "kind_free_text": "verification-condition generator: path-based symbolic execution of the real Python ASTs "
                                   "against sidecar contracts, obligations discharged by z3 5.1 (cvc5 1.0.3 for z3 unknowns)"}],
    "checks": checks,
    "notes": "See DESIGN.md. Exit codes of ./check: 0 held, 1 violation (VIOLATION line + replay file), 2 undecided, 3 checker error. "
             "known_findings.json lists recorded (open) and repaired (fixed) defects.",
    "not_applicable": [{"property_id": p, "reason": NOT_APPLICABLE.get(p, "check not built yet (build in progress)")}
                       for p in ALL if p not in registry.PROPS],
}
with open(os.path.join(HERE, "MANIFEST.json"), "w") as fh:
    json.dump(manifest, fh, indent=1)
print("checks:", [c["property_id"] for c in checks], "n/a:", [x["property_id"] for x in manifest["not_applicable"]])
