#!/usr/bin/env python3
"""Copy confirmed seeds into /verif/seeded/<name>/ and record which checks catch them (applies each patch to /repo, runs the
check(s), undoes it straight afterwards)."""
import json, os, shutil, subprocess, sys

SRC = {}
for i in range(1, 21):
    for v in "ab":
        name = "C%02d-%s" % (i, v)
        d = "/tmp/ported/%s" % name if os.path.isdir("/tmp/ported/%s" % name) else "/tmp/seeds/C%02d/%s" % (i, v)
        if os.path.isfile(d + "/patch.diff"):
            SRC[name] = d
EXTRA = {"C16-a": ["C01", "C02"], "C06-b": ["C17", "C15"], "C05-a": ["C12", "C10"], "C12-a": ["C05"], "C14-b": ["C01"], "C16-b": ["C01", "C14"],
         "C01-b": ["C14"], "C07-a": ["C14"], "C10-b": ["C05"], "C08-b": ["C11"], "C11-b": ["C10"], "C20-b": ["C14", "C12"], "C09-a": ["C10"]}
only = sys.argv[1:]
for name, d in sorted(SRC.items()):
    if only and name not in only:
        continue
    prop = name.split("-")[0]
    out = "/verif/seeded/%s" % name
    os.makedirs(out, exist_ok=True)
    for f in ("patch.diff", "demo.py"):
        shutil.copy(os.path.join(d, f), os.path.join(out, f))
    meta = json.load(open(os.path.join(d, "meta.json")))
    meta["ported"] = d.startswith("/tmp/ported")
    conf = subprocess.run(["/verif/tools/confirm_seed.sh", d, name], capture_output=True, text=True).stdout.strip().splitlines()[-1]
    meta["confirmed_by_me"] = conf
    results = {}
    subprocess.check_call(["git", "-C", "/repo", "apply", os.path.join(out, "patch.diff")])
    try:
        for p in [prop] + EXTRA.get(name, []):
            r = subprocess.run(["./check", p, "quick"], cwd="/verif", capture_output=True, text=True)
            lines = r.stdout.splitlines()
            viol = [l.split("obligation=")[1].split()[0] for l in lines if l.startswith("VIOLATION") and "obligation=" in l]
            und = [l[:200] for l in lines if l.startswith("UNDECIDED")][:2]
            results[p] = {"exit": r.returncode, "violated_obligations": sorted(set(viol))[:6], "undecided": und}
    finally:
        subprocess.check_call(["git", "-C", "/repo", "checkout", "--", "."])
    meta["checks_run"] = results
    meta["caught_by"] = [p for p, r in results.items() if r["exit"] == 1]
    json.dump(meta, open(os.path.join(out, "meta.json"), "w"), indent=1)
    print(name, "caught_by", meta["caught_by"], {p: r["exit"] for p, r in results.items()}, "|", conf[len(name):][:60])
