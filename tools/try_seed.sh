#!/bin/sh
# try_seed.sh <dir with patch.diff> <PROP> [unit-name substring]: run one check (quick) on a scratch copy of /repo with the patch
d=$1; p=$2; only=$3
root=$(mktemp -d /tmp/tryseed.XXXXXX)
cp -r /repo/src $root/src
(cd $root && (git apply --unsafe-paths --directory=$root $d/patch.diff 2>/dev/null || patch -s -p1 -i $d/patch.diff)) || { echo "patch does not apply"; rm -rf $root; exit 3; }
cd /verif && PYVC_REPO=$root PYVC_OUT=$root/out PYVC_ONLY="$only" ./check $p ${TIER:-quick} 2>&1 | grep -v "^NOTE\|^KNOWN" | cut -c1-${WIDTH:-330} | tail -${LINES_:-12}
rc=$?
rm -rf $root
