#!/bin/sh
# usage: try_seed.sh <patch.diff> <PROP> [tier]   -- apply a seeded change to /repo, run the check, undo
P="$1"; PROP="$2"; TIER="${3:-quick}"
git -C /repo apply "$P" || { echo "PATCH DOES NOT APPLY"; exit 9; }
cd /verif && ./check "$PROP" "$TIER" | grep -E "^(VIOLATION|KNOWN|UNDECIDED|CHECKER|SUMMARY)" | cut -c1-260
git -C /repo checkout -- . 
git -C /repo status --short | head -3
