#!/bin/sh
# usage: confirm_seed.sh <seed dir with patch.diff, demo.py> <name>
# Confirms in a scratch worktree: demo passes on the clean tree, patch applies, tests pass with it, demo fails with it.
D="$1"; NAME="$2"
WT=/tmp/wtc/$NAME
rm -rf $WT; git -C /repo worktree prune; git -C /repo worktree add -q --detach $WT HEAD || exit 9
cd $WT
PYTHONPATH=$WT/src timeout 120 /venv/bin/python $D/demo.py >/tmp/wtc/$NAME.clean.log 2>&1; CLEAN=$?
if git apply --check $D/patch.diff 2>/dev/null; then
  git apply $D/patch.diff
  TESTS=$(PYTHONPATH=$WT/src /venv/bin/python -m pytest -q -p no:cacheprovider 2>&1 | tail -1)
  PYTHONPATH=$WT/src timeout 120 /venv/bin/python $D/demo.py >/tmp/wtc/$NAME.mut.log 2>&1; MUT=$?
  APPLY=yes
else
  APPLY=no; TESTS=-; MUT=-
fi
cd /; git -C /repo worktree remove --force $WT
echo "$NAME apply=$APPLY clean_exit=$CLEAN mutant_exit=$MUT tests=[$TESTS]"
