#!/bin/sh
# run every registered check once (tier $1, default quick); print one line per property
cd "$(dirname "$0")/.."
TIER="${1:-quick}"
for p in $(python3-vt -c "import sys; sys.path.insert(0,'.'); from contracts import registry; print(' '.join(sorted(registry.PROPS)))"); do
  s=$(date +%s); out=$(./check $p $TIER 2>&1); rc=$?; e=$(date +%s)
  echo "$p exit=$rc $((e-s))s $(echo "$out" | grep -c '^VIOLATION') violations, $(echo "$out" | grep -c '^KNOWN-FINDING') known | $(echo "$out" | tail -1 | cut -c1-170)"
done
