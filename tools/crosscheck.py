#!/usr/bin/env python3-vt
"""
CPython cross-check of the interpreter (DESIGN 9.3): every function of crosscheck/pyvc_corpus/cases.py is run on the
same concrete arguments (a) natively under /venv/bin/python (CPython 3.12, the interpreter the library runs on) and
(b) by pyvc's interpreter from the AST.  Results must agree; a construct pyvc does not support is reported as such
(never silently different).   exit 0: all agree   exit 1: a mismatch   exit 2: only unsupported constructs
"""
import json
import os
import subprocess
import sys

HERE = os.path.dirname(os.path.abspath(__file__))
ROOT = os.path.dirname(HERE)
CORPUS = os.path.join(ROOT, "crosscheck")
os.environ["PYVC_EXTRA_ROOT"] = "pyvc_corpus=" + os.path.join(CORPUS, "pyvc_corpus")
sys.path.insert(0, ROOT)
sys.path.insert(0, CORPUS)
sys.setrecursionlimit(20000)

NATIVE = r'''
import json, sys
import pyvc_corpus.cases as c
def norm(x):
    if isinstance(x, bool) or x is None or isinstance(x, (int, str)): return x
    if isinstance(x, float): return {"float": repr(x)}
    if isinstance(x, (bytes, bytearray)): return {"bytes": list(x)}
    if isinstance(x, (list, tuple)): return [norm(i) for i in x]
    if isinstance(x, dict): return {"dict": [[norm(k), norm(v)] for k, v in x.items()]}
    if isinstance(x, (set, frozenset)): return {"set": sorted(norm(i) for i in x)}
    return {"object": type(x).__name__}
import asyncio
out = []
for name, args in c.CASES:
    try:
        out.append(norm(getattr(c, name)(*args)))
    except Exception as e:
        out.append({"exc": type(e).__name__})
for name, args in c.CORO_CASES:
    try:
        out.append(norm(asyncio.run(getattr(c, name)(*args))))
    except Exception as e:
        out.append({"exc": type(e).__name__})
json.dump(out, sys.stdout)
'''


def main():
    nat = subprocess.run(["/venv/bin/python", "-c", NATIVE], capture_output=True, text=True, env=dict(os.environ, PYTHONPATH=CORPUS))
    if nat.returncode != 0:
        print("CROSSCHECK-ERROR native run failed:", nat.stderr[-400:])
        return 3
    native = json.loads(nat.stdout)

    import pyvc_corpus.cases as cases
    from pyvc import core, loader
    from pyvc.core import Sym, Undecided, EngineError
    from pyvc.interp import Interp
    from pyvc.runtime import Runtime
    from pyvc.objects import NT, PDict, PSet, PyExc, Obj, GenResult

    prog = loader.Program()

    def norm(x):
        if isinstance(x, bool) or x is None or isinstance(x, (int, str)):
            return x
        if isinstance(x, float):
            return {"float": repr(x)}
        if isinstance(x, (bytes, bytearray)):
            return {"bytes": list(x)}
        if hasattr(x, "b") and type(x).__name__ == "WLit":
            return {"bytes": list(x.b)}
        if isinstance(x, (list, tuple, NT)):
            return [norm(i) for i in x]
        if isinstance(x, GenResult):
            return [norm(i) for i in x.items[x.pos:]]
        if isinstance(x, PDict):
            return {"dict": [[norm(k), norm(v)] for k, v in x.pairs]}
        if isinstance(x, dict):
            return {"dict": [[norm(k), norm(v)] for k, v in x.items()]}
        if isinstance(x, PSet):
            return {"set": sorted(norm(i) for i in x.items)}
        if isinstance(x, Sym):
            return {"SYMBOLIC": repr(x)}
        if isinstance(x, Obj):
            return {"object": x.cls.name}
        return {"object": type(x).__name__}

    results = []
    for name, args in list(cases.CASES) + list(cases.CORO_CASES):
        theory = core.Theory()
        box = {}

        def run(ctx, name=name, args=args):
            rt = Runtime(prog, theory, "XC")
            interp = Interp(prog, ctx, rt)
            fi = prog.find_function("pyvc_corpus.cases:" + name)
            mod = rt.import_module("pyvc_corpus.cases")
            fn = rt.module_attr(interp, mod, name)
            try:
                box["r"] = norm(interp.call(fn, [to_engine(a) for a in args], {}))
            except PyExc as pe:
                box["r"] = {"exc": pe.obj.cls.name}
            return "done"

        def to_engine(a):
            if isinstance(a, list):
                return [to_engine(x) for x in a]
            return a
        try:
            paths, _obs, _left = core.explore(theory, run)
            if len(paths) != 1:
                box["r"] = {"FORKED": len(paths)}
        except Undecided as exc:
            box["r"] = {"UNSUPPORTED": str(exc)[:160]}
        except EngineError as exc:
            box["r"] = {"ENGINE-ERROR": str(exc)[:160]}
        except Exception as exc:      # a crash of the interpreter is a finding of this check as well
            box["r"] = {"CRASH": "%s: %s" % (type(exc).__name__, str(exc)[:160])}
        results.append(box.get("r"))

    # stated limits of the model (DESIGN 3.4): generator functions are collected eagerly, so the ORDER in which producer and
    # consumer side effects interleave in a shared log differs (the set of effects, the items and the exception are the same)
    known_limits = {"gen_exc": "eager generators: producer effects precede consumer effects"}
    bad = unsupported = limits = 0
    for (name, args), n, e in zip(list(cases.CASES) + list(cases.CORO_CASES), native, results):
        if n == e:
            continue
        if isinstance(e, dict) and ("UNSUPPORTED" in e):
            unsupported += 1
            print("UNSUPPORTED %s%r: %s" % (name, tuple(args), e["UNSUPPORTED"]))
            continue
        if name in known_limits and isinstance(n, list) and isinstance(e, list) and sorted(map(str, n)) == sorted(map(str, e)):
            limits += 1
            print("KNOWN-LIMIT %s%r: %s" % (name, tuple(args), known_limits[name]))
            continue
        bad += 1
        print("MISMATCH %s%r\n   cpython: %s\n   pyvc   : %s" % (name, tuple(args), json.dumps(n)[:400], json.dumps(e)[:400]))
    print("CROSSCHECK cases=%d agree=%d mismatches=%d unsupported=%d known-limits=%d"
          % (len(native), len(native) - bad - unsupported - limits, bad, unsupported, limits))
    return 1 if bad else 0


if __name__ == "__main__":
    sys.exit(main())
