#!/usr/bin/env python3
"""
Evaluate a behaviour-preserving edit (written by an independent reviewer) on a SCRATCH copy of /repo (never /repo itself):
   eval_benign.py <dir with patch.diff, meta.json> <name> [PROP ...]
 1. the patch applies and the existing suite passes with it;
 2. the checks of the named properties - by default: of every property whose evidence lists a function of a module the
    patch touches - are run (quick) against the patched copy; every one must exit 0.  Exit 1 is a FALSE ALARM (unless the
    edit is not behaviour-preserving after all - to be judged by reading), exit 2 a check that gave up, exit 3 a crash;
 3. /verif/benign/<name>/{patch.diff,meta.json} record the outcome.
"""
import glob
import json
import os
import re
import shutil
import subprocess
import sys


def sh(cmd, **kw):
    return subprocess.run(cmd, capture_output=True, text=True, **kw)


def touched_functions(patch, root):
    """module:qualname of every function (of the patched tree and of /repo) that a hunk of the patch overlaps; a hunk
    outside every function (module level, class body) names the module itself"""
    import ast
    out = set()
    cur = None
    spans = {}

    def index(path):
        res = []
        try:
            tree = ast.parse(open(path).read())
        except (OSError, SyntaxError):
            return res

        def rec(node, prefix):
            for ch in ast.iter_child_nodes(node):
                if isinstance(ch, (ast.FunctionDef, ast.AsyncFunctionDef, ast.ClassDef)):
                    q = prefix + ch.name
                    if not isinstance(ch, ast.ClassDef):
                        first = min([ch.lineno] + [d.lineno for d in ch.decorator_list])
                        res.append((first, ch.end_lineno, q))
                    rec(ch, q + ".")
                else:
                    rec(ch, prefix)
        rec(tree, "")
        return res
    for line in open(patch).read().splitlines():
        m = re.match(r"^\+\+\+ b/(src/(.*)\.py)$", line)
        if m:
            cur = (m.group(1), m.group(2).replace("/", ".").replace(".__init__", ""))
            spans[cur] = (index(os.path.join(root, cur[0])), index(os.path.join("/repo", cur[0])))
            continue
        m = re.match(r"^@@ -(\d+)(?:,(\d+))? \+(\d+)(?:,(\d+))? @@", line)
        if m and cur:
            old = (int(m.group(1)) + 3, int(m.group(1)) + max(int(m.group(2) or 1) - 4, 0))
            new = (int(m.group(3)) + 3, int(m.group(3)) + max(int(m.group(4) or 1) - 4, 0))
            hit = False
            for (lo, hi), idx in ((new, spans[cur][0]), (old, spans[cur][1])):
                for a, b, q in idx:
                    if a <= hi and lo <= b:
                        out.add(cur[1] + ":" + q)
                        hit = True
            if not hit:
                out.add(cur[1] + ":")
    return out


def props_for(patch, root, cap=None):
    """the properties whose units have a touched function under contract (BENIGN_WIDE=1: also those that merely execute it
    from source); with a cap, the cheapest ones are kept (the caller adds the patch's own property)"""
    fns = touched_functions(patch, root)
    out = []
    for f in sorted(glob.glob("/verif/evidence/C*.json")):
        ev = json.load(open(f))
        cov = ev.get("coverage", {})
        names = set(cov.get("functions_under_contract", []))
        if os.environ.get("BENIGN_WIDE"):
            names |= set(cov.get("functions_executed_from_source", [])) | set(cov.get("functions_used_by_contract_or_model", []))
        if any((fn in names) or (fn.endswith(":") and any(n.startswith(fn) for n in names)) or
               any(n.startswith(fn + ".") for n in names) for fn in fns):
            out.append((ev.get("wall_s", 0), os.path.basename(f)[:-5]))
    out.sort()
    if cap:
        out = out[:cap]
    return sorted(p for _w, p in out), sorted(fns)


def main(argv):
    d, name, props = argv[0], argv[1], argv[2:]
    root = "/tmp/evalbenign-%s-%d" % (name, os.getpid())
    shutil.rmtree(root, ignore_errors=True)
    os.makedirs(root)
    try:
        for sub in ("src", "tests"):
            shutil.copytree("/repo/" + sub, root + "/" + sub)
        env = dict(os.environ, PYTHONPATH=root + "/src")
        ap = sh(["git", "apply", "--unsafe-paths", "--directory=" + root, d + "/patch.diff"], cwd="/")
        if ap.returncode != 0:
            ap = sh(["patch", "-p1", "-d", root, "-i", d + "/patch.diff"])
        applied = ap.returncode == 0
        tests = None
        results = {}
        touched = []
        if applied and not props:
            props, touched = props_for(d + "/patch.diff", root, cap=int(os.environ.get("BENIGN_CAP", "5")))
            own = (json.load(open(d + "/meta.json")).get("property") if os.path.exists(d + "/meta.json") else None)
            if own and own not in props:
                props.append(own)
        if applied:
            t = sh(["/venv/bin/python", "-m", "pytest", "-q", "-p", "no:cacheprovider", "tests"], env=env, cwd=root)
            tests = (t.stdout.strip().splitlines() or ["?"])[-1]
            for p in props:
                r = sh(["./check", p, "quick"], cwd="/verif", env=dict(os.environ, PYVC_REPO=root, PYVC_OUT=root + "/out"))
                lines = r.stdout.splitlines()
                viol = [l.split("obligation=")[1].split()[0] for l in lines if l.startswith("VIOLATION") and "obligation=" in l]
                und = [l[:300] for l in lines if l.startswith(("UNDECIDED", "CHECKER-ERROR"))][:4]
                results[p] = {"exit": r.returncode, "violated_obligations": sorted(set(viol))[:8], "undecided": und}
        meta = json.load(open(d + "/meta.json")) if os.path.exists(d + "/meta.json") else {}
        ok = applied and tests and " failed" not in tests and "error" not in tests.lower()
        meta.update({"touched_functions": touched, "applies": applied, "suite_with_patch": tests, "checks_run": results,
                     "alarms": [p for p, r in results.items() if r["exit"] == 1],
                     "gave_up": [p for p, r in results.items() if r["exit"] not in (0, 1)]})
        if ok:
            out = "/verif/benign/" + name
            os.makedirs(out, exist_ok=True)
            if os.path.realpath(d) != os.path.realpath(out):
                shutil.copy(d + "/patch.diff", out + "/patch.diff")
            json.dump(meta, open(out + "/meta.json", "w"), indent=1)
        print(name, "ok" if ok else "NOT-USABLE", tests, "alarms", meta["alarms"], "gave_up", meta["gave_up"],
              {p: r["exit"] for p, r in results.items()})
        for p, r in results.items():
            if r["exit"] != 0:
                for u in r["violated_obligations"] + r["undecided"]:
                    print("    ", p, u)
    finally:
        shutil.rmtree(root, ignore_errors=True)


if __name__ == "__main__":
    main(sys.argv[1:])
