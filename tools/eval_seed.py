#!/usr/bin/env python3
"""
Evaluate a seeded change on a SCRATCH copy of /repo (never /repo itself):
   eval_seed.py <seed dir with patch.diff, demo.py, meta.json> <name> <PROP> [more PROPs]
 1. confirm it: demo exits 0 on the clean copy, the patch applies, the existing suite passes with it, the demo exits 1 with it;
 2. run the named checks (quick) against the patched copy (PYVC_REPO) and record which obligations report it;
 3. write /verif/seeded/<name>/{patch.diff,demo.py,meta.json}.
"""
import json
import os
import shutil
import subprocess
import sys


def sh(cmd, **kw):
    return subprocess.run(cmd, capture_output=True, text=True, **kw)


def main(argv):
    d, name, props = argv[0], argv[1], argv[2:]
    root = "/tmp/evalseed-%s-%d" % (name, os.getpid())
    shutil.rmtree(root, ignore_errors=True)
    os.makedirs(root)
    try:
        for sub in ("src", "tests"):
            shutil.copytree("/repo/" + sub, root + "/" + sub)
        for f in ("pyproject.toml",):
            if os.path.exists("/repo/" + f):
                shutil.copy("/repo/" + f, root + "/" + f)
        env = dict(os.environ, PYTHONPATH=root + "/src")
        clean = sh(["timeout", "120", "/venv/bin/python", d + "/demo.py"], env=env, cwd=root).returncode
        ap = sh(["git", "apply", "--unsafe-paths", "--directory=" + root, d + "/patch.diff"], cwd="/")
        if ap.returncode != 0:
            ap = sh(["patch", "-p1", "-d", root, "-i", d + "/patch.diff"])
        applied = ap.returncode == 0
        tests = mut = None
        results = {}
        if applied:
            t = sh(["/venv/bin/python", "-m", "pytest", "-q", "-p", "no:cacheprovider", "tests"], env=env, cwd=root)
            tests = (t.stdout.strip().splitlines() or ["?"])[-1]
            mut = sh(["timeout", "120", "/venv/bin/python", d + "/demo.py"], env=env, cwd=root).returncode
            for p in props:
                r = sh(["./check", p, "quick"], cwd="/verif", env=dict(os.environ, PYVC_REPO=root, PYVC_OUT=root + "/out"))
                lines = r.stdout.splitlines()
                viol = [l.split("obligation=")[1].split()[0] for l in lines if l.startswith("VIOLATION") and "obligation=" in l]
                und = [l[:220] for l in lines if l.startswith(("UNDECIDED", "CHECKER-ERROR"))][:3]
                results[p] = {"exit": r.returncode, "violated_obligations": sorted(set(viol))[:6], "undecided": und}
        meta = json.load(open(d + "/meta.json")) if os.path.exists(d + "/meta.json") else {}
        meta.update({"confirmed": {"applies": applied, "demo_clean_exit": clean, "demo_mutant_exit": mut, "suite_with_patch": tests},
                     "checks_run": results, "caught_by": [p for p, r in results.items() if r["exit"] == 1]})
        ok = applied and clean == 0 and mut not in (0, None) and tests and " failed" not in tests and "error" not in tests.lower()
        meta["confirmed_by_me"] = bool(ok)
        if ok:
            out = "/verif/seeded/" + name
            os.makedirs(out, exist_ok=True)
            if os.path.realpath(d) != os.path.realpath(out):
                shutil.copy(d + "/patch.diff", out + "/patch.diff")
                shutil.copy(d + "/demo.py", out + "/demo.py")
            json.dump(meta, open(out + "/meta.json", "w"), indent=1)
        print(name, "confirmed" if ok else "NOT-CONFIRMED", meta["confirmed"], "caught_by", meta["caught_by"],
              {p: r["exit"] for p, r in results.items()})
        for p, r in results.items():
            if r["exit"] != 1:
                for u in r["undecided"]:
                    print("    ", p, u)
    finally:
        shutil.rmtree(root, ignore_errors=True)


if __name__ == "__main__":
    main(sys.argv[1:])
