#!/bin/sh
# try_standin.sh <dir with patch.diff | -> <suite> [tier]: run one stand-in natively on a scratch copy of /repo with the patch
d=$1; suite=$2; tier=${3:-quick}
root=$(mktemp -d /tmp/trystand.XXXXXX)
cp -r /repo/src $root/src
if [ "$d" != "-" ]; then (cd $root && (git apply --unsafe-paths --directory=$root $d/patch.diff 2>/dev/null || patch -s -p1 -i $d/patch.diff)) || { echo "patch does not apply"; rm -rf $root; exit 3; }; fi
cd /verif && PYVC_REPO=$root PYTHONPATH=$root/src timeout 900 /venv/bin/python standins/native.py $suite $tier 1 | python3 -c "
import json,sys
d=json.load(sys.stdin)
print({k:(v if not isinstance(v,list) else len(v)) for k,v in d.items()})
for f in (d.get('failures_list') or d.get('fails') or [])[:5]: print('  ', json.dumps(f)[:400])
for k,v in d.items():
    if isinstance(v,list):
        new=[f for f in v if not (isinstance(f,dict) and f.get('finding'))]
        print('  ', len(v)-len(new), 'failures match an open finding;', len(new), 'do not')
        for f in new[:4]: print('  ',k, json.dumps(f,default=str)[:400])
"
rm -rf $root
