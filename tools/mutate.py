#!/usr/bin/env python3
"""
Kill check (DESIGN 9.4): mutate the functions under contract in a SCRATCH copy of /repo (never /repo itself), keep the
mutants the existing test-suite does not notice, and run the property's quick check against the copy (PYVC_REPO).
A mutant that changes behaviour but still verifies points at a weak contract.

usage: mutate.py <PROP> <file under src> <function qualname> [...more "file:qualname"]   (prints one line per mutant)
"""
import ast
import copy
import os
import shutil
import subprocess
import sys

SCRATCH = "/tmp/mutkill-%d" % os.getpid()


class Mutator(ast.NodeTransformer):
    """enumerates single-point mutations of one function"""

    def __init__(self):
        self.points = []

    def collect(self, fn):
        for node in ast.walk(fn):
            if isinstance(node, ast.Compare) and len(node.ops) == 1:
                op = type(node.ops[0])
                swaps = {ast.Lt: [ast.LtE, ast.Gt], ast.LtE: [ast.Lt], ast.Gt: [ast.GtE, ast.Lt], ast.GtE: [ast.Gt], ast.Eq: [ast.NotEq],
                         ast.NotEq: [ast.Eq], ast.In: [ast.NotIn], ast.NotIn: [ast.In], ast.Is: [ast.IsNot], ast.IsNot: [ast.Is]}
                for new in swaps.get(op, []):
                    self.points.append(("cmp", node, new))
            elif isinstance(node, ast.Constant) and isinstance(node.value, int) and not isinstance(node.value, bool):
                for d in (1, -1):
                    self.points.append(("const", node, node.value + d))
            elif isinstance(node, ast.BoolOp):
                self.points.append(("boolop", node, ast.Or if isinstance(node.op, ast.And) else ast.And))
            elif isinstance(node, ast.UnaryOp) and isinstance(node.op, ast.Not):
                self.points.append(("dropnot", node, None))
            elif isinstance(node, ast.BinOp) and isinstance(node.op, (ast.Add, ast.Sub)):
                self.points.append(("arith", node, ast.Sub if isinstance(node.op, ast.Add) else ast.Add))
            elif isinstance(node, (ast.Break, ast.Continue)):
                self.points.append(("brk", node, ast.Continue if isinstance(node, ast.Break) else ast.Break))
            elif isinstance(node, ast.Subscript) and isinstance(node.slice, ast.Constant) and isinstance(node.slice.value, int):
                pass
        for node in ast.walk(fn):
            body = getattr(node, "body", None)
            if isinstance(body, list):
                for i, st in enumerate(body):
                    if isinstance(st, (ast.Expr, ast.Assign, ast.AugAssign, ast.Raise, ast.If)) and len(body) > 1 and not (
                            isinstance(st, ast.Expr) and isinstance(st.value, ast.Constant)):
                        self.points.append(("dropstmt", (node, i), None))
        return self.points


def apply(tree, fn, point):
    kind, node, new = point
    if kind == "cmp":
        node.ops = [new()]
    elif kind == "const":
        node.value = new
    elif kind == "boolop":
        node.op = new()
    elif kind == "dropnot":
        node.op = ast.UAdd() if False else node.op
        # replace `not X` by `X`: mutate in place by turning into a double negation is not possible; use bool(X)
        node.__class__ = ast.Call
        node.func = ast.Name(id="bool", ctx=ast.Load())
        node.args = [node.operand]
        node.keywords = []
    elif kind == "arith":
        node.op = new()
    elif kind == "brk":
        node.__class__ = new
    elif kind == "dropstmt":
        parent, i = node
        parent.body[i] = ast.Pass()
    ast.fix_missing_locations(tree)


def find_fn(tree, qual):
    parts = qual.split(".")
    scope = tree
    for p in parts:
        nxt = None
        for n in ast.iter_child_nodes(scope) if not isinstance(scope, ast.Module) else scope.body:
            if isinstance(n, (ast.FunctionDef, ast.AsyncFunctionDef, ast.ClassDef)) and n.name == p:
                nxt = n
                break
        if nxt is None:
            # nested function
            for n in ast.walk(scope):
                if isinstance(n, (ast.FunctionDef, ast.AsyncFunctionDef)) and n.name == p:
                    nxt = n
                    break
        if nxt is None:
            raise SystemExit("function %s not found" % qual)
        scope = nxt
    return scope


def main(argv):
    prop = argv[0]
    targets = argv[1:]
    if os.path.isdir(SCRATCH):
        shutil.rmtree(SCRATCH)
    shutil.copytree("/repo/src", SCRATCH + "/src")
    shutil.copytree("/repo/tests", SCRATCH + "/tests")
    for f in ("pyproject.toml",):
        shutil.copy("/repo/" + f, SCRATCH + "/" + f)
    summary = {"killed": 0, "by_tests": 0, "survived": 0, "undecided": 0}
    try:
        for t in targets:
            rel, qual = t.split(":")
            path = os.path.join(SCRATCH, "src", rel)
            original = open("/repo/src/" + rel).read()
            base = ast.parse(original)
            try:
                n_points = len(Mutator().collect(find_fn(base, qual)))
            except SystemExit as e:
                print("SKIP", t, e, flush=True)
                continue
            for idx in range(n_points):
                tree = ast.parse(original)
                fn = find_fn(tree, qual)
                pts = Mutator().collect(fn)
                point = pts[idx]
                if isinstance(point[1], tuple):
                    desc = "%s@%s[%d]" % (point[0], getattr(point[1][0], "lineno", "?"), point[1][1])
                else:
                    desc = "%s@%s" % (point[0], getattr(point[1], "lineno", "?"))
                apply(tree, fn, point)
                try:
                    src = ast.unparse(tree)
                    compile(src, rel, "exec")
                except Exception:
                    continue
                open(path, "w").write(src)
                env = dict(os.environ, PYTHONPATH=SCRATCH + "/src")
                tests = subprocess.run(["/venv/bin/python", "-m", "pytest", "-q", "-x", "-p", "no:cacheprovider", "tests"], cwd=SCRATCH,
                                       capture_output=True, text=True, env=env, timeout=300)
                if tests.returncode != 0:
                    summary["by_tests"] += 1
                    print("%s %s %-22s tests-fail" % (t, prop, desc), flush=True)
                    continue
                chk = subprocess.run(["./check", prop, "quick"], cwd="/verif", capture_output=True, text=True,
                                     env=dict(os.environ, PYVC_REPO=SCRATCH, PYVC_OUT=SCRATCH + "/out"), timeout=1200)
                verdict = {0: "SURVIVED", 1: "killed", 2: "undecided", 3: "checker-error"}.get(chk.returncode, str(chk.returncode))
                summary["killed" if chk.returncode == 1 else "survived" if chk.returncode == 0 else "undecided"] += 1
                first = next((l for l in chk.stdout.splitlines() if l.startswith(("VIOLATION", "UNDECIDED", "CHECKER"))), "")
                changed = [l for l in difflines(original, src)][:2]
                print("%s %s %-22s %-9s %s | %s" % (t, prop, desc, verdict, " // ".join(changed)[:230], first[:120].split("obligation=")[-1]), flush=True)
            open(path, "w").write(original)
    finally:
        shutil.rmtree(SCRATCH, ignore_errors=True)
    print("SUMMARY", prop, summary)


def difflines(a, b):
    import difflib
    a2 = ast.unparse(ast.parse(a)).splitlines()
    for l in difflib.unified_diff(a2, b.splitlines(), lineterm="", n=0):
        if l.startswith(("+", "-")) and not l.startswith(("+++", "---")):
            yield l.strip()


if __name__ == "__main__":
    main(sys.argv[1:])
