#!/bin/sh
# mutation campaign: each line "PROP file:qual ..." ; results in /verif/mutation/<PROP>.log
cd /verif; mkdir -p mutation
run() { p=$1; shift; python3 tools/mutate.py $p "$@" > mutation/$p.log 2>&1; }
R=puresnmp/api/raw.py; U=puresnmp/util.py
case "$1" in
 C01) run C01 $R:Client.multiwalk $R:Client._walk_stalled $R:Client.multigetnext $U:group_varbinds $U:get_unfinished_walk_oids $R:deduped_varbinds ;;
 C02) run C02 $R:Client._bulkwalk_fetcher $R:Client.bulkget $R:Client.bulkwalk ;;
 C03) run C03 $R:Client._walk_stalled $R:Client.multiwalk ;;
 C04) run C04 $R:Client.get $R:Client.multiget $R:Client.getnext $R:Client.set $R:Client.multiset ;;
 C05) run C05 puresnmp/pdu.py:PDU.encode_raw puresnmp/pdu.py:BulkGetRequest.__bytes__ puresnmp_plugins/mpm/v3.py:V3MPM.encode puresnmp_plugins/mpm/v2c.py:V2CMPM.encode puresnmp_plugins/mpm/v1.py:V1MPM.encode puresnmp_plugins/security/usm.py:UserSecurityModel.generate_request_message puresnmp_plugins/security/v2c.py:SNMPv2cSecurityModel.generate_request_message ;;
 C06) run C06 puresnmp/pdu.py:PDU.decode_raw puresnmp_plugins/mpm/v3.py:V3MPM.decode puresnmp_plugins/mpm/v2c.py:V2CMPM.decode puresnmp_plugins/security/usm.py:UserSecurityModel.process_incoming_message puresnmp_plugins/security/v2c.py:SNMPv2cSecurityModel.process_incoming_message ;;
 C07) run C07 $R:Client._send puresnmp/util.py:validate_response_id $R:Client.multiset $R:Client.get ;;
 C08) run C08 puresnmp/pdu.py:PDU.decode_raw puresnmp/exc.py:ErrorResponse.construct puresnmp/exc.py:ErrorResponse.__init__ ;;
 C09) run C09 puresnmp_plugins/security/usm.py:verify_authentication puresnmp_plugins/security/usm.py:validate_usm_message puresnmp_plugins/security/usm.py:UserSecurityModel.process_incoming_message puresnmp_plugins/security/usm.py:decrypt_message puresnmp_plugins/auth/hashbase.py:for_incoming ;;
 C10) run C10 puresnmp_plugins/security/usm.py:apply_authentication puresnmp_plugins/security/usm.py:reset_digest puresnmp/util.py:password_to_key puresnmp_plugins/auth/hashbase.py:for_outgoing puresnmp_plugins/auth/hashbase.py:get_message_digest puresnmp_plugins/mpm/v3.py:is_confirmed ;;
 C11) run C11 puresnmp_plugins/security/usm.py:apply_encryption puresnmp_plugins/security/usm.py:decrypt_message puresnmp_plugins/security/usm.py:localise_key ;;
 C12) run C12 puresnmp_plugins/mpm/v3.py:V3MPM.encode puresnmp_plugins/security/usm.py:UserSecurityModel.send_discovery_message puresnmp_plugins/security/usm.py:UserSecurityModel.set_engine_timing puresnmp_plugins/security/usm.py:UserSecurityModel.generate_request_message ;;
 C13) run C13 puresnmp/transport.py:send_udp puresnmp/transport.py:SNMPClientProtocol.datagram_received puresnmp/transport.py:SNMPClientProtocol.connection_made puresnmp/transport.py:SNMPClientProtocol.get_data puresnmp/transport.py:SNMPClientProtocol.error_received puresnmp/transport.py:SNMPClientProtocol.connection_lost ;;
 C15) run C15 puresnmp/api/pythonic.py:PyWrapper.get puresnmp/api/pythonic.py:PyWrapper.multiget puresnmp/api/pythonic.py:PyWrapper.getnext puresnmp/api/pythonic.py:PyWrapper.walk puresnmp/api/pythonic.py:PyWrapper.multiwalk puresnmp/api/pythonic.py:PyWrapper.set puresnmp/api/pythonic.py:PyWrapper.multiset puresnmp/api/pythonic.py:PyWrapper.bulkget puresnmp/api/pythonic.py:PyWrapper.bulkwalk puresnmp/api/pythonic.py:PyWrapper.table puresnmp/api/pythonic.py:PyWrapper.bulktable puresnmp/varbind.py:PyVarBind.from_raw ;;
 C16) run C16 puresnmp/util.py:tablify $R:Client.table $R:Client.bulktable ;;
 C17) run C17 puresnmp/types.py:Counter.__init__ puresnmp/types.py:Counter64.__init__ puresnmp/types.py:TimeTicks.__init__ puresnmp/types.py:TimeTicks.pythonize puresnmp/types.py:IpAddress.decode_raw puresnmp/types.py:IpAddress.encode_raw ;;
 C18) run C18 $R:Client.configure $R:Client.reconfigure $R:Client.__init__ ;;
 C19) run C19 $R:register_trap_callback puresnmp/transport.py:SNMPTrapReceiverProtocol.datagram_received puresnmp/pdu.py:Trap.__init__ ;;
esac
# round 2: functions one property shares with another, and re-runs after the checks were strengthened
case "$1" in
 C02b) p=C02; python3 tools/mutate.py C02 $R:deduped_varbinds $U:group_varbinds $U:get_unfinished_walk_oids $R:Client.multiwalk > mutation/C02b.log 2>&1 ;;
 C04b) python3 tools/mutate.py C04 $R:Client.bulkget $R:Client.multigetnext > mutation/C04b.log 2>&1 ;;
 C03b) python3 tools/mutate.py C03 $R:Client._walk_stalled $R:Client.multiwalk $R:Client.multigetnext $U:get_unfinished_walk_oids > mutation/C03b.log 2>&1 ;;
 C11b) python3 tools/mutate.py C11 puresnmp_plugins/security/usm.py:apply_encryption puresnmp_plugins/security/usm.py:decrypt_message puresnmp_plugins/security/usm.py:UserSecurityModel.process_incoming_message puresnmp_plugins/security/usm.py:UserSecurityModel.generate_request_message puresnmp/util.py:localise_key > mutation/C11b.log 2>&1 ;;
 C19b) python3 tools/mutate.py C19 $R:register_trap_callback puresnmp/transport.py:SNMPTrapReceiverProtocol.datagram_received puresnmp/pdu.py:Trap.__init__ puresnmp_plugins/mpm/v2c.py:V2CMPM.decode > mutation/C19b.log 2>&1 ;;
 C09b) python3 tools/mutate.py C09 puresnmp_plugins/auth/hashbase.py:for_incoming puresnmp_plugins/auth/hashbase.py:get_message_digest puresnmp_plugins/security/usm.py:verify_authentication puresnmp_plugins/security/usm.py:reset_digest puresnmp_plugins/mpm/v3.py:V3MPM.decode > mutation/C09b.log 2>&1 ;;
 C14b) python3 tools/mutate.py C14 $R:Client._send $R:Client.multiget puresnmp_plugins/mpm/v3.py:V3MPM.encode > mutation/C14b.log 2>&1 ;;
 C06b) python3 tools/mutate.py C06 puresnmp_plugins/security/usm.py:UserSecurityModel.process_incoming_message puresnmp_plugins/security/usm.py:decrypt_message puresnmp/adt.py:Message.decode puresnmp/adt.py:Message.from_sequence puresnmp/adt.py:ScopedPDU.decode puresnmp_plugins/security/usm.py:USMSecurityParameters.decode puresnmp_plugins/security/usm.py:USMSecurityParameters.from_snmp_type > mutation/C06b.log 2>&1 ;;
 C05b) python3 tools/mutate.py C05 puresnmp/adt.py:Message.__bytes__ puresnmp/adt.py:HeaderData.__bytes__ puresnmp/adt.py:ScopedPDU.__bytes__ puresnmp/adt.py:V3Flags.__bytes__ puresnmp_plugins/security/usm.py:USMSecurityParameters.as_snmp_type puresnmp_plugins/security/usm.py:USMSecurityParameters.__bytes__ puresnmp_plugins/security/usm.py:apply_authentication puresnmp_plugins/security/usm.py:apply_encryption puresnmp/pdu.py:BulkGetRequest.__init__ > mutation/C05b.log 2>&1 ;;
 C12b) python3 tools/mutate.py C12 puresnmp_plugins/security/usm.py:UserSecurityModel.set_engine_timing puresnmp_plugins/security/usm.py:UserSecurityModel.generate_request_message puresnmp_plugins/mpm/v3.py:V3MPM.encode > mutation/C12b.log 2>&1 ;;
esac
# round 3: functions put under contract later
case "$1" in
 C19c) python3 tools/mutate.py C19 puresnmp/api/pythonic.py:TrapInfo.origin puresnmp/api/pythonic.py:TrapInfo.uptime puresnmp/api/pythonic.py:TrapInfo.oid puresnmp/api/pythonic.py:TrapInfo.values puresnmp/varbind.py:PyVarBind.from_raw > mutation/C19c.log 2>&1 ;;
 C08c) python3 tools/mutate.py C08 puresnmp/exc.py:ErrorResponse.construct puresnmp/exc.py:ErrorResponse.__init__ > mutation/C08c.log 2>&1 ;;
 C05c) python3 tools/mutate.py C05 puresnmp/pdu.py:PDU.encode_raw puresnmp/pdu.py:BulkGetRequest.__init__ puresnmp/pdu.py:BulkGetRequest.__bytes__ puresnmp/api/raw.py:Client._bulkwalk_fetcher puresnmp/api/raw.py:Client.bulkwalk puresnmp/adt.py:HeaderData.as_snmp_type puresnmp/adt.py:ScopedPDU.as_snmp_type > mutation/C05c.log 2>&1 ;;
 C03c) python3 tools/mutate.py C03 puresnmp/api/raw.py:Client.table puresnmp/api/raw.py:Client.bulktable puresnmp/api/raw.py:Client.walk puresnmp/api/raw.py:Client.bulkwalk > mutation/C03c.log 2>&1 ;;
 C20c) python3 tools/mutate.py C20 puresnmp_plugins/security/usm.py:USMSecurityParameters.from_snmp_type puresnmp_plugins/security/usm.py:UserSecurityModel.send_discovery_message puresnmp/transport.py:send_udp > mutation/C20c.log 2>&1 ;;
 C09c) python3 tools/mutate.py C09 puresnmp_plugins/security/usm.py:UserSecurityModel.process_incoming_message puresnmp_plugins/security/usm.py:validate_usm_message > mutation/C09c.log 2>&1 ;;
esac
