#!/usr/bin/env python3
"""
Acceptance list (DESIGN Appendix B, automated): textual edits applied to a SCRATCH copy of /repo/src (never /repo),
each labelled

    benign   - the property still holds: every named check must stay green (exit 0, no VIOLATION line)
    breaking - the property is broken: at least one named check must report a VIOLATION (exit 1)

usage: acceptance.py [case-id ...]      (no argument: all cases)     results: acceptance/results.json
"""
import json
import os
import re
import shutil
import subprocess
import sys
import concurrent.futures as cf

RAW = "puresnmp/api/raw.py"
UTIL = "puresnmp/util.py"
PDU = "puresnmp/pdu.py"
TYPES = "puresnmp/types.py"
TRANSPORT = "puresnmp/transport.py"
USM = "puresnmp_plugins/security/usm.py"
V3 = "puresnmp_plugins/mpm/v3.py"
V2C = "puresnmp_plugins/mpm/v2c.py"
PY = "puresnmp/api/pythonic.py"
HB = "puresnmp_plugins/auth/hashbase.py"


def rename_in(fn_start, fn_end, pairs):
    def f(src):
        a = src.index(fn_start)
        b = src.index(fn_end, a)
        body = src[a:b]
        for old, new in pairs:
            body, n = re.subn(r"\b%s\b" % old, new, body)
            assert n, old
        return src[:a] + body + src[b:]
    return f


CASES = [
    # ------------------------------------------------------------------ benign
    dict(id="benign-rename-multiwalk-locals", kind="benign", props=["C01", "C02", "C03", "C16"],
         edits=[(RAW, rename_in("    async def multiwalk(", "    def _walk_stalled(",
                                [("unfinished_oids", "todo"), ("yielded", "seen"), ("next_fetches", "nf"), ("grouped_oids", "grp")]))]),
    dict(id="benign-dedupe-unsorted", kind="benign", props=["C01", "C02", "C03"],
         edits=[(RAW, "for var in sorted(grouped_oids.values()):", "for var in grouped_oids.values():")],
         note="several roots: delivery order between roots is unspecified"),
    dict(id="benign-counter-lt", kind="benign", props=["C17", "C06"],
         edits=[(TYPES, "            if value <= 0:\n                value = 0\n        super().__init__(value)\n\n\nclass Gauge",
                 "            if value < 0:\n                value = 0\n        super().__init__(value)\n\n\nclass Gauge")]),
    dict(id="benign-multiget-loop", kind="benign", props=["C04", "C07", "C14"],
         edits=[(RAW, "        output = [value for _, value in response.value.varbinds]\n        if len(output) != len(oids):",
                 "        output = []\n        for binding in response.value.varbinds:\n            output.append(binding.value)\n"
                 "        if len(output) != len(oids):")]),
    dict(id="benign-multiget-message", kind="benign", props=["C04"],
         edits=[(RAW, '"Unexpected response. Expected %d varbind, "\n                "but got %d!" % (len(oids), len(output))',
                 '"Agent answered %d bindings to %d OIDs" % (len(output), len(oids))')]),
    dict(id="benign-get-two-isinstance", kind="benign", props=["C04"],
         edits=[(RAW, "        result = await self.multiget([oid])\n        if isinstance(result[0], (NoSuchObject, NoSuchInstance)):",
                 "        result = await self.multiget([oid])\n        if isinstance(result[0], NoSuchObject) or isinstance(result[0], NoSuchInstance):")]),
    dict(id="benign-send-logging", kind="benign", props=["C04", "C05", "C07", "C14", "C18"],
         edits=[(RAW, "        response = self.mpm.decode(raw_response, self.credentials)\n        validate_response_id(",
                 "        LOG.debug(\"got %d octets\", len(raw_response))\n        response = self.mpm.decode(raw_response, self.credentials)\n        validate_response_id(")]),
    dict(id="benign-validate-id-not-eq", kind="benign", props=["C07"],
         edits=[(UTIL, "    if response_id != request_id:", "    if not response_id == request_id:")]),
    dict(id="benign-extract-count-helper", kind="benign", props=["C04", "C07"],
         edits=[(RAW, "        if len(output) != len(oids):\n            raise SnmpError(\n                \"Unexpected response. Expected %d varbind, \"\n"
                      "                \"but got %d!\" % (len(oids), len(output))\n            )\n        return output\n\n    async def getnext(",
                 "        _expect_count(len(oids), len(output))\n        return output\n\n    async def getnext("),
                (RAW, "def deduped_varbinds(",
                 "def _expect_count(expected: int, got: int) -> None:\n    if expected != got:\n        raise SnmpError(\n"
                 "            \"Unexpected response. Expected %d varbind, but got %d!\" % (expected, got)\n        )\n\n\ndef deduped_varbinds(")]),
    dict(id="benign-udp-rename-counter", kind="benign", props=["C13"],
         edits=[(TRANSPORT, "        loop = asyncio.get_event_loop()\n\n    while retries > 0:",
                 "        loop = asyncio.get_event_loop()\n    attempts_left = retries\n\n    while retries > 0:"),
                (TRANSPORT, rename_in("    while retries > 0:", "    return response", [("retries", "attempts_left")]))]),
    dict(id="benign-group-varbinds-enumerate", kind="benign", props=["C01", "C02", "C03"],
         edits=[(UTIL, "    for i in range(n):\n        results[effective_roots[i]] = varbinds[i::n]",
                 "    for i, root in enumerate(effective_roots):\n        results[root] = varbinds[i::n]")]),
    dict(id="benign-unfinished-filter-first", kind="benign", props=["C01", "C02", "C03"],
         edits=[(UTIL, "    output = [\n        item\n        for item in sorted(last_received_oids.items())\n        if item[1].unfinished\n    ]",
                 "    output = sorted(\n        item for item in last_received_oids.items() if item[1].unfinished\n    )")]),
    dict(id="benign-tablify-rename", kind="benign", props=["C16"],
         edits=[(UTIL, rename_in("def tablify(", "def password_to_key(", [("tmp", "row"), ("col_id", "column")]))]),
    dict(id="benign-timeticks-floordiv-int", kind="benign", props=["C17"],
         edits=[(TYPES, "value // timedelta(milliseconds=10)", "int(value / timedelta(microseconds=1)) // 10000")],
         note="exact: timedelta / timedelta(microseconds=1) is the integral number of microseconds... as a float: NOT exact for huge values; expect the check to decide either way (informational)",
         informational=True),
    dict(id="benign-error-status-gt-zero-unsigned", kind="benign", props=["C08"], informational=True,
         edits=[(PDU, "        if error_status.value:", "        if error_status.value != 0:")]),
    dict(id="benign-apply-auth-rename-inline", kind="benign", props=["C05", "C10", "C11"],
         edits=[(USM, "        without_digest = reset_digest(unauthed_message)\n        auth_result = auth_method.authenticate_outgoing_message(\n            credentials.auth.key,\n            bytes(without_digest),",
                 "        zeroed = bytes(reset_digest(unauthed_message))\n        auth_result = auth_method.authenticate_outgoing_message(\n            credentials.auth.key,\n            zeroed,")]),
    dict(id="benign-verify-auth-early-names", kind="benign", props=["C09", "C06", "C10"],
         edits=[(USM, "    auth_method = auth.create(credentials.auth.method)\n    without_digest = reset_digest(message)\n    is_authentic = auth_method.authenticate_incoming_message(\n        credentials.auth.key,\n        bytes(without_digest),",
                 "    without_digest = reset_digest(message)\n    checker = auth.create(credentials.auth.method)\n    is_authentic = checker.authenticate_incoming_message(\n        credentials.auth.key,\n        bytes(without_digest),")]),
    dict(id="benign-v3-encode-reorder", kind="benign", props=["C05", "C10", "C12", "C14"],
         edits=[(V3, "        scoped_pdu = ScopedPDU(\n            OctetString(engine_id), OctetString(context_name), pdu\n        )\n        flags = V3Flags(\n            auth=credentials.auth is not None,\n            priv=credentials.priv is not None,\n            reportable=is_confirmed(pdu),\n        )\n",
                 "        flags = V3Flags(\n            auth=credentials.auth is not None,\n            priv=credentials.priv is not None,\n            reportable=is_confirmed(pdu),\n        )\n        scoped_pdu = ScopedPDU(\n            OctetString(engine_id), OctetString(context_name), pdu\n        )\n")]),
    dict(id="benign-digest-inline", kind="benign", props=["C09", "C10"],
         edits=[(HB, "    auth_key = hasher(auth_key, engine_id)\n    mac = hmac.new(auth_key, encoded_message, digestmod=method)\n    return mac.digest()[:12]",
                 "    localised = hasher(auth_key, engine_id)\n    return hmac.new(localised, encoded_message, digestmod=method).digest()[:12]")]),
    dict(id="benign-tablify-if-not-in", kind="benign", props=["C16"],
         edits=[(UTIL, "        row = rows.setdefault(row_id, tmp)\n        row[str(col_id)] = value",
                 "        if row_id not in rows:\n            rows[row_id] = tmp\n        rows[row_id][str(col_id)] = value")]),
    dict(id="benign-configure-local", kind="benign", props=["C18", "C05"],
         edits=[(RAW, "        if \"credentials\" in kwargs and type(self.config.credentials) != type(\n            kwargs[\"credentials\"]\n        ):",
                 "        new_creds = kwargs.get(\"credentials\")\n        if \"credentials\" in kwargs and type(self.config.credentials) != type(new_creds):")]),
    dict(id="benign-multiset-loop", kind="benign", props=["C04", "C05", "C07"],
         edits=[(RAW, "        binds = [VarBind(oid, value) for oid, value in mappings.items()]\n",
                 "        binds = []\n        for key in mappings:\n            binds.append(VarBind(key, mappings[key]))\n")]),
    dict(id="benign-bulkget-plain-dict", kind="benign", props=["C02", "C04", "C15"],
         edits=[(RAW, "        repeating_out = OrderedDict()  # type: Dict[ObjectIdentifier, Type[Any]]", "        repeating_out = {}  # type: Dict[ObjectIdentifier, Type[Any]]")]),
    dict(id="benign-getnext-len-zero", kind="benign", props=["C04"],
         edits=[(RAW, "        result = await self.multigetnext([oid])\n        if not result:", "        result = await self.multigetnext([oid])\n        if len(result) == 0:")]),
    dict(id="benign-counter-modulo", kind="benign", props=["C17", "C06"],
         edits=[(TYPES, "            value &= 0xFFFFFFFF if value >= 2**32 else value\n            if value <= 0:\n                value = 0\n        super().__init__(value)\n\n\nclass Gauge",
                 "            value = value % 2**32 if value > 0 else 0\n        super().__init__(value)\n\n\nclass Gauge")]),
    dict(id="benign-send-local-config", kind="benign", props=["C05", "C07", "C13", "C14", "C18"],
         edits=[(RAW, "        raw_response = await self.sender(\n            self.endpoint,\n            bytes(packet),\n            timeout=self.config.timeout,\n            retries=self.config.retries,\n        )",
                 "        cfg = self.config\n        raw_response = await self.sender(\n            self.endpoint,\n            bytes(packet),\n            timeout=cfg.timeout,\n            retries=cfg.retries,\n        )")]),
    dict(id="benign-walk-stalled-loop", kind="benign", props=["C01", "C02", "C03"],
         edits=[(RAW, "        stalled = [\n            (continued_from[root], row.value.oid)\n            for root, row in unfinished_oids\n            if root in continued_from\n            and not continued_from[root] < row.value.oid\n        ]",
                 "        stalled = []\n        for root, row in unfinished_oids:\n            asked = continued_from.get(root)\n            if asked is not None and not asked < row.value.oid:\n                stalled.append((asked, row.value.oid))")]),
    dict(id="benign-multigetnext-enumerate", kind="benign", props=["C01", "C03", "C04"],
         edits=[(RAW, "        for requested, retrieved in zip(oids, output):\n            if not requested < retrieved.oid:",
                 "        for position, retrieved in enumerate(output):\n            requested = oids[position]\n            if not requested < retrieved.oid:")]),
    dict(id="benign-bulkwalk-capped-size", kind="benign", props=["C02", "C16"],
         edits=[(RAW, "            fetcher=self._bulkwalk_fetcher(bulk_size),", "            fetcher=self._bulkwalk_fetcher(min(bulk_size, 50)),")],
         note="any repetition count >= 1 gives the same walk"),
    dict(id="benign-from-raw-locals", kind="benign", props=["C15", "C19"],
         edits=[("puresnmp/varbind.py", "        return PyVarBind(\n            raw_varbind.oid.pythonize(), raw_varbind.value.pythonize()\n        )",
                 "        oid, value = raw_varbind\n        text = oid.pythonize()\n        return PyVarBind(text, value.pythonize())")]),
    dict(id="benign-trapinfo-values-comprehension", kind="benign", props=["C19"],
         edits=[(PY, "        output = {}\n        for varbind in self.raw_trap.value.varbinds[2:]:\n            pyvarbind = PyVarBind.from_raw(varbind)\n            output[pyvarbind.oid] = pyvarbind.value\n        return output",
                 "        payload = [PyVarBind.from_raw(vb) for vb in self.raw_trap.value.varbinds[2:]]\n        return {item.oid: item.value for item in payload}")]),
    dict(id="benign-usm-params-unpack", kind="benign", props=["C06", "C09", "C10", "C12", "C20"],
         edits=[(USM, "        return USMSecurityParameters(\n            authoritative_engine_id=seq[0].pythonize(),\n            authoritative_engine_boots=seq[1].pythonize(),\n            authoritative_engine_time=seq[2].pythonize(),\n            user_name=seq[3].pythonize(),\n            auth_params=seq[4].pythonize(),\n            priv_params=seq[5].pythonize(),\n        )",
                 "        engine_id, boots, etime, user, auth_p, priv_p = [item.pythonize() for item in seq]\n        return USMSecurityParameters(engine_id, boots, etime, user, auth_p, priv_p)")]),
    dict(id="benign-incoming-early-user-check-names", kind="benign", props=["C09", "C06", "C10", "C11"],
         edits=[(USM, "        security_name = security_params.user_name\n        if security_name != credentials.username.encode(\"ascii\"):",
                 "        expected_user = credentials.username.encode(\"ascii\")\n        security_name = security_params.user_name\n        if not security_name == expected_user:")]),
    dict(id="benign-trap-decode-locals", kind="benign", props=["C19", "C20"],
         edits=[(RAW, "        mproc = mpm.create(version.value, handler, lcd)\n        trap = cast(Trap, mproc.decode(packet.data, credentials))\n        trap.source = packet.info\n        asyncio.ensure_future(callback(trap))",
                 "        processor = mpm.create(version.value, handler, lcd)\n        decoded = processor.decode(packet.data, credentials)\n        trap = cast(Trap, decoded)\n        trap.source = packet.info\n        asyncio.ensure_future(callback(trap))")]),
    dict(id="benign-send-udp-for-loop", kind="benign", props=["C13", "C20"], informational=True,
         note="a for/else rewrite of the retry loop: the loop contract is attached to the `while`; expected UNDECIDED, never VIOLATION",
         edits=[(TRANSPORT, "    while retries > 0:\n", "    for attempt in range(retries, 0, -1):\n"),
                (TRANSPORT, "            if retries == 1:\n                raise\n            retries -= 1\n            LOG.debug(\"Resending UDP packet. %d retries left\", retries)",
                 "            if attempt == 1:\n                raise\n            LOG.debug(\"Resending UDP packet. %d retries left\", attempt - 1)")]),
    dict(id="benign-debug-log-pure-args", kind="benign", props=["C05", "C09", "C10", "C12"],
         edits=[(V3, "        message = Message.decode(whole_msg)\n", "        message = Message.decode(whole_msg)\n        LOG_V3.debug(\"received %d octets, message id %s\", len(whole_msg), message.header.message_id)\n"),
                (V3, "IDENTIFIER = 3\n", "IDENTIFIER = 3\nimport logging\nLOG_V3 = logging.getLogger(__name__)\n")]),
    # ------------------------------------------------------------------ breaking (Appendix B; not already among seeded/)
    dict(id="break-group-stride", kind="breaking", props=["C01", "C02"],
         edits=[(UTIL, "varbinds[i::n]", "varbinds[i :: n + 1]")]),
    dict(id="break-dedupe-no-containment", kind="breaking", props=["C01", "C02"],
         edits=[(RAW, "            if not any(containment) or varbind.oid in yielded:", "            if varbind.oid in yielded:")]),
    dict(id="break-while-to-if", kind="breaking", props=["C01", "C02"],
         edits=[(RAW, "        while unfinished_oids:\n            next_fetches", "        for _once in unfinished_oids[:1]:\n            next_fetches")]),
    dict(id="break-dedupe-no-yielded-test", kind="breaking", props=["C02"],
         edits=[(RAW, "            if not any(containment) or varbind.oid in yielded:", "            if not any(containment):")]),
    dict(id="break-bulkget-size", kind="breaking", props=["C02", "C04"],
         edits=[(RAW, "expected_max_varbinds = n + (m * r)", "expected_max_varbinds = n + m")], optional_edit=True),
    dict(id="break-strict-lenient-swapped", kind="breaking", props=["C03"],
         edits=[(RAW, "        if errors == ERRORS_WARN:\n            LOG.warning(\n                \"SNMP walk aborted prematurely due to faulty SNMP \"\n                \"implementation on device %r: %s\",",
                 "        if errors != ERRORS_WARN:\n            LOG.warning(\n                \"SNMP walk aborted prematurely due to faulty SNMP \"\n                \"implementation on device %r: %s\",")]),
    dict(id="break-multiget-reversed", kind="breaking", props=["C04"],
         edits=[(RAW, "        output = [value for _, value in response.value.varbinds]\n        if len(output) != len(oids):",
                 "        output = [value for _, value in reversed(response.value.varbinds)]\n        if len(output) != len(oids):")]),
    dict(id="break-multiget-count-lt", kind="breaking", props=["C04"],
         edits=[(RAW, "        output = [value for _, value in response.value.varbinds]\n        if len(output) != len(oids):",
                 "        output = [value for _, value in response.value.varbinds]\n        if len(output) < len(oids):")]),
    dict(id="break-get-nosuchinstance", kind="breaking", props=["C04"],
         edits=[(RAW, "        result = await self.multiget([oid])\n        if isinstance(result[0], (NoSuchObject, NoSuchInstance)):",
                 "        result = await self.multiget([oid])\n        if isinstance(result[0], NoSuchObject):")]),
    dict(id="break-send-no-id-validation", kind="breaking", props=["C07"],
         edits=[(RAW, "        validate_response_id(request_id, response.value.request_id)\n        return response", "        return response")]),
    dict(id="break-error-index-off-by-one", kind="breaking", props=["C08"],
         edits=[(PDU, "varbinds[error_index.value - 1]", "varbinds[error_index.value]")], optional_edit=True),
    dict(id="break-counter-mask", kind="breaking", props=["C17"],
         edits=[(TYPES, "value &= 0xFFFFFFFF if value >= 2**32 else value", "value &= 0xFFFFFFF if value >= 2**32 else value")]),
    dict(id="break-counter-ge-to-gt", kind="breaking", props=["C17"],
         edits=[(TYPES, "value &= 0xFFFFFFFF if value >= 2**32 else value", "value &= 0xFFFFFFFF if value > 2**32 else value")]),
    dict(id="break-udp-retry-forever", kind="breaking", props=["C13"],
         edits=[(TRANSPORT, "            retries -= 1\n", "")]),
    dict(id="break-udp-raise-at-zero", kind="breaking", props=["C13"],
         edits=[(TRANSPORT, "            if retries == 1:", "            if retries == 0:")]),
    dict(id="break-reconfigure-no-finally", kind="breaking", props=["C18"],
         edits=[(RAW, "        try:\n            self.configure(**kwargs)\n            yield\n        finally:\n", "        self.configure(**kwargs)\n        yield\n        if True:\n")], optional_edit=True),
    dict(id="break-table-base-length", kind="breaking", props=["C16"],
         edits=[(RAW, "tmp, num_base_nodes=len(oid), _rowtype=_rowtype", "tmp, num_base_nodes=len(oid) + 1, _rowtype=_rowtype")], optional_edit=True),
    dict(id="break-digest-startswith", kind="breaking", props=["C09"],
         edits=[(HB, "return received_digest == expected_digest", "return expected_digest.startswith(received_digest)")], optional_edit=True),
    dict(id="break-hash-size", kind="breaking", props=["C10"],
         edits=[(UTIL, "hash_size = 1024 * 1024", "hash_size = 1024 * 1000")]),
    dict(id="break-key-padding", kind="breaking", props=["C10"],
         edits=[(UTIL, "key[:padding_length] + engine_id + key[:padding_length]", "key[:12] + engine_id + key[:12]")]),
]


def apply_case(case, root):
    for ed in case["edits"]:
        path = os.path.join(root, "src", ed[0])
        src = open(path).read()
        if callable(ed[1]):
            new = ed[1](src)
        else:
            if src.count(ed[1]) != 1:
                return "edit text found %d times in %s: %r" % (src.count(ed[1]), ed[0], ed[1][:60])
            new = src.replace(ed[1], ed[2])
        compile(new, path, "exec")
        open(path, "w").write(new)
    return None


def run_case(case):
    root = "/tmp/acc-%d-%s" % (os.getpid(), case["id"])
    shutil.rmtree(root, ignore_errors=True)
    os.makedirs(root)
    try:
        shutil.copytree("/repo/src", root + "/src")
        shutil.copytree("/repo/tests", root + "/tests")
        try:
            err = apply_case(case, root)
        except Exception as exc:
            err = "edit does not compile: %r" % (exc,)
        if err:
            return dict(id=case["id"], kind=case["kind"], status="edit-failed", detail=err)
        tests = subprocess.run(["/venv/bin/python", "-m", "pytest", "-q", "-x", "-p", "no:cacheprovider", "tests"], cwd=root, capture_output=True,
                               text=True, env=dict(os.environ, PYTHONPATH=root + "/src"), timeout=600)
        res = {}
        for p in case["props"]:
            r = subprocess.run(["./check", p, "quick"], cwd="/verif", capture_output=True, text=True, env=dict(os.environ, PYVC_REPO=root, PYVC_OUT=root + "/out"),
                               timeout=3600)
            first = next((l for l in r.stdout.splitlines() if l.startswith(("VIOLATION", "UNDECIDED", "CHECKER"))), "")
            res[p] = dict(exit=r.returncode, first=first[:300])
        exits = [v["exit"] for v in res.values()]
        if case["kind"] == "benign":
            ok = all(e == 0 for e in exits)
        else:
            ok = any(e == 1 for e in exits) and not any(e == 3 for e in exits)
        return dict(id=case["id"], kind=case["kind"], status="as-expected" if ok else "UNEXPECTED", suite_passes=tests.returncode == 0,
                    informational=bool(case.get("informational")), checks=res, note=case.get("note", ""))
    finally:
        shutil.rmtree(root, ignore_errors=True)


def main(argv):
    cases = [c for c in CASES if not argv or c["id"] in argv]
    out = []
    with cf.ThreadPoolExecutor(max_workers=int(os.environ.get("ACC_JOBS", "2"))) as ex:
        for r in ex.map(run_case, cases):
            out.append(r)
            print(r["id"], r["status"], {p: v["exit"] for p, v in r.get("checks", {}).items()}, r.get("detail", ""),
                  "" if r.get("suite_passes", True) else "(existing suite notices it)", flush=True)
            for p, v in r.get("checks", {}).items():
                if r["status"] == "UNEXPECTED" and v["first"]:
                    print("    ", p, v["first"][:260])
    os.makedirs("/verif/acceptance", exist_ok=True)
    path = "/verif/acceptance/results.json"
    old = {}
    if os.path.exists(path):
        old = {r["id"]: r for r in json.load(open(path))}
    for r in out:
        old[r["id"]] = r
    json.dump(sorted(old.values(), key=lambda r: r["id"]), open(path, "w"), indent=1)
    bad = [r["id"] for r in out if r["status"] != "as-expected" and not r.get("informational")]
    print("ACCEPTANCE: %d cases, %d unexpected %s" % (len(out), len(bad), bad))
    return 1 if bad else 0


if __name__ == "__main__":
    sys.exit(main(sys.argv[1:]))
