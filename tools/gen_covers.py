#!/usr/bin/env python3
"""Record, per property and unit, the success outcomes reachable on the CURRENT tree (run after `tools/run_all.sh <tier>` on the
unchanged tree): covers.json is the reference of the cover guard in pyvc/vu.py.  Entries of other tiers are kept."""
import glob
import json
import os
import sys

sys.path.insert(0, os.path.join(os.path.dirname(__file__), ".."))
from pyvc.vu import is_cover     # noqa: E402

root = os.path.join(os.path.dirname(__file__), "..")
path = os.path.join(root, "covers.json")
covers = json.load(open(path)) if os.path.exists(path) else {}
for f in sorted(glob.glob(os.path.join(root, "evidence", "C*.json"))):
    d = json.load(open(f))
    prop = d["property_id"]
    if d["coverage"].get("exit_code") != 0:
        print("skip", prop, "(last run did not exit 0)")
        continue
    for u in d["coverage"]["units"]:
        kinds = sorted(k for k in (u.get("outcomes") or {}) if is_cover(k))
        if kinds:
            covers.setdefault(prop, {})[u["unit"]] = kinds
json.dump(covers, open(path, "w"), indent=0, sort_keys=True)
print("covers for", len(covers), "properties,", sum(len(v) for v in covers.values()), "units")
