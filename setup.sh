#!/bin/sh
# Offline setup: nothing to build - the engine is pure Python run under python3-vt (z3-solver wheel pre-installed).
# Verifies the tool chain is present and (thorough only, on demand) lets `lean` re-check the OID lemma file.
set -e
cd "$(dirname "$0")"
python3-vt -c "import z3, sys; assert z3.get_version_string() >= '4.8'; print('z3', z3.get_version_string())"
test -x /usr/bin/cvc5 && echo "cvc5 present"
mkdir -p evidence replays
echo setup-ok
