"""
Reference SNMP agent (v1, v2c, v3/USM) behind the ``Client(sender=...)`` seam.

Written from RFC 1157, RFC 3416 (4.2.1-4.2.3), RFC 3412 (6, 7.1), RFC 3414 (3, 6, A.2).
It is independent of puresnmp and x690 (only ``refagent.ber`` is used).  Roles:
replaying counterexamples, driving bounded stand-ins, validating assumed contracts.
It never decides a property.
"""
import bisect
import hashlib
import hmac

from . import ber

END = ("null", ber.ENDOFMIBVIEW)
NSO = ("null", ber.NOSUCHOBJECT)
NSI = ("null", ber.NOSUCHINSTANCE)


def oid(text):
    return tuple(int(x) for x in text.strip(".").split("."))


class Database:
    def __init__(self, items):
        items = sorted((tuple(o), v) for o, v in items)
        self.oids = [o for o, _ in items]
        self.vals = dict(items)

    def get(self, o):
        return self.vals.get(tuple(o))

    def succ(self, o):
        i = bisect.bisect_right(self.oids, tuple(o))
        if i < len(self.oids):
            return self.oids[i]
        return None

    def set(self, o, v):
        o = tuple(o)
        if o not in self.vals:
            bisect.insort(self.oids, o)
        self.vals[o] = v


class Agent:
    """PDU-level behaviour (RFC 3416 4.2); version wrappers are below."""

    def __init__(self, db, truncate=None, misbehave=None):
        self.db = db if isinstance(db, Database) else Database(db)
        #: truncate(bindings, n, m, r) -> number of bindings to keep (>= 1); None = full
        self.truncate = truncate
        #: misbehave(pdu_dict, response_varbinds) -> response_varbinds / (status, index, vbs)
        self.misbehave = misbehave
        self.log = []

    def handle_pdu(self, pdu, version):
        self.log.append(pdu)
        tag, vbs = pdu["tag"], pdu["varbinds"]
        status = index = 0
        out = []
        if tag == ber.GET:
            for o, _ in vbs:
                v = self.db.get(o)
                if v is None:
                    if version == 0:
                        status, index = 2, len(out) + 1
                        out = list(vbs)
                        break
                    v = NSI if any(x[:len(o) - 1] == tuple(o)[:len(o) - 1] for x in self.db.oids) else NSO
                out.append((o, v))
        elif tag == ber.GETNEXT:
            for o, _ in vbs:
                s = self.db.succ(o)
                if s is None:
                    if version == 0:
                        status, index = 2, len(out) + 1
                        out = list(vbs)
                        break
                    out.append((o, END))
                else:
                    out.append((s, self.db.get(s)))
        elif tag == ber.SET:
            for o, v in vbs:
                self.db.set(o, v)
                out.append((o, v))
        elif tag == ber.GETBULK:
            n = max(min(pdu["f1"], len(vbs)), 0)
            m = max(pdu["f2"], 0)
            r = len(vbs) - n
            for o, _ in vbs[:n]:
                s = self.db.succ(o)
                out.append((o, END) if s is None else (s, self.db.get(s)))
            cur = [o for o, _ in vbs[n:]]
            for _rep in range(m):
                row = []
                for j in range(r):
                    s = self.db.succ(cur[j])
                    if s is None:
                        row.append((cur[j], END))
                    else:
                        row.append((s, self.db.get(s)))
                        cur[j] = s
                out.extend(row)
                if r and all(v == END for _, v in row):
                    break
            if self.truncate is not None and out:
                keep = max(1, min(len(out), self.truncate(out, n, m, r)))
                out = out[:keep]
        else:
            raise ber.BerError("unsupported PDU tag 0x%02x" % tag)
        if self.misbehave is not None:
            res = self.misbehave(pdu, out)
            if isinstance(res, tuple):
                status, index, out = res
            else:
                out = res
        return ber.build_pdu(ber.RESPONSE, pdu["request_id"], status, index, out)


class CommunityAgent(Agent):
    def __init__(self, db, version=1, community=b"public", rid_offset=0, form="min", **kw):
        super().__init__(db, **kw)
        self.version = version
        self.community = community
        self.rid_offset = rid_offset
        self.form = form
        self.datagrams = []
        self.send_kwargs = []

    async def __call__(self, endpoint, data, timeout=1, loop=None, retries=10):
        self.datagrams.append(bytes(data))
        self.send_kwargs.append({"timeout": timeout, "retries": retries})
        return self.respond(data)

    def respond(self, data):
        msg = ber.parse_community_message(data)
        if msg["version"] != self.version or msg["community"] != self.community:
            raise ber.BerError("authenticationFailure (agent would stay silent)")
        node = self.handle_pdu(msg["pdu"], msg["version"])
        if self.rid_offset:
            node[2][0] = ("int", ber.INT, node[2][0][2] + self.rid_offset)
        return ber.build_community_message(self.version, self.community, node, self.form)


# ------------------------------------------------------------------------- USM

def password_to_key(hashname, password, engine_id):
    """RFC 3414 A.2 (written from the RFC text, not from puresnmp)."""
    h = hashlib.new(hashname)
    count = 0
    plen = len(password)
    buf = bytearray(64)
    idx = 0
    while count < 1048576:
        for i in range(64):
            buf[i] = password[idx % plen]
            idx += 1
        h.update(bytes(buf))
        count += 64
    ku = h.digest()
    return hashlib.new(hashname, ku + engine_id + ku).digest()


def stream_cipher(key, engine_id, boots, etime, salt, data):
    """A keyed, invertible stream transform standing in for a privacy protocol (C11)."""
    out = bytearray()
    counter = 0
    seed = key + engine_id + boots.to_bytes(4, "big") + (etime & 0xFFFFFFFF).to_bytes(4, "big") + salt
    while len(out) < len(data):
        out.extend(hashlib.sha256(seed + counter.to_bytes(4, "big")).digest())
        counter += 1
    return bytes(a ^ b for a, b in zip(data, out))


class V3Agent(Agent):
    """
    noAuthNoPriv / authNoPriv / authPriv USM agent with a virtual clock.
    """
    USM_STATS = "1.3.6.1.6.3.15.1.1."

    def __init__(self, db, user=b"user", auth=None, priv=None, engine_id=b"\x80\x00\x1f\x88\x04ref-agent",
                 boots=5, clock=lambda: 1000, form="min", **kw):
        super().__init__(db, **kw)
        self.user = user
        self.auth = auth  # (hashname, password) or None
        self.priv = priv  # password or None  (stream cipher above)
        self.engine_id = engine_id
        self.boots = boots
        self.clock = clock
        self.form = form
        self.datagrams = []
        self.stats = {"unsupportedSecLevels": 0, "notInTimeWindows": 0, "unknownUserNames": 0,
                      "unknownEngineIDs": 0, "wrongDigests": 0, "decryptionErrors": 0}
        self.parsed = []
        self.salt_counter = 0

    def _kul(self):
        return password_to_key(self.auth[0], self.auth[1], self.engine_id)

    def _kpriv(self):
        return password_to_key(self.auth[0], self.priv, self.engine_id)

    def _hmac(self, whole):
        return hmac.new(self._kul(), whole, self.auth[0]).digest()[:12]

    async def __call__(self, endpoint, data, timeout=1, loop=None, retries=10):
        self.datagrams.append(bytes(data))
        return self.respond(data)

    def _report(self, msg, counter, n, level_flags=0, ctx=(b"", b"")):
        self.stats[counter] += 1
        pdu = ber.build_pdu(ber.REPORT, msg["scoped"]["pdu"]["request_id"] if "scoped" in msg else 0, 0, 0,
                            [(oid(self.USM_STATS + "%d.0" % n), ("int", ber.COUNTER32, self.stats[counter]))])
        return self._emit(msg["msg_id"], level_flags, b"" if not level_flags else self.user,
                          ber.build_scoped(self.engine_id, b"", pdu))

    def _emit(self, msg_id, flags, user, scoped_node, priv_params=b""):
        payload = scoped_node
        if flags & 2:
            self.salt_counter += 1
            priv_params = self.salt_counter.to_bytes(8, "big")
            ct = stream_cipher(self._kpriv(), self.engine_id, self.boots, self.clock(), priv_params,
                               ber.encode(scoped_node, self.form))
            payload = ("bytes", ber.OCTETS, ct)
        auth_params = b"\x00" * 12 if flags & 1 else b""
        whole = ber.build_v3_message(msg_id, 65507, flags, self.engine_id, self.boots, self.clock(), user,
                                     auth_params, priv_params, payload, self.form)
        if flags & 1:
            digest = self._hmac(whole)
            whole2 = ber.build_v3_message(msg_id, 65507, flags, self.engine_id, self.boots, self.clock(), user,
                                          digest, priv_params, payload, self.form)
            assert len(whole2) == len(whole)
            whole = whole2
        return whole

    def respond(self, data):
        msg = ber.parse_v3_message(data)
        self.parsed.append(msg)
        flags = msg["flags"]
        if msg["engine_id"] != self.engine_id:
            return self._report(msg, "unknownEngineIDs", 4)
        if msg["user"] != self.user:
            return self._report(msg, "unknownUserNames", 3)
        want = (1 if self.auth else 0) | (2 if self.priv else 0)
        if (flags & 3) != want:
            return self._report(msg, "unsupportedSecLevels", 1)
        if flags & 1:
            zeroed = self._rebuild_zeroed(data, msg)
            if zeroed is None or not hmac.compare_digest(self._hmac(zeroed), msg["auth_params"]):
                return self._report(msg, "wrongDigests", 5)
            if msg["boots"] != self.boots or abs(msg["time"] - self.clock()) > 150:
                return self._report(msg, "notInTimeWindows", 2, level_flags=1)
        if flags & 2:
            try:
                clear = stream_cipher(self._kpriv(), msg["engine_id"], msg["boots"], msg["time"],
                                      msg["priv_params"], msg["encrypted"])
                msg["scoped"] = ber.parse_scoped(ber.decode_all(clear))
            except ber.BerError:
                return self._report(msg, "decryptionErrors", 6, level_flags=1)
        scoped = msg["scoped"]
        node = self.handle_pdu(scoped["pdu"], 3)
        return self._emit(msg["msg_id"], flags & 3, self.user,
                          ber.build_scoped(scoped["context_engine_id"], scoped["context_name"], node))

    @staticmethod
    def _rebuild_zeroed(data, msg):
        """The message as sent with the 12 digest octets replaced by zeros (located, not re-encoded)."""
        ap = msg["auth_params"]
        if len(ap) != 12:
            return None
        needle = b"\x04\x0c" + ap
        pos = data.find(needle)
        if pos < 0 or data.find(needle, pos + 1) >= 0:
            return None
        return data[:pos + 2] + b"\x00" * 12 + data[pos + 14:]

    def discovery_reply(self, data):
        msg = ber.parse_v3_message(data)
        return self._report(msg, "unknownEngineIDs", 4)
