"""
Independent BER codec for the subset of X.690 that SNMP uses (RFC 3417 section 8).

Written from X.690 / RFC 1157 / RFC 3416 / RFC 3412 / RFC 3414; shares no code with
the x690 package or with puresnmp.  Used only by the reference agent, by the replay
harness and by the bounded stand-ins -- never to decide a property.

A decoded value is a plain tuple tree:

    ("int", tagbyte, value)            INTEGER, Counter32, Gauge32, TimeTicks, Counter64
    ("bytes", tagbyte, b"...")         OCTET STRING, IpAddress, Opaque
    ("null", tagbyte)                  NULL and the three exception markers
    ("oid", (arc, arc, ...))           OBJECT IDENTIFIER
    ("seq", tagbyte, [children])       SEQUENCE and every constructed context tag (PDUs)
"""

INT, OCTETS, NULL, OID, SEQ = 0x02, 0x04, 0x05, 0x06, 0x30
IPADDR, COUNTER32, GAUGE32, TIMETICKS, OPAQUE, COUNTER64 = (
    0x40, 0x41, 0x42, 0x43, 0x44, 0x46)
NOSUCHOBJECT, NOSUCHINSTANCE, ENDOFMIBVIEW = 0x80, 0x81, 0x82
GET, GETNEXT, RESPONSE, SET, GETBULK, INFORM, TRAP2, REPORT = (
    0xA0, 0xA1, 0xA2, 0xA3, 0xA5, 0xA6, 0xA7, 0xA8)

UNSIGNED_TAGS = {COUNTER32, GAUGE32, TIMETICKS, COUNTER64}
INT_TAGS = {INT} | UNSIGNED_TAGS
BYTES_TAGS = {OCTETS, IPADDR, OPAQUE}
NULL_TAGS = {NULL, NOSUCHOBJECT, NOSUCHINSTANCE, ENDOFMIBVIEW}


class BerError(Exception):
    pass


# --------------------------------------------------------------------- encoding

def enc_len(n, form="min"):
    """Length octets. form: "min", or an int k>=1 forcing the long form with k octets."""
    if form == "min":
        if n < 128:
            return bytes([n])
        body = n.to_bytes((n.bit_length() + 7) // 8, "big")
        return bytes([0x80 | len(body)]) + body
    k = int(form)
    return bytes([0x80 | k]) + n.to_bytes(k, "big")


def tlv(tag, content, form="min"):
    return bytes([tag]) + enc_len(len(content), form) + content


def enc_int_content(v, signed=True):
    if signed:
        n = 1
        while not (-(1 << (8 * n - 1)) <= v < (1 << (8 * n - 1))):
            n += 1
        return v.to_bytes(n, "big", signed=True)
    if v < 0:
        raise BerError("negative unsigned")
    # application-wide unsigned types are still encoded as two's complement INTEGERs
    n = 1
    while v >= (1 << (8 * n - 1)):
        n += 1
    return v.to_bytes(n, "big", signed=False)


def enc_int(v, tag=INT, form="min"):
    return tlv(tag, enc_int_content(v, True), form)


def enc_oid_content(arcs):
    if len(arcs) < 2:
        raise BerError("BER cannot encode an OID with fewer than two arcs")
    first = arcs[0] * 40 + arcs[1]
    out = bytearray()
    for sub in (first,) + tuple(arcs[2:]):
        chunk = [sub & 0x7F]
        sub >>= 7
        while sub:
            chunk.append((sub & 0x7F) | 0x80)
            sub >>= 7
        out.extend(reversed(chunk))
    return bytes(out)


def enc_oid(arcs, form="min"):
    return tlv(OID, enc_oid_content(tuple(arcs)), form)


def encode(node, form="min"):
    kind = node[0]
    if kind == "int":
        return tlv(node[1], enc_int_content(node[2], True), form)
    if kind == "bytes":
        return tlv(node[1], node[2], form)
    if kind == "null":
        return tlv(node[1], b"", form)
    if kind == "oid":
        return enc_oid(node[1], form)
    if kind == "seq":
        return tlv(node[1], b"".join(encode(c, form) for c in node[2]), form)
    raise BerError("unknown node %r" % (node,))


# --------------------------------------------------------------------- decoding

def dec_len(data, pos):
    if pos >= len(data):
        raise BerError("truncated length")
    b0 = data[pos]
    if b0 < 0x80:
        return b0, pos + 1
    k = b0 & 0x7F
    if k == 0:
        raise BerError("indefinite length is not allowed in SNMP")
    if pos + 1 + k > len(data):
        raise BerError("truncated long length")
    return int.from_bytes(data[pos + 1:pos + 1 + k], "big"), pos + 1 + k


def dec_oid_content(content):
    if not content:
        raise BerError("empty OID")
    subs = []
    cur = 0
    for i, b in enumerate(content):
        cur = (cur << 7) | (b & 0x7F)
        if not b & 0x80:
            subs.append(cur)
            cur = 0
        elif i == len(content) - 1:
            raise BerError("truncated sub-identifier")
    first = subs[0]
    if first < 40:
        arcs = (0, first)
    elif first < 80:
        arcs = (1, first - 40)
    else:
        arcs = (2, first - 80)
    return arcs + tuple(subs[1:])


def decode(data, pos=0):
    """Decode one TLV at pos; returns (node, next_pos)."""
    if pos >= len(data):
        raise BerError("truncated tag")
    tag = data[pos]
    if tag & 0x1F == 0x1F:
        raise BerError("high tag numbers are not used by SNMP")
    length, start = dec_len(data, pos + 1)
    end = start + length
    if end > len(data):
        raise BerError("content runs past the end of the data")
    content = data[start:end]
    if tag & 0x20:
        children = []
        p = start
        while p < end:
            child, p = decode(data[:end], p)
            children.append(child)
        return ("seq", tag, children), end
    if tag in INT_TAGS:
        if not content:
            raise BerError("empty INTEGER")
        # application-wide unsigned types: two's complement as sent; a leading zero octet is
        # how values >= 2^(8n-1) are sent.  Agents that drop it are read as unsigned.
        signed = tag == INT
        return ("int", tag, int.from_bytes(content, "big", signed=signed)), end
    if tag in NULL_TAGS:
        return ("null", tag), end
    if tag == OID:
        return ("oid", dec_oid_content(content)), end
    return ("bytes", tag, bytes(content)), end


def decode_all(data):
    node, nxt = decode(data, 0)
    if nxt != len(data):
        raise BerError("trailing octets")
    return node


# ------------------------------------------------------------------- SNMP views

def parse_pdu(node):
    """("seq", tag, [rid, a, b, [[oid, val] ...]]) -> dict"""
    if node[0] != "seq" or len(node[2]) != 4:
        raise BerError("not a PDU: %r" % (node,))
    rid, a, b, vbl = node[2]
    if rid[0] != "int" or a[0] != "int" or b[0] != "int" or vbl[0] != "seq" or vbl[1] != SEQ:
        raise BerError("malformed PDU fields")
    vbs = []
    for vb in vbl[2]:
        if vb[0] != "seq" or vb[1] != SEQ or len(vb[2]) != 2 or vb[2][0][0] != "oid":
            raise BerError("malformed varbind")
        vbs.append((vb[2][0][1], vb[2][1]))
    return {"tag": node[1], "request_id": rid[2], "f1": a[2], "f2": b[2], "varbinds": vbs}


def build_pdu(tag, request_id, f1, f2, varbinds):
    return ("seq", tag, [("int", INT, request_id), ("int", INT, f1), ("int", INT, f2),
                         ("seq", SEQ, [("seq", SEQ, [("oid", tuple(o)), v]) for o, v in varbinds])])


def parse_community_message(data):
    node = decode_all(data)
    if node[0] != "seq" or node[1] != SEQ or len(node[2]) != 3:
        raise BerError("not a community message")
    ver, comm, pdu = node[2]
    if ver[0] != "int" or comm[0] != "bytes" or comm[1] != OCTETS:
        raise BerError("bad header")
    return {"version": ver[2], "community": comm[2], "pdu": parse_pdu(pdu)}


def build_community_message(version, community, pdu_node, form="min"):
    return encode(("seq", SEQ, [("int", INT, version), ("bytes", OCTETS, community), pdu_node]), form)


def parse_v3_message(data):
    node = decode_all(data)
    if node[0] != "seq" or node[1] != SEQ or len(node[2]) != 4:
        raise BerError("not a v3 message")
    ver, hdr, secp, payload = node[2]
    if ver[0] != "int" or ver[2] != 3:
        raise BerError("version")
    if hdr[0] != "seq" or len(hdr[2]) != 4:
        raise BerError("header")
    mid, mms, flags, model = hdr[2]
    if flags[0] != "bytes" or len(flags[2]) != 1:
        raise BerError("flags")
    if secp[0] != "bytes" or secp[1] != OCTETS:
        raise BerError("security parameters")
    usm = decode_all(secp[2])
    if usm[0] != "seq" or len(usm[2]) != 6:
        raise BerError("usm parameters")
    eid, boots, etime, user, authp, privp = usm[2]
    out = {
        "msg_id": mid[2], "max_size": mms[2], "flags": flags[2][0], "model": model[2],
        "engine_id": eid[2], "boots": boots[2], "time": etime[2], "user": user[2],
        "auth_params": authp[2], "priv_params": privp[2],
        "raw_secparams": secp[2],
    }
    if payload[0] == "bytes":
        out["encrypted"] = payload[2]
    else:
        out["scoped"] = parse_scoped(payload)
    return out


def parse_scoped(node):
    if node[0] != "seq" or node[1] != SEQ or len(node[2]) != 3:
        raise BerError("scoped pdu")
    ceid, cname, pdu = node[2]
    return {"context_engine_id": ceid[2], "context_name": cname[2], "pdu": parse_pdu(pdu)}


def build_scoped(context_engine_id, context_name, pdu_node):
    return ("seq", SEQ, [("bytes", OCTETS, context_engine_id), ("bytes", OCTETS, context_name), pdu_node])


def build_v3_message(msg_id, max_size, flags, engine_id, boots, etime, user, auth_params,
                     priv_params, payload_node, form="min"):
    usm = encode(("seq", SEQ, [("bytes", OCTETS, engine_id), ("int", INT, boots), ("int", INT, etime),
                               ("bytes", OCTETS, user), ("bytes", OCTETS, auth_params),
                               ("bytes", OCTETS, priv_params)]), form)
    return encode(("seq", SEQ, [
        ("int", INT, 3),
        ("seq", SEQ, [("int", INT, msg_id), ("int", INT, max_size), ("bytes", OCTETS, bytes([flags])),
                      ("int", INT, 3)]),
        ("bytes", OCTETS, usm),
        payload_node,
    ]), form)
