"""
C17 (and the registration-table half of C06): SNMP application types.

  Counter(v) / Counter64(v)   value = 0 if v <= 0 else v mod 2^32 (2^64)      -- integer VC, all integers
  TimeTicks(timedelta)        value = microseconds div 10^4                    -- exact integer arithmetic
  TimeTicks(n).pythonize()    timedelta of exactly 10^4 * n microseconds       -- float code, real relaxation
  IpAddress                   decode_raw(encode_raw(ip)) = ip, 4 octets
  registration data           TYPECLASS / TAG / NATURE / SIGNED / base class of every application type and of the
                              three exception markers equal the RFC 2578 / RFC 3416 table
"""
import z3

from pyvc import core, stdlib
from pyvc.core import And, Or, Not, Implies, lift_bool, lift_int, Undecided, SInt, zint
from pyvc.objects import Obj, NT, PyExc, PDict, PyClass, Builtin, BoundMethod
from pyvc.vu import VU
from .common import oname, get_cls, exc_is, get_func


class TypesBase(VU):
    props = ("C17",)
    label = "proved"

    def setup(self, rt, interp):
        self.rt = rt
        stdlib.install_numeric_models(rt, interp)


class CounterInit(TypesBase):
    def __init__(self, cls, bits):
        self.cls_name, self.bits = cls, bits
        self.target = "puresnmp.types:%s.__init__" % cls
        self.functions = (self.target,)
        self.name = "%s.__init__[any integer]" % cls

    def run(self, interp):
        ctx, rt = interp.ctx, self.rt
        v = ctx.fresh_int("v")
        cls = get_cls(rt, interp, "puresnmp.types:" + self.cls_name)
        exc = obj = None
        try:
            obj = rt.instantiate(interp, cls, [v], {})
        except PyExc as pe:
            exc = pe.obj
        ctx.check(oname("C17", self.target, "ensures", "accepts-every-integer"), exc is None)
        if exc is not None:
            return "raises"
        got = obj.fields.get("pyvalue")
        M = 2 ** self.bits
        want = z3.If(v.e <= 0, 0, v.e % M)
        ctx.check(oname("C17", self.target, "ensures", "value-is-0-for-negative-else-v-mod-2^%d" % self.bits),
                  lift_bool(zint(got) == want))
        ctx.check(oname("C17", self.target, "ensures", "value-in-range"), And(got >= 0, got < M) if isinstance(got, SInt) else 0 <= got < M)
        return "returns"

    def witness(self, ob, model):
        from pyvc.vu import model_values
        v = model_values(model).get("v!0")
        if v is None:
            return None
        return {"kind": "pycall", "setup": "from puresnmp.types import %s" % self.cls_name, "expr": "%s(%d).value" % (self.cls_name, v),
                "expected": "0 if %d <= 0 else %d %% 2**%d" % (v, v, self.bits)}


class TicksFromTimedelta(TypesBase):
    target = "puresnmp.types:TimeTicks.__init__"
    functions = (target,)
    name = "TimeTicks.__init__[timedelta]"

    def run(self, interp):
        ctx, rt = interp.ctx, self.rt
        us = ctx.fresh_int("microseconds")
        ctx.assume(And(us >= 0, us < 2 ** 32 * 10 ** 4))
        td = Obj(rt.td_cls, {"us": us})
        cls = get_cls(rt, interp, "puresnmp.types:TimeTicks")
        obj = rt.instantiate(interp, cls, [td], {})
        got = obj.fields.get("pyvalue")
        ok = isinstance(got, (int, SInt))
        ctx.check(oname("C17", self.target, "ensures", "value-is-an-integer"), ok)
        if ok:
            ctx.check(oname("C17", self.target, "ensures", "exact-ticks(no-tick-gained-or-lost)"),
                      lift_bool(zint(got) == us.e / 10 ** 4))
        return "returns"

    def witness(self, ob, model):
        return {"kind": "timeticks-from-timedelta"}


class TicksFromInt(TypesBase):
    target = "puresnmp.types:TimeTicks.__init__"
    functions = (target,)
    name = "TimeTicks.__init__[int]"

    def run(self, interp):
        ctx, rt = interp.ctx, self.rt
        n = ctx.fresh_int("ticks")
        cls = get_cls(rt, interp, "puresnmp.types:TimeTicks")
        obj = rt.instantiate(interp, cls, [n], {})
        ctx.check(oname("C17", self.target, "ensures", "integer-ticks-are-kept"), interp.eq(obj.fields.get("pyvalue"), n))
        return "returns"


class TicksPythonize(TypesBase):
    props = ("C17", "C15", "C19")  # C15/C19: the wrapper and the trap view hand out a timedelta for every TimeTicks value, 0 included
    target = "puresnmp.types:TimeTicks.pythonize"
    functions = (target,)

    def __init__(self, received=False):
        self.received = received
        self.name = "TimeTicks.pythonize[0 <= n < 2^32%s]" % (", value as decoded from the wire (lazily)" if received else "")

    def run(self, interp):
        ctx, rt = interp.ctx, self.rt
        n = ctx.fresh_int("ticks")
        ctx.assume(And(n >= 0, n < 2 ** 32))
        cls = get_cls(rt, interp, "puresnmp.types:TimeTicks")
        if self.received:
            # the object x690.decode leaves: no Python value yet, the content octets are decoded on first use
            from pyvc import x690model
            from pyvc.wire import WTlv, WInt
            obj = x690model.install(rt, interp).obj_for(interp, WTlv(0x43, WInt(n), "min"))
            for p in self.props:
                ctx.check(oname(p, self.target, "requires", "decoded-as-a-TimeTicks"), isinstance(obj, Obj) and obj.cls is cls)
            if not (isinstance(obj, Obj) and obj.cls is cls):
                return "?"
        else:
            obj = Obj(cls, {"pyvalue": n, "_raw_bytes": b""})
        res = interp.call(rt.getattr(interp, obj, "pythonize"), [], {})
        ok = isinstance(res, Obj) and res.cls is rt.td_cls
        for p in self.props:
            ctx.check(oname(p, self.target, "ensures", "result-is-a-timedelta"), ok)
            if ok:
                ctx.check(oname(p, self.target, "ensures", "exactly-n-hundredths-of-a-second"),
                          lift_bool(zint(res.fields["us"]) == n.e * 10 ** 4))
        return "returns"

    def witness(self, ob, model):
        from pyvc.vu import model_values
        n = model_values(model).get("ticks!0", 0)      # (a value the model leaves open: 0)
        return {"kind": "pycall", "setup": "from puresnmp.types import TimeTicks\nfrom datetime import timedelta",
                "expr": "TimeTicks(%d).pythonize()" % n, "expected": "timedelta(milliseconds=10 * %d)" % n}


class IpRoundTrip(TypesBase):
    target = "puresnmp.types:IpAddress.encode_raw"
    functions = ("puresnmp.types:IpAddress.encode_raw", "puresnmp.types:IpAddress.decode_raw")
    name = "IpAddress.encode_raw/decode_raw[all 2^32 addresses]"

    def run(self, interp):
        ctx, rt = interp.ctx, self.rt
        n = ctx.fresh_int("ip")
        ctx.assume(And(n >= 0, n < 2 ** 32))
        ip = Obj(rt.ip4_cls, {"n": n})
        cls = get_cls(rt, interp, "puresnmp.types:IpAddress")
        obj = Obj(cls, {"pyvalue": ip, "_raw_bytes": b""})
        raw = interp.call(rt.getattr(interp, obj, "encode_raw"), [], {})
        ctx.check(oname("C17", self.target, "ensures", "four-octets"), interp.eq(interp.call(rt.builtins["len"], [raw], {}), 4))
        dec = get_func(rt, interp, "puresnmp.types:IpAddress.decode_raw")
        back = interp.call(dec, [raw], {})
        ok = isinstance(back, Obj) and back.cls is rt.ip4_cls
        ctx.check(oname("C17", "puresnmp.types:IpAddress.decode_raw", "ensures", "result-is-an-IPv4Address"), ok)
        if ok:
            ctx.check(oname("C17", "puresnmp.types:IpAddress.decode_raw", "ensures", "round-trip-is-the-identity"),
                      interp.eq(back.fields["n"], n))
        return "returns"


# RFC 2578 section 7.1 / RFC 3416 section 3: (class, tag, constructed?, signed?, base)
TABLE = {
    "puresnmp.types:IpAddress": ("application", 0, ["primitive", "constructed"], None, "X690Type"),
    "puresnmp.types:Counter": ("application", 1, ["primitive"], False, "Integer"),
    "puresnmp.types:Gauge": ("application", 2, ["primitive"], False, "Integer"),
    "puresnmp.types:TimeTicks": ("application", 3, ["primitive"], False, "Integer"),
    "puresnmp.types:Opaque": ("application", 4, ["primitive", "constructed"], None, "OctetString"),
    "puresnmp.types:Counter64": ("application", 6, ["primitive"], False, "Integer"),
    "puresnmp.pdu:NoSuchObject": ("context", 0, ["primitive"], None, "X690Type"),
    "puresnmp.pdu:NoSuchInstance": ("context", 1, ["primitive"], None, "X690Type"),
    "puresnmp.pdu:EndOfMibView": ("context", 2, ["primitive"], None, "X690Type"),
    "puresnmp.pdu:GetRequest": ("context", 0, ["constructed"], None, "PDU"),
    "puresnmp.pdu:GetNextRequest": ("context", 1, ["constructed"], None, "PDU"),
    "puresnmp.pdu:GetResponse": ("context", 2, ["constructed"], None, "PDU"),
    "puresnmp.pdu:SetRequest": ("context", 3, ["constructed"], None, "PDU"),
    "puresnmp.pdu:BulkGetRequest": ("context", 5, ["constructed"], None, "PDU"),
    "puresnmp.pdu:InformRequest": ("context", 6, ["constructed"], None, "PDU"),
    "puresnmp.pdu:Trap": ("context", 7, ["constructed"], None, "PDU"),
    "puresnmp.pdu:Report": ("context", 8, ["constructed"], None, "PDU"),
}


class RegistrationTable(VU):
    """A contract on data: the class-level constants read from the class bodies equal the RFC table."""
    label = "proved"
    functions = tuple("data:" + k for k in TABLE)
    name = "registration table (TYPECLASS, TAG, NATURE, SIGNED, base class)"

    def __init__(self, prop):
        self.props = (prop,)
        self.prop = prop

    def setup(self, rt, interp):
        self.rt = rt

    def run(self, interp):
        ctx, rt = interp.ctx, self.rt

        def enum_val(v):
            return v.fields["value"] if isinstance(v, Obj) and v.fields.get("_enum") else v
        for spec, (tc, tag, nature, signed, base) in TABLE.items():
            info = rt.program.find_class(spec)
            short = spec.split(":")[1]
            if info is None:
                ctx.check("%s/%s/data:class-exists" % (self.prop, short), False)
                continue
            cls = rt.get_class(info, interp)
            _, got_tc = rt.class_attr(interp, cls, "TYPECLASS")
            _, got_tag = rt.class_attr(interp, cls, "TAG")
            _, got_nat = rt.class_attr(interp, cls, "NATURE")
            ctx.check("%s/%s/data:typeclass-and-tag" % (self.prop, short), enum_val(got_tc) == tc and got_tag == tag)
            ctx.check("%s/%s/data:nature" % (self.prop, short),
                      isinstance(got_nat, list) and [enum_val(x) for x in got_nat] == nature)
            if signed is not None:
                _, got_signed = rt.class_attr(interp, cls, "SIGNED")
                ctx.check("%s/%s/data:unsigned" % (self.prop, short), got_signed is False)
            ctx.check("%s/%s/data:base-class" % (self.prop, short), any(c.name == base for c in cls.mro()))
        return "checked"


def units(tier):
    return units_codec(tier) + [CounterInit("Counter", 32), CounterInit("Counter64", 64), TicksFromTimedelta(), TicksFromInt(),
            TicksPythonize(), TicksPythonize(received=True), IpRoundTrip(), RegistrationTable("C17")]


def units_table_c06(tier):
    return [RegistrationTable("C06")]


class OctList:
    """bytes built from a list of (symbolic) octet values"""

    def __init__(self, octs):
        self.octs = list(octs)


class IntegerCodec(TypesBase):
    """x690 Integer.encode_raw / decode_raw verified FROM THE SITE-PACKAGES SOURCE: the two loops of encode_raw are unrolled
    to the operand width (|v| < 2^72 covers Counter64 and every SNMP integer); round trip and minimal two's complement."""
    label = "proved (|v| < 2^72: loops unrolled to the operand width, unwinding complete)"

    def __init__(self, cls_spec, signed):
        self.cls_spec, self.signed = cls_spec, signed
        self.target = "x690.types:Integer.encode_raw"
        self.functions = ("x690.types:Integer.encode_raw", "x690.types:Integer.decode_raw")
        self.props = ("C17", "C06", "C05")
        self.name = "x690 Integer codec as %s[%s]" % (cls_spec.split(":")[1], "|v| < 2^72" if signed else "0 <= v < 2^72")

    def setup(self, rt, interp):
        TypesBase.setup(self, rt, interp)
        interp.unroll_limit = 16
        rt.hooks["bytes(list)"] = lambda i, items: OctList(items)
        rt.len_hooks["OctList"] = lambda rt_, i, v: len(v.octs)
        rt.getslice_hooks["OctList"] = lambda rt_, i, c, lo, hi, st: c if (lo, hi, st) == (None, None, None) else (_ for _ in ()).throw(Undecided("slice"))
        stdlib.TYPE_NAMES["bytes"] = tuple(set(stdlib.TYPE_NAMES["bytes"]) | {OctList})

        def from_bytes(i, data, order_, signed):
            if not isinstance(data, OctList) or order_ != "big":
                raise Undecided("int.from_bytes on %r" % (data,))
            n = len(data.octs)
            total = z3.IntVal(0)
            for k, b in enumerate(data.octs):
                total = total + zint(b) * (256 ** (n - 1 - k))
            if signed and n:
                total = z3.If(zint(data.octs[0]) >= 128, total - 256 ** n, total)
            return lift_int(total)
        rt.hooks["int.from_bytes"] = from_bytes

    def run(self, interp):
        ctx, rt = interp.ctx, self.rt
        v = ctx.fresh_int("v")
        lim = 2 ** 72
        ctx.assume(And(v < lim, v >= (-lim if self.signed else 0)))
        cls = get_cls(rt, interp, self.cls_spec)
        obj = Obj(cls, {"pyvalue": v, "_raw_bytes": b""})
        enc = interp.call(rt.getattr(interp, obj, "encode_raw"), [], {})
        ok = isinstance(enc, OctList) and len(enc.octs) >= 1
        for p in self.props:
            ctx.check(oname(p, self.target, "ensures", "content-is-at-least-one-octet"), ok)
        if not ok:
            return "?"
        n = len(enc.octs)
        conds = [And(b >= 0, b <= 255) if not isinstance(b, int) else 0 <= b <= 255 for b in enc.octs]
        # minimal two's complement: n is the least number of octets with -2^(8n-1) <= v < 2^(8n-1)
        fits = And(v >= -(2 ** (8 * n - 1)), v < 2 ** (8 * n - 1))
        minimal = True if n == 1 else Or(v < -(2 ** (8 * (n - 1) - 1)), v >= 2 ** (8 * (n - 1) - 1))
        dec = get_func(rt, interp, "x690.types:Integer.decode_raw")
        back = interp.call(BoundMethod(dec, cls) if not isinstance(dec, BoundMethod) else dec, [enc], {})
        for p in self.props:
            ctx.check(oname(p, self.target, "ensures", "octets-in-range"), And(*conds))
            ctx.check(oname(p, self.target, "ensures", "minimal-twos-complement-content"), And(fits, minimal))
            ctx.check(oname(p, "x690.types:Integer.decode_raw", "ensures", "decode(encode(v))==v"), interp.eq(back, v))
        return "returns"


class OidSubidCodec(TypesBase):
    """x690 ObjectIdentifier.encode_large_value / decode_large_value verified FROM THE SITE-PACKAGES SOURCE: one sub-identifier
    0 <= v < 2^35 (the property's 2^32 - 1 lies below) is written base-128, big-endian, in the least number of octets, bit 8 set
    on every octet but the last, and decode_large_value reads it back. The loops (one `>> 7` per octet) are unrolled to the
    operand width. The packing of the first two arcs (collapse_identifiers) is NOT covered here (findings D16 / D17 live there)."""
    label = "proved (0 <= v < 2^35: loops unrolled to the operand width, unwinding complete)"
    T_ENC = "x690.types:ObjectIdentifier.encode_large_value"
    T_DEC = "x690.types:ObjectIdentifier.decode_large_value"

    def __init__(self, props=("C05", "C06")):
        self.target = self.T_ENC
        self.functions = (self.T_ENC, self.T_DEC)
        self.props = tuple(props)
        self.name = "x690 OID sub-identifier codec[0 <= v < 2^35]"

    def setup(self, rt, interp):
        TypesBase.setup(self, rt, interp)
        interp.unroll_limit = 12

    def run(self, interp):
        ctx, rt = interp.ctx, self.rt
        v = ctx.fresh_int("v")
        ctx.assume(And(v >= 0, v < 2 ** 35))
        enc_f = get_func(rt, interp, self.T_ENC)
        enc = interp.call(enc_f, [v], {})
        items = getattr(enc, "items", enc)
        ok = isinstance(items, list) and len(items) >= 1
        for p in self.props:
            ctx.check(oname(p, self.T_ENC, "ensures", "at-least-one-octet"), ok)
        if not ok:
            return "?"
        n = len(items)
        zs = [zint(b) for b in items]
        in_range = And(*[And(b >= 0, b <= 255) for b in zs])
        cont = And(*([b >= 128 for b in zs[:-1]] + [zs[-1] < 128]))
        total = z3.IntVal(0)
        for k, b in enumerate(zs):
            total = total + (b % 128) * (128 ** (n - 1 - k))
        minimal = True if n == 1 else zs[0] != 128
        dec_f = get_func(rt, interp, self.T_DEC)
        rest = stdlib.GenResult(list(items[1:]))
        back = interp.call(dec_f, [items[0], rest], {})
        for p in self.props:
            ctx.check(oname(p, self.T_ENC, "ensures", "octets-in-range"), in_range)
            ctx.check(oname(p, self.T_ENC, "ensures", "continuation-bit-on-all-but-last"), cont)
            ctx.check(oname(p, self.T_ENC, "ensures", "base-128-big-endian-value"), total == zint(v))
            ctx.check(oname(p, self.T_ENC, "ensures", "least-number-of-octets"), minimal)
            ctx.check(oname(p, self.T_DEC, "ensures", "decode(encode(v))==v"), interp.eq(back, v))
        return "returns"


def units_codec(tier):
    return [OidSubidCodec(("C17", "C05", "C06")), IntegerCodec("x690.types:Integer", True), IntegerCodec("puresnmp.types:Counter64", False),
            IntegerCodec("puresnmp.types:Gauge", False), IntegerCodec("puresnmp.types:TimeTicks", False)]
