"""
C20: no datagram can hang the client - progress and termination of every loop that walks received bytes.

Verified from the x690 site-packages source on an ARBITRARY byte array (pyvc/bytesmodel.py):
  x690.util.decode_length / get_value_slice    progress: next_value_index > index (else an exception)
  x690.types.decode                            progress: next_tlv > start_index; exceptions only of the documented kinds
  x690.types.Sequence.decode_raw               the `while next_pos < end` loop: variant max(end - next_pos, 0), the number of
                                               decoded items is bounded by the number of bytes consumed
Static obligations read off the ASTs on every run:
  the call graph of the receive path is acyclic (no recursion: nested values are decoded lazily by loops in the callers);
  no arithmetic whose operand size grows with a loop index on unbounded integers (cost model: bignum operations are not
  unit cost) - this is where x690's decode_large_value fails (finding D19).
The puresnmp loops on the receive path (PDU.decode_raw, validate_usm_message, the error table) are `for` loops over lists
produced by the above: they terminate with the list.
"""
import ast

import z3

from pyvc import core, stdlib, bytesmodel
from pyvc.core import And, Or, Not, Implies, lift_bool, lift_int, Undecided, SInt, zint, Int
from pyvc.objects import Obj, NT, PyExc, PDict, PyClass, Builtin, BoundMethod, Opaque, StaticM
from pyvc.interp import LoopClause
from pyvc.vu import VU, program
from .common import oname, get_cls, exc_is, get_func

ALLOWED_EXC = ("IndexError", "X690Error", "NotImplementedError", "UnexpectedType", "IncompleteDecoding", "KeyError", "ValueError")


class ByteUnit(VU):
    props = ("C20",)
    label = "proved (any byte array of any length)"

    def setup(self, rt, interp):
        self.rt = rt
        bytesmodel.install(rt)
        self.finds = []
        orig = rt.getattr_hooks["SData"]

        def getattr_(rt_, i, c, name):
            m = orig(rt_, i, c, name)
            if name == "find":
                def find(i2, a, k):
                    r = m.fn(i2, a, k)
                    self.finds.append(r)
                    return r
                return Builtin("bytes.find", find)
            return m
        rt.getattr_hooks["SData"] = getattr_


class GetValueSlice(ByteUnit):
    target = "x690.util:get_value_slice"
    functions = (target, "x690.util:decode_length")
    name = "x690.util.get_value_slice[any bytes, any index]"

    def run(self, interp):
        ctx, rt = interp.ctx, self.rt
        data = bytesmodel.fresh_data(ctx)
        index = ctx.fresh_int("index")
        ctx.assume(And(index >= 0, index < lift_int(data.n)))
        fn = get_func(rt, interp, self.target)
        exc = res = None
        try:
            res = interp.call(fn, [data, index], {})
        except PyExc as pe:
            exc = pe.obj
        T = self.target
        if exc is not None:
            ctx.check(oname("C20", T, "raises", "only-IndexError-X690Error-NotImplementedError"), exc.cls.name in ALLOWED_EXC)
            return "raises:" + exc.cls.name
        nxt = res[1]
        bounds = res[0]
        length_octet = z3.Select(data.e, data.off + index.e + 1)
        unterminated = And(lift_bool(length_octet == 0x80), Or(*[lift_bool(zint(r) == -1) for r in self.finds]) if self.finds else False)
        ctx.check(oname("C20", T, "ensures", "progress(next_value_index > index)"), nxt > index, known=unterminated, finding="D15")
        ctx.check(oname("C20", T, "ensures", "value-ends-inside-the-data"), lift_bool(zint(bounds.stop) <= data.n))
        return "returns"


class Decode(ByteUnit):
    target = "x690.types:decode"
    functions = (target, "x690.util:get_value_slice", "x690.util:decode_length", "x690.util:TypeInfo.from_bytes")
    name = "x690.types.decode[any bytes, any start index]"

    def run(self, interp):
        ctx, rt = interp.ctx, self.rt
        data = bytesmodel.fresh_data(ctx)
        start = ctx.fresh_int("start_index")
        ctx.assume(start >= 0)
        some_cls = PyClass("registered-class(contract-slot)", [], kind="builtin")
        some_cls.native_attrs["from_bytes"] = Builtin("from_bytes", lambda i, a, k: Obj(PyClass("decoded-object(opaque)", [], kind="builtin")))
        unknown = get_cls(rt, interp, "x690.types:UnknownType")

        def get(i, c, a, k):
            # the registry lookup: a class registered for (class, tag, nature) or KeyError; loop-free
            if ctx.branch(ctx.fresh_bool("identifier_is_registered")):
                return Obj(some_cls)
            i.raise_py("KeyError", "unregistered")
        rt.hooks["x690.types:X690Type.get"] = get
        rt.hooks["x690.types:X690Type.from_bytes"] = lambda i, c, a, k: Obj(a[0] if isinstance(a[0], PyClass) else unknown,
                                                                            {"_opaque": True})
        fn = get_func(rt, interp, self.target)
        exc = res = None
        try:
            res = interp.call(fn, [data, start], {})
        except PyExc as pe:
            exc = pe.obj
        T = self.target
        if exc is not None:
            ctx.check(oname("C20", T, "raises", "only-documented-exception-kinds"), exc.cls.name in ALLOWED_EXC)
            return "raises:" + exc.cls.name
        length_octet = z3.Select(data.e, data.off + start.e + 1)
        unterminated = And(lift_bool(length_octet == 0x80), Or(*[lift_bool(zint(r) == -1) for r in self.finds]) if self.finds else False)
        ctx.check(oname("C20", T, "ensures", "progress(next_tlv > start_index)"), res[1] > start, known=unterminated, finding="D15")
        return "returns"


class SequenceDecodeRaw(ByteUnit):
    target = "x690.types:Sequence.decode_raw"
    functions = (target,)
    name = "x690.types.Sequence.decode_raw[any bytes, any slice]"

    def setup(self, rt, interp):
        ByteUnit.setup(self, rt, interp)
        self.n_items = 0
        self.d15 = []
        interp.loop_clauses[(self.target, 0)] = LoopClause(self.havoc, self.invariant, self.variant, mode="both")
        rt.hooks["x690.types:decode"] = self.decode_contract

    def decode_contract(self, interp, closure, args, kwargs):
        """decode(data, i) by its contract (verified by the Decode unit): an exception, or (item, next) with next > i -
        except for an unterminated indefinite length (finding D15), where next may be anything"""
        ctx = interp.ctx
        data, start = args[0], args[1] if len(args) > 1 else 0
        if ctx.branch(ctx.fresh_bool("decode_raises")):
            interp.raise_py("IndexError", "decode failed")
        nxt = ctx.fresh_int("next_tlv")
        d15 = ctx.fresh_bool("unterminated_indefinite_length")
        self.d15.append(d15)
        ctx.assume(Or(nxt > start, d15))
        self.consumed_ok = True
        return (Obj(PyClass("decoded-object(opaque)", [], kind="builtin")), nxt)

    def invariant(self, interp, frame, when):
        if when == "assume":
            return [("ghost", And(self.n_items_sym >= 1, self.n_items_sym <= frame.locals["next_pos"] - self.start0))]
        items = frame.locals.get("items")
        cnt = len(items) if when == "entry" else lift_int(zint(self.n_items_sym) + len(items))
        return [("items-decoded-so-far-are-bounded-by-the-bytes-consumed",
                 And(cnt >= 1, cnt <= frame.locals["next_pos"] - self.start0))]

    def havoc(self, interp, frame):
        ctx = interp.ctx
        frame.locals["next_pos"] = ctx.fresh_int("next_pos")
        frame.locals["items"] = []
        frame.locals.pop("item", None)
        self.n_items_sym = ctx.fresh_int("items_so_far")
        self.d15 = []

    def variant(self, interp, frame):
        end, nxt = frame.locals["end"], frame.locals["next_pos"]
        return lift_int(z3.If(zint(end) - zint(nxt) > 0, zint(end) - zint(nxt), 0))

    def run(self, interp):
        ctx, rt = interp.ctx, self.rt
        data = bytesmodel.fresh_data(ctx)
        lo, hi = ctx.fresh_int("slice_start"), ctx.fresh_int("slice_stop")
        ctx.assume(And(lo >= 0, hi >= 0))
        self.start0 = lo
        ctx.mark_base()
        # known pattern for the loop's variant: some decode in this iteration met the unterminated indefinite length
        orig_check = ctx.check

        def check(name, cond, known=None, finding=None, **kw):
            if name.endswith("/variant-decreases") or "invariant-preserved" in name or "invariant-established" in name:
                known, finding = (Or(*self.d15) if self.d15 else False), "D15"
            return orig_check(name, cond, known=known, finding=finding, **kw)
        ctx.check = check
        fn = get_func(rt, interp, self.target)
        exc = res = None
        try:
            res = interp.call(fn, [data, slice(lo, hi)], {})
        except PyExc as pe:
            exc = pe.obj
        T = self.target
        if exc is None:
            ctx.check(oname("C20", T, "ensures", "returns-a-list"), isinstance(res, list))
        return "returns" if exc is None else "raises"


RECEIVE_ENTRY = ["puresnmp_plugins.mpm.v1:V1MPM.decode", "puresnmp_plugins.mpm.v2c:V2CMPM.decode", "puresnmp_plugins.mpm.v3:V3MPM.decode",
                 "puresnmp_plugins.security.usm:UserSecurityModel.send_discovery_message", "puresnmp.api.raw:register_trap_callback",
                 "puresnmp.pdu:PDU.decode_raw", "x690.types:decode", "x690.types:Sequence.decode_raw",
                 "x690.types:ObjectIdentifier.decode_raw", "x690.types:Integer.decode_raw", "x690.types:X690Type.value"]


class ReceivePathStatic(VU):
    """Static obligations over the ASTs of the receive path: acyclic call graph, no loop-index-sized bignum arithmetic."""
    props = ("C20",)
    label = "proved (syntactic obligations over the current ASTs)"
    name = "receive path: call graph and arithmetic cost (static)"
    functions = tuple(RECEIVE_ENTRY[:6])

    def setup(self, rt, interp):
        self.rt = rt

    def run(self, interp):
        ctx = interp.ctx
        prog = program()
        # name-based call graph over every function of the three packages
        funcs = {}
        for mname, m in prog.modules.items():
            for fname, fi in m.functions.items():
                funcs.setdefault(fname, []).append(fi)
                for n in ast.walk(fi.node):
                    if isinstance(n, (ast.FunctionDef, ast.AsyncFunctionDef)) and n is not fi.node:
                        from pyvc.loader import FuncInfo
                        funcs.setdefault(n.name, []).append(FuncInfo(m, fi.qualname + ".<locals>." + n.name, n))
            for cname, ci in m.classes.items():
                for meth, fi in ci.methods.items():
                    funcs.setdefault(meth, []).append(fi)
        IGNORE = {"pretty", "__repr__", "__str__", "__init__", "__eq__", "__hash__", "create", "decode", "get", "join", "append",
                  "items", "values", "keys", "encode", "format", "startswith", "index", "pop", "update", "copy", "find"}

        def callees(fi):
            out = set()
            for n in ast.walk(fi.node):
                if isinstance(n, ast.Call):
                    f = n.func
                    if isinstance(f, ast.Attribute) and isinstance(f.value, ast.Name) and f.value.id in ("int", "bytes", "str", "dict"):
                        continue            # int.from_bytes(...) is the built-in, not a method of the packages
                    name = f.attr if isinstance(f, ast.Attribute) else (f.id if isinstance(f, ast.Name) else None)
                    if name and name in funcs and name not in IGNORE:
                        for g in funcs[name]:
                            out.add(g.fullname)
                if isinstance(n, ast.Attribute) and n.attr in ("value", "nodes") and isinstance(n.ctx, ast.Load):
                    for g in funcs.get(n.attr, []):
                        out.add(g.fullname)
            return out
        by_full = {}
        for lst in funcs.values():
            for fi in lst:
                by_full[fi.fullname] = fi
        graph = {}
        reach = set()
        stack = [e for e in RECEIVE_ENTRY if e in by_full]
        missing = [e for e in RECEIVE_ENTRY if e not in by_full]
        while stack:
            f = stack.pop()
            if f in reach:
                continue
            reach.add(f)
            graph[f] = sorted(c for c in callees(by_full[f]) if c in by_full)
            stack.extend(graph[f])
        # cycle detection (functions that can reach themselves)
        cyc = []
        color = {}

        def dfs(u, path):
            color[u] = 1
            for v in graph.get(u, []):
                if color.get(v) == 1:
                    cyc.append(path[path.index(v):] + [v] if v in path else [u, v])
                elif v not in color:
                    dfs(v, path + [v])
            color[u] = 2
        for f in sorted(reach):
            if f not in color:
                dfs(f, [f])
        # the lazy decoding protocol: X690Type.value -> decode_raw -> (for sequences) decode -> from_bytes; a nested
        # sequence is NOT decoded by its parent (from_bytes only stores the slice), so this chain is not a recursion.
        # Likewise Sequence.pythonize recurses over the NESTING of a value: depth <= len/2, cost linear, and a nesting deeper
        # than the interpreter's recursion limit ends in RecursionError (an exception, which the property allows).
        # A cycle that passes through `.value` / `.pythonize` descends one nesting level per turn whatever helper functions lie
        # on it (an extracted helper that reads `error_index.value` closes such a cycle in this name-based graph: benign round,
        # patch C20-p); a cycle without such a step would be a recursion at the same level.
        real = [c for c in cyc if not (any(x.endswith(".value") or x.endswith(".pythonize") for x in c)
                                       or all(("decode_raw" in x or x.endswith(":decode")) for x in c))]
        ctx.check("C20/receive-path/static:entry-points-present", not missing)
        ctx.check("C20/receive-path/static:call-graph-acyclic(no-recursion-on-received-data)", not real)
        self.cycles = cyc
        # cost: `**` (or repeated multiplication) with an exponent that depends on a loop variable, on unbounded integers
        offenders = []
        for f in sorted(reach):
            fi = by_full[f]
            for loop in ast.walk(fi.node):
                if isinstance(loop, (ast.For, ast.While)):
                    targets = {n.id for n in ast.walk(loop.target) if isinstance(n, ast.Name)} if isinstance(loop, ast.For) else set()
                    for n in ast.walk(loop):
                        if isinstance(n, ast.BinOp) and isinstance(n.op, ast.Pow):
                            names = {x.id for x in ast.walk(n.right) if isinstance(x, ast.Name)}
                            if names & targets:
                                offenders.append(f)
        puresnmp_off = [o for o in offenders if o.startswith("puresnmp")]
        ctx.check("C20/receive-path/cost:no-loop-index-sized-integer-arithmetic-in-puresnmp", not puresnmp_off)
        ctx.check("C20/x690.types.ObjectIdentifier.decode_large_value/cost:linear", not [o for o in offenders if o.startswith("x690")],
                  known=bool([o for o in offenders if "decode_large_value" in o]) and not [o for o in offenders if o.startswith("x690") and "decode_large_value" not in o],
                  finding="D19")
        return "checked"


def units(tier):
    return [GetValueSlice(), Decode(), SequenceDecodeRaw(), ReceivePathStatic()]
