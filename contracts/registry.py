"""Which units decide which property (DESIGN.md 7, appendix D.2)."""
from . import api_ops

VC = ("contract-based deductive verification: verification conditions generated on every run from the real ASTs "
      "(symbolic execution of each function against its sidecar contract, callee contracts at the seams) and "
      "discharged by z3 (cvc5 for z3-unknowns); ")

PROPS = {
    "C04": {
        "units": [api_ops.units], "level": "other", "design_ref": "7.4",
        "technique": VC + "request/response list lengths enumerated (proved-shape-bounded), all OIDs, values, ids symbolic",
        "trusted_base": ["Client._send used by its contract above the seam (the contract itself is verified under C07/C08)",
                         "x690 X690Type.__init__/value and Null executed from the x690 source"],
    },
}
