"""Which units decide which property (DESIGN.md 7, appendix D.2)."""
from . import api_ops, seam, walks, config, types_c17, pythonic, tables, wire_community, wire_v3, udp, x690_c20, x690_oid, x690_bytes

VC = ("contract-based deductive verification: verification conditions generated on every run from the real ASTs "
      "(symbolic execution of each function against its sidecar contract, callee contracts at the seams) and "
      "discharged by z3 (cvc5 for z3-unknowns); ")

PROPS = {
    "C20": {
        "standins": ["malformed", "udp"],
        "units": [x690_c20.units, wire_community.units_rx, wire_community.units_c19, wire_v3.units_rx, wire_v3.units_emit, udp.units], "level": "other", "design_ref": "7.20",
        "technique": VC + "x690 get_value_slice / decode / Sequence.decode_raw verified FROM THE SITE-PACKAGES SOURCE on an arbitrary byte "
                     "array (progress contracts, loop variant); static obligations over the receive path's ASTs (acyclic call graph, no "
                     "loop-index-sized bignum arithmetic); frame condition of the receive path (an exception leaves the client usable)",
        "trusted_base": ["time and memory are an abstract cost (loop iterations, items allocated, operand sizes); real CPU/RSS only in stand-ins",
                         "x690 X690Type.get / from_bytes are loop-free contract slots in the decode unit"],
    },
    "C14": {
        "standins": ["concurrent"],
        "units": [api_ops.units, seam.units, walks.units_c14, wire_v3.units_emit], "level": "other", "design_ref": "7.14",
        "technique": VC + "rely/guarantee under cooperative scheduling: control passes to other tasks only at an await; every "
                     "operation keeps its request state in locals (request built from its own arguments and its own id, result "
                     "taken from its own response), writes nothing on the client (frame), and the v3 message processor is "
                     "re-verified with the shared discovery state havocked at every await under the rely condition",
        "trusted_base": ["asyncio is single-threaded and cooperative (no preemption between awaits)",
                         "each sender call has its own reply (one socket per exchange: C13)"],
    },
    "C13": {
        "standins": ["udp"],
        "units": [udp.units], "level": "other", "design_ref": "7.13",
        "technique": VC + "send_udp's retry loop by an inductive invariant over ghost counters (attempts, open transports, timeouts "
                     "waited) with the real SNMPClientProtocol callbacks executed inside; asyncio is an environment model that "
                     "chooses each attempt's outcome (reply, second reply, no reply, ICMP error, connection lost)",
        "trusted_base": ["asyncio datagram endpoint / wait_for / future model (contracts/udp.py); callbacks only reach an open "
                         "transport", "real loopback sockets and real time are observed only by the replay/stand-in, not proved"],
    },
    "C09": {
        "standins": ["usm"],
        "units": [wire_v3.units_rx], "level": "other", "design_ref": "7.9",
        "technique": VC + "V3MPM.decode and the USM incoming path executed on an ARBITRARY well-formed SNMPv3 message (all leaves "
                     "symbolic: flags, user, engine, digest, payload plain or encrypted); postcondition: a normal return implies the "
                     "auth flag, the user name and a digest valid over the whole message",
        "trusted_base": ["cryptographic assumption: HMAC is an uninterpreted function; a digest valid under the localised key cannot be "
                         "produced without the key", "x690 decode/serialisation contract on the term algebra"],
    },
    "C10": {
        "standins": ["interop-C10"],
        "units": [wire_v3.units_emit, wire_v3.units_rx, seam.units_request_id], "level": "other", "design_ref": "7.10",
        "technique": VC + "V3MPM.encode and the USM request path compared with the RFC 3412/3414 term (flags, parameters, digest over "
                     "the message as sent); key derivation verified against RFC 3414 A.2 for every password length; incoming "
                     "authentic minimal-BER responses; x690 encode_length verified from its source",
        "trusted_base": ["hashlib/hmac uninterpreted", "x690 serialisation/decode contract on the term algebra"],
    },
    "C11": {
        "standins": ["interop-C11"],
        "units": [wire_v3.units_emit, wire_v3.units_rx], "level": "other", "design_ref": "7.11",
        "technique": VC + "apply_encryption / decrypt_message / localise_key executed with the privacy plug-in as two uninterpreted "
                     "functions satisfying decrypt(encrypt(x)) = x",
        "trusted_base": ["privacy plug-in contract (the property's axiom)", "x690 serialisation/decode contract"],
    },
    "C12": {
        "standins": ["interop-C12"],
        "units": [wire_v3.units_emit, wire_v3.units_c12, seam.units_request_id], "level": "other", "design_ref": "7.12",
        "technique": VC + "discovery exchange and request construction executed from the real code; timeliness as an obligation over "
                     "a ghost agent clock (environment steps: clock advance by any amount, reboot)",
        "trusted_base": ["RFC 3414 section 3.2 (7b) acceptance window as the agent model"],
    },
    "C05": {
        "standins": ["wire-emit", "interop-C05"],
        "units": [wire_community.units_c05, wire_v3.units_emit, x690_bytes.units_for(("C05",)), types_c17.units_codec, tables.units_walkcall, seam.units_request_id], "level": "other", "design_ref": "7.5",
        "technique": VC + "the real chain operation -> _send -> plug-in loaders -> message processing -> security model -> "
                     "PDU framing executed symbolically; the bytes handed to the sender are compared with an RFC-transcribed "
                     "term over a free BER term algebra",
        "trusted_base": ["x690 serialisation contract (bytes(obj) = TLV of the class identifier and encode_raw()): verified from the "
                         "x690 source per class by the X690Type.__bytes__ units; OBJECT IDENTIFIER content: the sub-identifier codec is verified from source in C17's OidSubidCodec unit (props C05/C06 named in its obligations), the packing of the first two arcs stays assumed",
                         "importlib/pkgutil: a plug-in namespace yields the modules under /repo/src/<namespace>"],
    },
    "C06": {
        "standins": ["wire-values"],
        "units": [wire_community.units_rx, wire_v3.units_rx, wire_v3.units_reencode, types_c17.units_table_c06, types_c17.units_codec], "level": "other", "design_ref": "7.6",
        "technique": VC + "V1MPM/V2CMPM.decode and PDU.decode_raw executed on a well-formed RFC message with symbolic leaves "
                     "and arbitrary definite length forms; registration constants as a contract on data",
        "trusted_base": ["x690 decode contract on the TLV term algebra (class registered for the identifier octet)"],
    },
    "C08": {
        "standins": ["ops-C08"],
        "units": [wire_community.units_rx, seam.units, wire_v3.units_rx, walks.units_propagate("C08", "puresnmp.exc:GenErr")],
        "level": "other", "design_ref": "7.8",
        "technique": VC + "PDU.decode_raw error branch, ErrorResponse.construct/__init__ and the IDENTIFIER table executed for every "
                     "status and index (symbolic integers); _send forces the lazy value",
        "trusted_base": ["x690 decode contract on the TLV term algebra"],
    },
    "C19": {
        "standins": ["trap"],
        "units": [wire_community.units_c19, seam.units, pythonic.units, pythonic.units_trapview, types_c17.units], "level": "other", "design_ref": "7.19",
        "technique": VC + "register_trap_callback's decode closure executed on a well-formed SNMPv2c notification with symbolic "
                     "leaves: version sniffing, loader, V2CMPM.decode, community check, scheduling of the callback",
        "trusted_base": ["asyncio: ensure_future schedules the coroutine once; an exception escaping a protocol callback is logged "
                         "and the endpoint stays registered", "x690 decode contract on the TLV term algebra"],
    },
    "C16": {
        "standins": ["tables"],
        "units": [tables.units, tables.units_walkcall, pythonic.units_tables, walks.units_c16], "level": "other", "design_ref": "7.16",
        "technique": VC + "util.tablify executed on a symbolic stream (OIDs, values, base length symbolic; stream length "
                     "enumerated) against the row/cell postcondition; Client.table/bulktable checked at their call sites "
                     "(stream = the walk's stream, column = arc after the entry arc); walks used by their C01/C02 contracts",
        "trusted_base": ["walk / bulkwalk used by contract (C01, C02)", "oid.nodes, '.'.join, str(int) as uninterpreted functions "
                         "(str(int) injective)"],
    },
    "C15": {
        "standins": ["ops-C15"],
        "units": [pythonic.units, types_c17.units], "level": "other", "design_ref": "7.15",
        "technique": VC + "every PyWrapper method executed against a raw client used by contract (symbolic raw results of "
                     "enumerated container sizes, values of any SNMP class); postconditions: only built-in types (dictionary "
                     "keys included) and equality with the element-wise pythonisation",
        "trusted_base": ["x690 pythonize() of the base value classes returns a built-in (assumed; TimeTicks.pythonize verified in C17)",
                         "x690 ObjectIdentifier(text) / str(oid) contract"],
    },
    "C17": {
        "standins": ["types"],
        "units": [types_c17.units], "level": "proof", "design_ref": "7.17",
        "technique": VC + "Counter/Counter64/TimeTicks constructors as integer VCs over all integers; TimeTicks.pythonize "
                     "(float code) through a sound real relaxation of IEEE-754 double arithmetic and CPython's timedelta "
                     "algorithm; IpAddress round trip; registration constants as a contract on data",
        "trusted_base": ["datetime.timedelta, ipaddress.ip_address, int.to_bytes/from_bytes (assumed contracts, stated in stdlib.py)",
                         "x690 Integer/X690Type constructors executed from the x690 source",
                         "x690 Integer.encode_raw/decode_raw verified from the x690 source for |v| < 2^72 (loops unrolled to the operand width); wider integers are outside every SNMP type and stay unverified"],
    },
    "C18": {
        "standins": ["config"],
        "units": [config.units, seam.units, wire_community.units_c05, wire_v3.units_emit], "level": "proof", "design_ref": "7.18",
        "technique": VC + "configure, reconfigure (an @contextmanager function executed with an ARBITRARY block at its yield: "
                     "the block may reconfigure permanently and may raise), the transport handler closure and _send; "
                     "object identity of config/mpm is exact (heap objects are concrete per path)",
        "trusted_base": ["dataclasses.replace (functional update; TypeError for unknown fields)",
                         "contextlib.contextmanager semantics (the block's exception is thrown at the yield)",
                         "mpm.create is a contract slot (returns a new model for the identifier)"],
    },
    "C03": {
        "standins": ["faulty", "lean"],
        "units": [walks.units_c03, x690_oid.units_for(("C01", "C02", "C03")), tables.units_propagates], "level": "other", "design_ref": "7.3",
        "technique": VC + "multiwalk with both fetchers against an UNCONSTRAINED agent (arbitrary bindings): inductive invariant "
                     "over ghost sets (continued-from, witnesses, revealed), variant from a finite-universe rank; roots, "
                     "repetitions and response counts enumerated",
        "trusted_base": ["Client._send used by its contract above the seam", "finite OID universe (ghost rank)",
                         "x690 ObjectIdentifier order/containment contract (assumed, validated by enumeration)"],
    },
    "C01": {
        "standins": ["walks-getnext", "lean"],
        "units": [walks.units_c01, tables.units_walkcall, x690_oid.units_for(("C01", "C02", "C03"))], "level": "other", "design_ref": "7.1",
        "technique": VC + "multiwalk verified with an inductive loop invariant over an uninterpreted, totally ordered OID "
                     "sort (axioms Lean-checked) against an RFC 3416 agent model; database, OIDs, iteration count unbounded; "
                     "number of roots and listing order enumerated (proved-shape-bounded)",
        "trusted_base": ["Client._send used by its contract above the seam", "RFC 3416 agent model (environment)",
                         "x690 ObjectIdentifier order/containment contract (assumed, validated by enumeration)"],
    },
    "C02": {
        "standins": ["walks-bulk", "lean"],
        "units": [walks.units_c02, tables.units_walkcall, x690_oid.units_for(("C01", "C02", "C03"))], "level": "other", "design_ref": "7.2",
        "technique": VC + "multiwalk with the real bulk fetcher (closure, bulkget) under the same invariant and postcondition "
                     "as the GETNEXT walk; GETBULK agent model with every RFC-allowed cut; roots, repetitions and cuts enumerated",
        "trusted_base": ["Client._send used by its contract above the seam", "RFC 3416 agent model (environment)",
                         "x690 ObjectIdentifier order/containment contract (assumed, validated by enumeration)"],
    },
    "C07": {
        "standins": ["ops-C07"],
        "units": [api_ops.units, seam.units, wire_v3.units_emit, walks.units_propagate("C07", "puresnmp.exc:InvalidResponseId"),
                  wire_community.units_rx, wire_community.units_family_switch, seam.units_request_id],
        "level": "other", "design_ref": "7.7",
        "technique": VC + "every clock read is a fresh symbolic integer; the id placed in the PDU must equal the id "
                     "validated (caller-side obligation at the _send seam); _send itself verified against its contract",
        "trusted_base": ["mpm.encode / mpm.decode / sender are contract slots in the _send unit (any bytes, any response id)",
                         "x690 Sequence.__iter__, OctetString/Integer.pythonize executed from the x690 source"],
    },
    "C04": {
        "standins": ["ops-C04"],
        "units": [api_ops.units], "level": "other", "design_ref": "7.4",
        "technique": VC + "request/response list lengths enumerated (proved-shape-bounded), all OIDs, values, ids symbolic",
        "trusted_base": ["Client._send used by its contract above the seam (the contract itself is verified under C07/C08)",
                         "x690 X690Type.__init__/value and Null executed from the x690 source"],
    },
}
