"""
x690 ObjectIdentifier.__contains__ verified FROM THE SITE-PACKAGES SOURCE for node tuples of enumerated length (<= 4 arcs each,
arcs symbolic): `a in b` holds exactly when b.nodes is a prefix of a.nodes - the contract the OID theory assumes (`below`).
(`__lt__` is `self.nodes < other.nodes`, Python's lexicographic tuple order by definition.)
"""
import z3

from pyvc.core import And, Or, Not, lift_bool, Undecided, SInt
from pyvc.objects import Obj, PyExc, BoundMethod
from pyvc.vu import VU
from .common import oname, get_cls, get_func


class OidContains(VU):
    label = "proved-shape-bounded(node tuples of the enumerated lengths; arcs symbolic)"
    target = "x690.types:ObjectIdentifier.__contains__"
    functions = (target,)

    def __init__(self, la, lb, props):
        self.la, self.lb, self.props = la, lb, tuple(props)
        self.name = "x690 ObjectIdentifier.__contains__[len(a)=%d, len(b)=%d]" % (la, lb)

    def setup(self, rt, interp):
        self.rt = rt
        rt.attr_hooks[("x690.types:ObjectIdentifier", "nodes")] = lambda i, obj: obj.fields.get("_nodes", NotImplemented)

    def run(self, interp):
        ctx, rt = interp.ctx, self.rt
        cls = get_cls(rt, interp, "x690.types:ObjectIdentifier")

        def mk(name, n):
            nodes = tuple(ctx.fresh_int("%s%d" % (name, i)) for i in range(n))
            for x in nodes:
                ctx.assume(x >= 0)
            return Obj(cls, {"_nodes": nodes, "pyvalue": "?", "_raw_bytes": b""}), nodes
        a, an = mk("a", self.la)
        b, bn = mk("b", self.lb)
        fn = get_func(rt, interp, self.target)
        res = interp.truth_sym(interp.call(BoundMethod(fn, b), [a], {}))      # `a in b`
        spec = False if self.lb > self.la else And(*[an[i].eq(bn[i]) for i in range(self.lb)])
        for p in self.props:
            ctx.check(oname(p, self.target, "ensures", "a-in-b-iff-b.nodes-is-a-prefix-of-a.nodes"),
                      lift_bool(z3.BoolVal(res) == z3.BoolVal(spec)) if isinstance(res, bool) and isinstance(spec, bool)
                      else And(Or(Not(res), spec), Or(Not(spec), res)))
        return "returns"


def units_for(props):
    def units(tier):
        n = 3 if tier == "quick" else 4
        return [OidContains(la, lb, props) for la in range(0, n + 1) for lb in range(0, n + 1)]
    return units
