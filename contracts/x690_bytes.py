"""
The serialisation contract the wire units ASSUME for x690 objects,

        bytes(obj) == identifier-octet(class) ++ length-octets(content) ++ content,      content = obj.encode_raw()
                                                                                          (or the received content octets)

verified FROM THE SITE-PACKAGES SOURCE of `X690Type.__bytes__` (with the `raw_bytes` property, `TypeInfo.__bytes__` and the
class's own `encode_raw` executed from their ASTs) for every class registered with x690 in this tree, one unit per class.
Below it only `encode_length` (verified in EncodeLength), the `Integer` content octets (verified in IntegerCodec) and the
OBJECT IDENTIFIER content octets (sub-identifier codec verified in OidSubidCodec; first-two-arcs packing assumed; stand-in `wire-emit`) are used by contract; nested `bytes(child)` calls inside a
constructed value are used by this same contract (modular).
"""
import z3

from pyvc import wire, x690model
from pyvc.core import And, Or, Not, lift_bool, Undecided, SInt, SBytes
from pyvc.objects import Obj, PyExc, BoundMethod, PDict
from pyvc.theories import OidTheory, XValTheory
from pyvc.wire import WTlv, WVal, WInt, WLit, WCat
from pyvc.vu import VU
from .common import oname, get_cls, get_func

T_BYTES = "x690.types:X690Type.__bytes__"


class XBytes(VU):
    label = "proved(per registered class; content symbolic; constructed values with the enumerated number of children)"
    target = T_BYTES
    functions = (T_BYTES, "x690.types:X690Type.raw_bytes", "x690.util:TypeInfo.__bytes__")

    def __init__(self, clsname, shape, props):
        self.clsname, self.shape, self.props = clsname, shape, tuple(props)
        self.name = "x690 X690Type.__bytes__[%s, %s]" % (clsname.split(":")[1], shape)

    def setup(self, rt, interp):
        self.rt = rt
        if rt.oid is None:
            rt.oid = OidTheory(rt, order=False)
        self.xv = XValTheory(rt, interp)
        self.x = x690model.install(rt, interp)
        self.subject = None
        assumed = self.x.h_bytes
        from pyvc import stdlib
        from pyvc.core import Bytes, Int, zint
        stdlib.install_numeric_models(rt, interp)
        f_slice = z3.Function("bytes_slice", Bytes, Int, Int, Bytes)
        generic = self.x.h_sbytes_slice

        def sl(rt_, i, c, lo, hi, step):
            # d[a:b] with 0 <= a <= b <= len(d): an uninterpreted function of (d, a, b) of length b - a
            if step is None and isinstance(lo, SInt) and isinstance(hi, SInt):
                n = rt.f_blen(c.e)
                if not stdlib._prove(i, z3.And(zint(lo) >= 0, zint(lo) <= zint(hi), zint(hi) <= n)):
                    raise Undecided("slice of symbolic bytes with bounds not known to lie inside")
                r = f_slice(c.e, zint(lo), zint(hi))
                i.ctx.assume(lift_bool(rt.f_blen(r) == zint(hi) - zint(lo)))
                return SBytes(r)
            return generic(rt_, i, c, lo, hi, step)
        rt.getslice_hooks["SBytes"] = sl

        def h(interp_, closure, args, kwargs):
            if args and args[0] is self.subject:
                return NotImplemented          # the object under test: execute the source
            return assumed(interp_, closure, args, kwargs)
        rt.hooks[T_BYTES] = h

    def run(self, interp):
        ctx, rt = interp.ctx, self.rt
        cls = get_cls(rt, interp, self.clsname)
        shape = self.shape
        if shape == "int":
            v = ctx.fresh_int("value")
            obj = rt.instantiate(interp, cls, [v], {})
        elif shape == "octets":
            v = ctx.fresh_bytes("value")
            obj = rt.instantiate(interp, cls, [v], {})
        elif shape == "empty":
            obj = rt.instantiate(interp, cls, [], {})
        elif shape.startswith("children"):
            k = int(shape[len("children"):])
            kids = [self.xv.fresh(ctx, "child%d" % i) for i in range(k)]
            obj = rt.instantiate(interp, cls, [kids], {})
        elif shape == "received":
            # an object as `decode` leaves it: raw octets of the datagram and the bounds of its content
            obj = rt.instantiate(interp, cls, [], {})
            data = ctx.fresh_bytes("datagram")
            a, b = ctx.fresh_int("start"), ctx.fresh_int("end")
            ctx.assume(And(a >= 0, b > a, lift_bool(b.e <= rt.f_blen(data.e))))
            obj.fields["_raw_bytes"] = data
            obj.fields["bounds"] = slice(a, b)
        else:
            raise Undecided("shape %r" % shape)
        ctx.mark_base()
        self.subject = obj
        fn = get_func(rt, interp, T_BYTES)
        own = rt.lookup_method(obj.cls, "__bytes__")
        for p in self.props:
            ctx.check(oname(p, self.clsname, "class", "serialised-by-X690Type.__bytes__"), own is not None and own.info.fullname == T_BYTES)
        try:
            got = interp.call(BoundMethod(fn, obj), [], {})
        except PyExc as pe:
            for p in self.props:
                ctx.check(oname(p, T_BYTES, "exit", "no-exception(%s)" % self.shape), False)
            return "raises " + pe.obj.cls.name
        # what the call sites assume
        self.subject = None
        if self.shape == "received":
            content = rt.getslice_hooks["SBytes"](rt, interp, obj.fields["_raw_bytes"], obj.fields["bounds"].start,
                                                  obj.fields["bounds"].stop, None)
            want = WTlv(self.x.ident_of(interp, obj.cls), content, "x690")
        else:
            want = self.x.h_bytes(interp, None, [self._fresh_twin(interp, obj)], {})
        got, want = self.canon(interp, got), self.canon(interp, want)
        ok = wire.is_wire(got)
        for p in self.props:
            ctx.check(oname(p, T_BYTES, "ensures", "result-is-octets"), ok)
        if ok:
            w = rt.wire
            for p in self.props:
                ctx.check(oname(p, T_BYTES, "ensures", "identifier++definite-length(content)++content[%s]" % self.shape),
                          lift_bool(w.z(got) == w.z(want)))
        return "returns"

    def canon(self, interp, v):
        """one spelling for octets that are fully known: a TLV whose content is literal is the literal
        identifier ++ encode_length(n) ++ content, with encode_length executed from the x690 source on the concrete n"""
        if not wire.is_wire(v):
            return v
        enc_len = get_func(self.rt, interp, "x690.util:encode_length")
        out = []

        def rec(x):
            if isinstance(x, WCat):
                for p in x.parts:
                    rec(p)
            elif isinstance(x, WTlv):
                inner = wire.parts_of(self.canon(interp, x.content))
                if x.form == "x690" and all(isinstance(p, WLit) for p in inner):
                    body = b"".join(p.b for p in inner)
                    lo = interp.call(enc_len, [len(body)], {})
                    lo = b"".join(p.b for p in wire.parts_of(lo)) if wire.is_wire(lo) and all(
                        isinstance(p, WLit) for p in wire.parts_of(lo)) else None
                    if lo is not None:
                        out.append(WLit(bytes([x.ident]) + lo + body))
                        return
                out.append(x)
            else:
                out.append(x)
        rec(v if not isinstance(v, (bytes, bytearray)) else WLit(bytes(v)))
        ps = wire.parts_of(WCat(out))
        return ps[0] if len(ps) == 1 else WCat(ps)

    def _fresh_twin(self, interp, obj):
        """the assumed contract is evaluated on an object in the state the subject was CREATED in (the source's
        `raw_bytes` property caches the content octets in the subject)"""
        twin = Obj(obj.cls, dict(obj.fields))
        if self.shape != "received":
            twin.fields["_raw_bytes"] = b""
        return twin


def units_for(props):
    def units(tier):
        out = []
        ints = ["x690.types:Integer", "puresnmp.types:Counter", "puresnmp.types:Gauge", "puresnmp.types:TimeTicks",
                "puresnmp.types:Counter64"]
        for c in ints:
            out.append(XBytes(c, "int", props))
        for c in ("x690.types:OctetString", "puresnmp.types:Opaque"):
            out.append(XBytes(c, "octets", props))
            out.append(XBytes(c, "empty", props))
        for k in (0, 1, 2) + ((3,) if tier == "thorough" else ()):
            out.append(XBytes("x690.types:Sequence", "children%d" % k, props))
        for c in ("x690.types:Integer", "x690.types:OctetString", "x690.types:Sequence", "puresnmp.types:Counter64"):
            out.append(XBytes(c, "received", props))
        return out
    return units
