"""
Below the seam, community-based protocols (v1, v2c): what leaves (C05), what is accepted and what it
decodes to (C06, C08), trap delivery (C19).

Emission units run the REAL chain  Client.<operation> -> Client._send -> mpm.create (the plug-in loaders,
from source) -> V1MPM/V2CMPM.encode -> security model -> PDU.encode_raw / BulkGetRequest.__bytes__  and compare
the bytes handed to ``sender`` with the RFC-transcribed term of contracts/rfc.py.
Reception units hand a well-formed RFC message with symbolic leaves (any definite length forms) to
V1MPM/V2CMPM.decode and read ``.value`` (PDU.decode_raw from source).
"""
import z3

from pyvc import core, x690model, stdlib
from pyvc.core import And, Or, Not, Implies, lift_bool, Undecided, SInt, SOid, SXVal, SBytes, SStr, zint
from pyvc.objects import Obj, NT, PyExc, PDict, PyClass, Builtin, BoundMethod, Opaque
from pyvc.vu import VU
from pyvc.theories import OidTheory, XValTheory
from pyvc.wire import WVal, WTlv, WInt
from . import rfc
from .common import oname, get_cls, exc_is, get_func, varbind

ERROR_TABLE = {1: "TooBig", 2: "NoSuchOID", 3: "BadValue", 4: "ReadOnly", 5: "GenErr", 6: "NoAccess", 7: "WrongType",
               8: "WrongLength", 9: "WrongEncoding", 10: "WrongValue", 11: "NoCreation", 12: "InconsistentValue",
               13: "ResourceUnavailable", 14: "CommitFailed", 15: "UndoFailed", 16: "AuthorizationError",
               17: "NotWritable", 18: "InconsistentName"}


class WireUnit(VU):
    label = "proved-shape-bounded(binding list of the enumerated length; all leaves symbolic)"

    def setup(self, rt, interp):
        self.rt = rt
        if rt.oid is None:
            rt.oid = OidTheory(rt, order=getattr(self, "need_order", False))
        self.xv = XValTheory(rt, interp)
        self.x = x690model.install(rt, interp)
        self.clock_vals = []

        def clock(i, c, a, k):
            v = i.ctx.fresh_int("clock")
            self.clock_vals.append(v)
            return v
        rt.hooks["puresnmp.util:get_request_id"] = clock

    def frame_c20(self, interp, mproc, before, what):
        """C20: an exception (or a result) for one datagram leaves the message processor usable for the next one:
        the receive path writes nothing but the (idempotent) creation of the security model"""
        changed = {k for k in set(mproc.fields) | set(before) if mproc.fields.get(k) is not before.get(k)}
        interp.ctx.check(oname("C20", what, "frame", "receive-path-writes-only-the-security-model-slot"), changed <= {"security_model"})

    def creds(self, interp, family):
        rt, ctx = self.rt, interp.ctx
        if family == "V3":
            raise Undecided("v3 credentials in a community unit")
        return Obj(get_cls(rt, interp, "puresnmp.credentials:" + family),
                   {"community": ctx.fresh_str("community"), "mpm": 0 if family == "V1" else 1})


class Emit(WireUnit):
    props = ("C05",)

    def __init__(self, family, op, k, m=None, ns=0):
        self.family, self.op, self.k, self.m, self.ns = family, op, k, m, ns
        self.target = "puresnmp.api.raw:Client.%s" % op
        mv = family.lower()
        self.functions = (self.target, "puresnmp.api.raw:Client._send", "puresnmp.pdu:PDU.encode_raw",
                          "puresnmp.pdu:BulkGetRequest.__bytes__", "puresnmp.plugins.mpm:create",
                          "puresnmp.plugins.security:create", "puresnmp.plugins.pluginbase:Loader.create",
                          "puresnmp.plugins.pluginbase:discover_plugins",
                          "puresnmp_plugins.mpm.%s:%sMPM.encode" % (mv, family),
                          "puresnmp_plugins.security.%s:SNMP%sSecurityModel.generate_request_message" % (mv, mv))
        self.name = "%s %s[%d oids%s]" % (family, op, k, ", non-repeaters=%d, max-repetitions=%s" % (ns, m) if m is not None else "")

    def run(self, interp):
        ctx, rt = interp.ctx, self.rt
        sent = []
        tmo = get_cls(rt, interp, "puresnmp.exc:Timeout")

        def sender(i, a, k):
            sent.append((a, k))
            raise PyExc(rt.instantiate(i, tmo, ["stop after the datagram was captured"], {}))
        creds = self.creds(interp, self.family)
        rt.call_hooks["Opaque"] = self.x.h_opaque_call
        client = rt.instantiate(interp, get_cls(rt, interp, "puresnmp.api.raw:Client"), ["192.0.2.1", creds],
                                {"sender": Builtin("sender", sender)})
        oids = [ctx.fresh_oid("oid%d" % i) for i in range(self.k)]
        F = rfc.Forms("x690")
        fn = get_func(rt, interp, self.target)
        if self.op == "multiget":
            args, tag, vals = [list(oids)], rfc.GET, [None] * self.k
        elif self.op == "multigetnext":
            args, tag, vals = [list(oids)], rfc.GETNEXT, [None] * self.k
        elif self.op == "multiset":
            for i in range(self.k):
                for j in range(i + 1, self.k):
                    ctx.assume(Not(interp.eq(oids[i], oids[j])))
            values = [self.xv.fresh(ctx, "set_val%d" % i) for i in range(self.k)]
            args, tag, vals = [PDict(list(zip(oids, values)))], rfc.SET, [WVal(v) for v in values]
        elif self.op == "bulkget":
            args, tag, vals = [list(oids[:self.ns]), list(oids[self.ns:])], rfc.GETBULK, [None] * self.k
        if self.op == "bulkget" and self.m == "any":
            # the caller's max-repetitions is whatever the caller says (0 included): it is what the datagram must carry
            self.m_val = ctx.fresh_int("max_repetitions")
            ctx.assume(self.m_val >= 0)
        else:
            self.m_val = self.m
        kwargs = {"max_list_size": self.m_val} if self.op == "bulkget" else {}
        exc = None
        try:
            interp.call(BoundMethod(fn, client), args, kwargs)
        except PyExc as pe:
            exc = pe.obj
        T = self.target
        ok = len(sent) == 1 and exc is not None and exc_is(exc, tmo)
        ctx.check(oname("C05", T, "ensures", "exactly-one-datagram-is-handed-to-the-sender"), ok)
        if not ok:
            return "?"
        a, k = sent[0]
        data = a[1]
        rid = None
        # the request id is whatever the clock said; find it in the emitted term through the spec: it must be ONE value
        rid = self.clock_vals[0] if self.clock_vals else SInt(z3.Int("no-clock-read"))
        f1, f2 = (self.ns, self.m_val) if self.op == "bulkget" else (0, 0)
        version = 0 if self.family == "V1" else 1
        spec = rfc.community_message(version, SBytes(rt.f_str_ascii(creds.fields["community"].e)),
                                     rfc.pdu(tag, rid, f1, f2, list(zip(oids, vals)), F), F)
        ctx.check(oname("C05", T, "ensures", "datagram-is-the-RFC-message-for-the-intended-request"), interp.eq(data, spec))
        ctx.check(oname("C05", T, "ensures", "the-clock-is-read-once"), len(self.clock_vals) == 1)
        return "emitted"


class Receive(WireUnit):
    """V1MPM/V2CMPM.decode + PDU.decode_raw on a well-formed response."""
    props = ("C06", "C07", "C08", "C20")
    may_be_empty = True

    def __init__(self, family, k, error):
        self.family, self.k, self.error = family, k, error
        mv = family.lower()
        self.target = "puresnmp_plugins.mpm.%s:%sMPM.decode" % (mv, family)
        self.functions = (self.target, "puresnmp.pdu:PDU.decode_raw", "puresnmp.exc:ErrorResponse.construct",
                          "puresnmp.exc:ErrorResponse.__init__",
                          "puresnmp_plugins.security.%s:SNMP%sSecurityModel.process_incoming_message" % (mv, mv))
        self.props = ("C08", "C20") if error else ("C06", "C07", "C20")
        self.name = "%s response[%d bindings, %s]" % (family, k, "error-status != 0" if error else "error-status == 0")

    def witness(self, ob, model):
        """C08 obligations: the counter-model's status and index, replayed as an agent answer to a multiget of k OIDs"""
        if not ob.name.startswith("C08/"):
            return None
        from pyvc.vu import model_values
        mv = model_values(model)
        if "error_status!0" not in mv:
            return None
        return {"kind": "err", "status": mv["error_status!0"], "index": mv.get("error_index!0", 0), "k": max(1, self.k), "op": "multiget"}

    def run(self, interp):
        ctx, rt = interp.ctx, self.rt
        creds = self.creds(interp, self.family)
        F = rfc.Forms("any", ctx)
        rid, es, ei = ctx.fresh_int("rid"), ctx.fresh_int("error_status"), ctx.fresh_int("error_index")
        if self.error:
            ctx.assume(Not(es.eq(0)))
        else:
            ctx.assume(es.eq(0))
        oids = [ctx.fresh_oid("resp_oid%d" % i) for i in range(self.k)]
        vals = [self.xv.fresh(ctx, "resp_val%d" % i) for i in range(self.k)]
        version = 0 if self.family == "V1" else 1
        raw = rfc.community_message(version, SBytes(rt.f_str_ascii(creds.fields["community"].e)),
                                    rfc.pdu(rfc.RESPONSE, rid, es, ei, [(o, WVal(v)) for o, v in zip(oids, vals)], F), F)
        rt.call_hooks["Opaque"] = self.x.h_opaque_call
        mk = get_func(rt, interp, "puresnmp.plugins.mpm:create")
        mproc = interp.call(mk, [version, Opaque("handler"), PDict()], {})
        T = self.target
        exc = pdu = content = None
        before = dict(mproc.fields)
        reads = {"n": 0}

        def count_reads(i, c, a, k):
            reads["n"] += 1
            return NotImplemented
        rt.hooks["puresnmp.pdu:PDU.decode_raw"] = count_reads
        self.x.decode_counts.clear()
        try:
            pdu = interp.call(rt.getattr(interp, mproc, "decode"), [raw, creds], {})
            content = rt.getattr(interp, pdu, "value")
        except PyExc as pe:
            exc = pe.obj
        self.frame_c20(interp, mproc, before, T)
        # cost (C20): x690 decodes lazily and does not cache. One read of a PDU (one PDU.decode_raw) must walk the
        # binding list, and each binding, once - a bound that does not grow with the number of bindings.
        vbl = raw.content.parts[2].content.parts[3]
        walked = [self.x.decode_counts.get(id(t), 0) for t in [vbl] + list(vbl.content.parts)]
        ctx.check(oname("C20", "puresnmp.pdu:PDU.decode_raw", "cost", "binding-list-and-bindings-are-walked-once-per-read-of-the-PDU"),
                  max(walked, default=0) <= max(reads["n"], 1))
        if not self.error:
            ctx.check(oname("C06", T, "ensures", "a-well-formed-response-is-accepted"), exc is None)
            if exc is not None:
                return "raises"
            ctx.check(oname("C06", T, "ensures", "decoded-as-a-GetResponse"), pdu.cls.name == "GetResponse")
            f = content.fields
            vbs = f.get("varbinds")
            ok = isinstance(vbs, list) and len(vbs) == self.k
            ctx.check(oname("C06", "puresnmp.pdu:PDU.decode_raw", "ensures", "same-number-of-bindings"), ok)
            conds = [interp.eq(f.get("request_id"), rid), interp.eq(f.get("error_status"), es), interp.eq(f.get("error_index"), ei)]
            ctx.check(oname("C06", "puresnmp.pdu:PDU.decode_raw", "ensures", "request-id-and-error-fields-as-sent"), And(*conds))
            # C07 compares the id the caller sent with THIS value: it must be the id on the wire (not masked, not truncated)
            ctx.check(oname("C07", "puresnmp.pdu:PDU.decode_raw", "ensures", "the-decoded-request-id-is-the-id-on-the-wire"), conds[0])
            if ok:
                ctx.check(oname("C06", "puresnmp.pdu:PDU.decode_raw", "ensures", "bindings-in-order-with-the-type-and-value-sent"),
                          And(*[And(interp.eq(vbs[i][0], oids[i]), interp.eq(vbs[i][1], vals[i])) for i in range(self.k)]))
            # re-encoding the decoded PDU yields an encoding of the same content
            back = interp.call(rt.builtins["__type_ctor__bytes"], [pdu], {})
            Fx = rfc.Forms("x690")
            same = rfc.pdu(rfc.RESPONSE, rid, es, ei, [(o, WVal(v)) for o, v in zip(oids, vals)], Fx)
            # (inner TLVs keep the octets as received; the outer header is re-encoded by x690)
            ctx.check(oname("C06", T, "ensures", "re-encoding-the-decoded-PDU-keeps-its-content"),
                      isinstance(back, WTlv) and back.ident == rfc.RESPONSE and interp.eq(back.content, raw.content.parts[2].content))
            return "returns"
        # ---- C08
        err = get_cls(rt, interp, "puresnmp.exc:ErrorResponse")
        ctx.check(oname("C08", T, "raises", "a-non-zero-error-status-never-returns-data"), exc is not None)
        if exc is None:
            return "returns"
        ok = exc_is(exc, err)
        ctx.check(oname("C08", "puresnmp.pdu:PDU.decode_raw", "raises", "only-an-ErrorResponse(no-IndexError)"), ok)
        if not ok:
            return "raises:" + exc.cls.name
        # the documented subclass for the status, else the generic class carrying the raw status
        want = []
        for code, name in ERROR_TABLE.items():
            want.append(Implies(es.eq(code), exc.cls.name == name))
        want.append(Implies(Or(es < 1, es > 18), exc.cls.name == "ErrorResponse"))
        ctx.check(oname("C08", "puresnmp.exc:ErrorResponse.construct", "ensures", "class-documented-for-the-status"), And(*want))
        ctx.check(oname("C08", "puresnmp.exc:ErrorResponse.__init__", "ensures", "carries-the-raw-status"),
                  interp.eq(exc.fields.get("error_status"), es))
        off = exc.fields.get("offending_oid")
        conds = []
        empty = isinstance(off, Obj) and off.cls.name == "ObjectIdentifier" and not isinstance(off.fields.get("pyvalue"), str)
        for i in range(self.k):
            # (the zero-length OID is falsy: `offending_oid or ObjectIdentifier()` then hands out a NEW empty OID - the same value)
            n = rt.oid.olen_sym(interp, oids[i])
            zero_len = (n == 0) if isinstance(n, int) else n.eq(0)
            conds.append(Implies(ei.eq(i + 1), interp.eq(off, oids[i]) if isinstance(off, SOid) else And(empty, zero_len)))
        conds.append(Implies(Or(ei < 1, ei > self.k), empty))
        ctx.check(oname("C08", "puresnmp.pdu:PDU.decode_raw", "raises", "offending-oid-is-the-binding-selected-by-error-index-else-empty"),
                  And(*conds))
        return "raises"


class TableOfErrors(VU):
    props = ("C08",)
    label = "proved"
    functions = tuple("data:puresnmp.exc:" + n for n in ERROR_TABLE.values())
    name = "error-status table (IDENTIFIER constants of the ErrorResponse subclasses)"

    def setup(self, rt, interp):
        self.rt = rt

    def run(self, interp):
        rt, ctx = self.rt, interp.ctx
        base = get_cls(rt, interp, "puresnmp.exc:ErrorResponse")
        subs = rt.subclasses(interp, base)
        seen = {}
        for c in subs:
            _, ident = rt.class_attr(interp, c, "IDENTIFIER")
            seen.setdefault(ident, []).append(c.name)
        ctx.check("C08/exc.ErrorResponse/data:identifiers-1-to-18-pairwise-distinct-and-as-in-RFC-3416",
                  seen == {k: [v] for k, v in ERROR_TABLE.items()})
        return "checked"


class TrapDelivery(WireUnit):
    props = ("C19", "C20")
    target = "puresnmp.api.raw:register_trap_callback"

    def __init__(self, k, community_ok=True):
        self.k, self.community_ok = k, community_ok
        self.functions = (self.target, "puresnmp_plugins.mpm.v2c:V2CMPM.decode",
                          "puresnmp_plugins.security.v2c:SNMPv2cSecurityModel.process_incoming_message",
                          "puresnmp.pdu:Trap.__init__", "puresnmp.pdu:PDU.decode_raw", "puresnmp.plugins.mpm:create")
        self.name = "register_trap_callback.decode[v2c notification, %d payload bindings, %s community]" % (
            k, "matching" if community_ok else "foreign")

    def run(self, interp):
        ctx, rt = interp.ctx, self.rt
        captured, scheduled, called = {}, [], []

        def listen(i, c, a, k):
            captured["decode"] = a[2]
            return Opaque("coroutine")
        rt.hooks["puresnmp.transport:listen"] = listen
        loop_cls = PyClass("loop(contract-slot)", [], kind="builtin")
        # loop.run_until_complete(coro) runs the coroutine object to completion
        loop_cls.native_attrs["run_until_complete"] = Builtin("run_until_complete", lambda i, a, k: i.rt.await_value(i, a[-1]))
        rt.native_modules["asyncio"]["ensure_future"] = Builtin("ensure_future", lambda i, a, k: scheduled.append(a[0]))
        rt.module_cache.pop("asyncio", None)
        rt.call_hooks["Opaque"] = self.x.h_opaque_call

        def callback(i, a, k):
            called.append(a[0])
            return Opaque("coro-of-callback")
        creds = self.creds(interp, "V2C")
        reg = get_func(rt, interp, self.target)
        interp.call(reg, [Builtin("callback", callback)], {"credentials": creds, "loop": Obj(loop_cls)})
        T = "puresnmp.api.raw:register_trap_callback.decode"
        ok = "decode" in captured
        ctx.check(oname("C19", T, "ensures", "a-decoder-is-registered-with-the-listener"), ok)
        if not ok:
            return "?"
        F = rfc.Forms("any", ctx)
        rid = ctx.fresh_int("rid")
        n = self.k + 2
        oids = [ctx.fresh_oid("trap_oid%d" % i) for i in range(n)]
        vals = [self.xv.fresh(ctx, "trap_val%d" % i) for i in range(n)]
        own = SBytes(rt.f_str_ascii(creds.fields["community"].e))
        comm = own if self.community_ok else ctx.fresh_bytes("foreign_community")
        if not self.community_ok:
            ctx.assume(Not(interp.eq(comm, own)))
        raw = rfc.community_message(1, comm, rfc.pdu(rfc.TRAP2, rid, 0, 0, [(o, WVal(v)) for o, v in zip(oids, vals)], F), F)
        info = Obj(get_cls(rt, interp, "puresnmp.typevars:SocketInfo"), {"address": ctx.fresh_str("peer_address"), "port": ctx.fresh_int("peer_port")})
        packet = Obj(get_cls(rt, interp, "puresnmp.typevars:SocketResponse"), {"data": raw, "info": info})
        exc = None
        try:
            interp.call(captured["decode"], [packet], {})
        except PyExc as pe:
            exc = pe.obj
        ctx.check(oname("C20", T, "frame", "a-datagram-leaves-no-state-behind(no-module-level-write-no-listener-state)"),
                  not rt.global_writes)
        if not self.community_ok:
            ctx.check(oname("C19", T, "ensures", "foreign-community-is-never-delivered"), not called and not scheduled)
            return "dropped"
        ctx.check(oname("C19", T, "ensures", "no-exception-for-a-well-formed-notification(no-TypeError)"), exc is None)
        ok = len(called) == 1 and len(scheduled) == 1
        ctx.check(oname("C19", T, "ensures", "delivered-to-the-callback-exactly-once"), ok)
        if not ok:
            return "?"
        trap = called[0]
        ok = isinstance(trap, Obj) and trap.cls.name == "Trap"
        ctx.check(oname("C19", T, "ensures", "delivered-as-a-Trap"), ok)
        if not ok:
            return "?"
        src = trap.fields.get("source")
        ctx.check(oname("C19", T, "ensures", "source-is-the-senders-address"), src is info or (
            isinstance(src, Obj) and And(interp.eq(src.fields.get("address"), info.fields["address"]),
                                         interp.eq(src.fields.get("port"), info.fields["port"])) is True))
        content = rt.getattr(interp, trap, "value")
        vbs = content.fields.get("varbinds")
        ok = isinstance(vbs, list) and len(vbs) == n
        ctx.check(oname("C19", T, "ensures", "exactly-the-bindings-sent(count)"), ok)
        if ok:
            ctx.check(oname("C19", T, "ensures", "exactly-the-bindings-sent(uptime,trap-oid,payload-in-order)"),
                      And(*[And(interp.eq(vbs[i][0], oids[i]), interp.eq(vbs[i][1], vals[i])) for i in range(n)]))
        # a second notification with the SAME octets from another sender (a retransmission through another path, two agents
        # sending identical notifications): delivered as well, with ITS origin, and the Trap delivered first keeps its own
        info2 = Obj(get_cls(rt, interp, "puresnmp.typevars:SocketInfo"), {"address": ctx.fresh_str("peer2_address"), "port": ctx.fresh_int("peer2_port")})
        packet2 = Obj(get_cls(rt, interp, "puresnmp.typevars:SocketResponse"), {"data": raw, "info": info2})
        exc2 = None
        try:
            interp.call(captured["decode"], [packet2], {})
        except PyExc as pe:
            exc2 = pe.obj
        ok = exc2 is None and len(called) == 2 and len(scheduled) == 2
        ctx.check(oname("C19", T, "ensures", "an-identical-datagram-from-another-sender-is-delivered-too(exactly-once)"), ok)
        if ok:
            def src_is(t, inf):
                s_ = t.fields.get("source") if isinstance(t, Obj) else None
                return s_ is inf or (isinstance(s_, Obj) and And(interp.eq(s_.fields.get("address"), inf.fields["address"]),
                                                                 interp.eq(s_.fields.get("port"), inf.fields["port"])))
            ctx.check(oname("C19", T, "ensures", "second-delivery-carries-its-own-senders-address"), src_is(called[1], info2))
            ctx.check(oname("C19", T, "ensures", "the-trap-delivered-first-keeps-its-senders-address"), src_is(called[0], info))
            vbs1 = rt.getattr(interp, called[0], "value").fields.get("varbinds")
            ctx.check(oname("C19", T, "ensures", "the-trap-delivered-first-keeps-its-bindings"),
                      isinstance(vbs1, list) and len(vbs1) == n and
                      And(*[And(interp.eq(vbs1[i][0], oids[i]), interp.eq(vbs1[i][1], vals[i])) for i in range(n)]))
        return "delivered"


def units_c05(tier):
    us = []
    ks = (1, 2) if tier == "quick" else (1, 2, 3)
    for fam in ("V1", "V2C"):
        for k in ks:
            for op in ("multiget", "multigetnext", "multiset"):
                us.append(Emit(fam, op, k))
        us.append(Emit(fam, "bulkget", 2, m=ctxless_int(3), ns=1))
        us.append(Emit(fam, "bulkget", 1, m=ctxless_int(1), ns=0))
        us.append(Emit(fam, "bulkget", 2, m="any", ns=1))
        us.append(EmitAfterReconfigure(fam, False))
        us.append(EmitAfterReconfigure(fam, True))
        other = "V2C" if fam == "V1" else "V1"
        us.append(EmitAfterReconfigure(fam, False, other))
        us.append(EmitAfterReconfigure(fam, True, other))
    # LARGE shapes (a chunk size or cap that only acts on long lists): one request far above the enumerated sizes
    big = 70 if tier == "quick" else 300
    us.append(Emit("V2C", "multiget", big))
    us.append(Emit("V2C", "multigetnext", big))
    us.append(Emit("V2C", "multiset", big))
    us.append(Emit("V2C", "bulkget", big, m="any", ns=3))
    return us


def ctxless_int(n):
    return n


def units_family_switch(tier):
    return [AnswerAfterFamilySwitch(a, b, st) for (a, b) in (("V1", "V2C"), ("V2C", "V1")) for st in (True, False)]


def units_rx(tier):
    us = [TableOfErrors()]
    ks = (0, 1, 2) if tier == "quick" else (0, 1, 2, 3)
    for fam in ("V1", "V2C"):
        for k in ks:
            us.append(Receive(fam, k, False))
            us.append(Receive(fam, k, True))
    return us


def units_c19(tier):
    us = []
    for k in ((0, 1, 2) if tier == "quick" else (0, 1, 2, 3)):
        us.append(TrapDelivery(k, True))
    us.append(TrapDelivery(1, False))
    us.append(TrapReceiver(False))
    us.append(TrapReceiver(True))
    us.append(TrapReceiver(False, ipv6=True))
    return us


class EmitAfterReconfigure(WireUnit):
    """Two requests on one client with a (same-family) credential change in between: the second datagram
    carries the credentials in force when it is sent (C05; also the C18 clause on what reaches the message layer)."""
    props = ("C05", "C18")
    target = "puresnmp.api.raw:Client.multiget"

    def __init__(self, family, temporary, family2=None):
        self.family, self.temporary, self.family2 = family, temporary, family2 or family
        mv = family.lower()
        self.functions = (self.target, "puresnmp.api.raw:Client._send", "puresnmp.api.raw:Client.configure",
                          "puresnmp.api.raw:Client.reconfigure",
                          "puresnmp_plugins.mpm.%s:%sMPM.encode" % (mv, family),
                          "puresnmp_plugins.security.%s:SNMP%sSecurityModel.generate_request_message" % (mv, mv))
        self.name = "%s multiget, %s(credentials=other community%s), multiget" % (
            family, "reconfigure" if temporary else "configure", "" if self.family2 == family else " of family %s" % self.family2)

    def run(self, interp):
        ctx, rt = interp.ctx, self.rt
        sent = []
        tmo = get_cls(rt, interp, "puresnmp.exc:Timeout")

        def sender(i, a, k):
            sent.append((a, k))
            raise PyExc(rt.instantiate(i, tmo, ["stop"], {}))
        c1, c2 = self.creds(interp, self.family), self.creds(interp, self.family2)
        rt.call_hooks["Opaque"] = self.x.h_opaque_call
        client = rt.instantiate(interp, get_cls(rt, interp, "puresnmp.api.raw:Client"), ["192.0.2.1", c1],
                                {"sender": Builtin("sender", sender)})
        oid = ctx.fresh_oid("oid")
        fn = get_func(rt, interp, self.target)

        def request():
            try:
                interp.call(BoundMethod(fn, client), [[oid]], {})
            except PyExc as pe:
                if not exc_is(pe.obj, tmo):
                    raise
        request()
        if self.temporary:
            mgr = interp.call(BoundMethod(get_func(rt, interp, "puresnmp.api.raw:Client.reconfigure"), client), [], {"credentials": c2})
            interp.run_ctxmgr(mgr, lambda v: request())
        else:
            interp.call(BoundMethod(get_func(rt, interp, "puresnmp.api.raw:Client.configure"), client), [], {"credentials": c2})
            request()
        request()
        ok = len(sent) == 3
        for p in self.props:
            interp.ctx.check(oname(p, self.target, "ensures", "three-datagrams"), ok)
        if not ok:
            return "?"
        expect = [c1, c2, c1 if self.temporary else c2]
        for n, (cr, (a, k)) in enumerate(zip(expect, sent)):
            # the version field follows the credentials' family (V2C is a subclass of V1: a switch between the two is a switch)
            version = 0 if cr.cls.name == "V1" else 1
            F = rfc.Forms("x690")
            rid = self.clock_vals[n] if n < len(self.clock_vals) else SInt(z3.Int("no-clock-read"))
            spec = rfc.community_message(version, SBytes(rt.f_str_ascii(cr.fields["community"].e)),
                                         rfc.pdu(rfc.GET, rid, 0, 0, [(oid, None)], F), F)
            for p in self.props:
                ctx.check(oname(p, self.target, "ensures", "request-%d-carries-the-credentials-in-force-when-it-is-sent" % (n + 1)),
                          interp.eq(a[1], spec))
        return "emitted"


class AnswerAfterFamilySwitch(WireUnit):
    """C07 (version clause) after configure(credentials=<the other community family>): a response carrying the version of the
    family the client had BEFORE the switch is refused, one carrying the new family's version (and community) is accepted."""
    props = ("C07",)
    target = "puresnmp.api.raw:Client.multiget"

    def __init__(self, family, family2, stale_version):
        self.family, self.family2, self.stale = family, family2, stale_version
        self.functions = (self.target, "puresnmp.api.raw:Client._send", "puresnmp.api.raw:Client.configure")
        self.name = "%s client, configure(credentials=%s), multiget answered with the %s version" % (
            family, family2, "old family's" if stale_version else "new family's")

    def run(self, interp):
        ctx, rt = interp.ctx, self.rt
        c1, c2 = self.creds(interp, self.family), self.creds(interp, self.family2)
        rt.call_hooks["Opaque"] = self.x.h_opaque_call
        val = self.xv.fresh(ctx, "value")
        oid = ctx.fresh_oid("oid")
        F = rfc.Forms("min")
        vnew = 0 if self.family2 == "V1" else 1
        vold = 0 if self.family == "V1" else 1

        def sender(i, a, k):
            rid = self.clock_vals[-1]
            version = vold if self.stale else vnew
            return rfc.community_message(version, SBytes(rt.f_str_ascii(c2.fields["community"].e)),
                                         rfc.pdu(rfc.RESPONSE, rid, 0, 0, [(oid, WVal(val))], F), F)
        client = rt.instantiate(interp, get_cls(rt, interp, "puresnmp.api.raw:Client"), ["192.0.2.1", c1],
                                {"sender": Builtin("sender", sender)})
        interp.call(BoundMethod(get_func(rt, interp, "puresnmp.api.raw:Client.configure"), client), [], {"credentials": c2})
        exc = res = None
        try:
            res = interp.call(BoundMethod(get_func(rt, interp, self.target), client), [[oid]], {})
        except PyExc as pe:
            exc = pe.obj
        if self.stale:
            ctx.check(oname("C07", self.target, "raises", "a-response-of-the-family-before-the-switch-is-refused"),
                      exc is not None and exc_is(exc, get_cls(rt, interp, "puresnmp.exc:SnmpError")))
            return "raises"
        ctx.check(oname("C07", self.target, "ensures", "a-response-of-the-new-family-is-accepted"),
                  exc is None and isinstance(res, list) and len(res) == 1 and interp.eq(res[0], val))
        return "returns"


class TrapReceiver(VU):
    """SNMPTrapReceiverProtocol.datagram_received: forwards once, touches nothing else - whatever the callback does."""
    props = ("C19",)
    label = "proved"
    target = "puresnmp.transport:SNMPTrapReceiverProtocol.datagram_received"
    functions = (target,)

    def __init__(self, callback_raises, ipv6=False):
        self.callback_raises, self.ipv6 = callback_raises, ipv6
        self.name = "SNMPTrapReceiverProtocol.datagram_received[callback %s%s]" % (
            "raises" if callback_raises else "returns", ", IPv6 peer (4-tuple address)" if ipv6 else "")

    def setup(self, rt, interp):
        self.rt = rt

    def run(self, interp):
        ctx, rt = interp.ctx, self.rt
        touched, calls = [], []
        tcls = PyClass("transport(contract-slot)", [], kind="builtin")
        for m in ("close", "abort", "sendto", "get_extra_info", "is_closing"):
            tcls.native_attrs[m] = Builtin("transport." + m, (lambda mm: lambda i, a, k: touched.append(mm))(m))
        boom = Obj(rt.builtin_class("RuntimeError"), {"args": ("decode failed",)})

        def callback(i, a, k):
            calls.append(a[0])
            if self.callback_raises:
                raise PyExc(boom)
        proto = Obj(get_cls(rt, interp, "puresnmp.transport:SNMPTrapReceiverProtocol"),
                    {"callback": Builtin("callback", callback), "transport": Obj(tcls)})
        data = ctx.fresh_bytes("datagram")
        addr = (ctx.fresh_str("peer"), ctx.fresh_int("port"))
        if self.ipv6:
            # asyncio hands an AF_INET6 peer over as (host, port, flowinfo, scope_id)
            addr = addr + (ctx.fresh_int("flowinfo"), ctx.fresh_int("scope_id"))
        exc = None
        try:
            interp.call(BoundMethod(get_func(rt, interp, self.target), proto), [data, addr], {})
        except PyExc as pe:
            exc = pe.obj
        T = self.target
        ok = len(calls) == 1 and isinstance(calls[0], Obj) and calls[0].cls.name == "SocketResponse"
        ctx.check(oname("C19", T, "ensures", "callback-invoked-exactly-once-with-a-SocketResponse"), ok)
        if ok:
            info = calls[0].fields.get("info")
            ctx.check(oname("C19", T, "ensures", "with-the-datagram-and-the-senders-address"),
                      And(interp.eq(calls[0].fields.get("data"), data), isinstance(info, Obj) and And(
                          interp.eq(info.fields.get("address"), addr[0]), interp.eq(info.fields.get("port"), addr[1]))))
        ctx.check(oname("C19", T, "frame", "the-listening-transport-is-never-touched(a-bad-datagram-does-not-stop-later-deliveries)"),
                  not touched)
        if self.callback_raises:
            ctx.check(oname("C19", T, "raises", "the-callbacks-exception-is-left-to-the-event-loop"), exc is boom or exc is None)
        return "done"
