"""
C15: the pythonic wrapper returns only built-in Python types, equal to the element-wise
pythonisation of what the raw client returned.

The raw client is a contract slot: each of its methods returns a symbolic raw result of an
enumerated shape (values of ANY SNMP type: an environment value v, whose pythonisation is the
opaque python value pythonize(v); OIDs symbolic).  ``builtin(x)`` below is the property's list:
str, int, bytes, timedelta, IPv4Address, None (all represented by pythonised values and str/int
terms), lists, tuples (PyVarBind is a tuple), dicts - keys included - and the BulkResult record.
That pythonize() of each value class returns a built-in is a per-class contract: TimeTicks.pythonize
is verified in C17, the x690 base classes are assumed (validated natively).
"""
import z3

from pyvc import core
from pyvc.core import And, Or, Not, Implies, lift_bool, Undecided, SInt, SOid, SXVal, SStr, SPy, SBytes, Sym
from pyvc.objects import Obj, NT, PyExc, PDict, PyClass, Builtin, BoundMethod, GenResult
from pyvc.vu import VU
from pyvc.theories import OidTheory, XValTheory
from .common import oname, get_cls, exc_is, get_func, varbind

PYTHONIC = "puresnmp.api.pythonic:PyWrapper."


def builtin(v):
    if v is None or isinstance(v, (str, int, bytes, bool, float, SStr, SInt, SBytes, SPy)):
        return True
    if isinstance(v, (list, tuple)):          # NT (PyVarBind) is a tuple
        return all(builtin(x) for x in v)
    if isinstance(v, PDict):
        return all(builtin(k) and builtin(x) for k, x in v.pairs)
    if isinstance(v, Obj) and v.cls.name == "BulkResult":
        return all(builtin(x) for x in v.fields.values())
    return False


def deep_eq(interp, a, b):
    """structural equality of results (dicts by position: both sides are built in response order)"""
    if isinstance(a, PDict) and isinstance(b, PDict):
        if len(a.pairs) != len(b.pairs):
            return False
        return And(*[And(deep_eq(interp, ka, kb), deep_eq(interp, va, vb)) for (ka, va), (kb, vb) in zip(a.pairs, b.pairs)])
    if isinstance(a, (list, tuple)) and isinstance(b, (list, tuple)):
        if len(a) != len(b):
            return False
        return And(*[deep_eq(interp, x, y) for x, y in zip(a, b)])
    if isinstance(a, Obj) and isinstance(b, Obj) and a.cls is b.cls and a.cls.kind == "dataclass":
        return And(*[deep_eq(interp, a.fields[f], b.fields[f]) for f in a.cls.fields])
    if isinstance(a, (PDict, list, tuple)) or isinstance(b, (PDict, list, tuple)):
        return False
    return interp.eq(a, b)


class WrapperUnit(VU):
    props = ("C15",)
    label = "proved-shape-bounded(result containers of the enumerated sizes; values and OIDs symbolic)"

    def __init__(self, method, k):
        self.method, self.k = method, k
        self.target = PYTHONIC + method
        self.functions = (self.target, "puresnmp.varbind:PyVarBind.from_raw")
        if method == "set":
            self.functions += (PYTHONIC + "multiset",)
        self.name = "PyWrapper.%s[%d]" % (method, k)

    def setup(self, rt, interp):
        self.rt = rt
        if rt.oid is None:
            rt.oid = OidTheory(rt)
        self.xv = XValTheory(rt, interp)
        rt.f_oid_of_str = z3.Function("oid_of_str", core.PStr, core.OID)
        s = z3.Const("s", core.PStr)
        rt.theory.add_once("x690:ObjectIdentifier(str)", lambda: z3.ForAll([s], rt.f_oidstr(rt.f_oid_of_str(s)) == rt.f_str_lstrip(s)))
        rt.theory.note("x690 ObjectIdentifier(text): str(ObjectIdentifier(t)) == t.lstrip('.') (assumed contract of x690)")

        a, b = z3.Const("a", core.OID), z3.Const("b", core.OID)
        rt.theory.add_once("x690:str(oid)-injective", lambda: z3.ForAll([a, b], z3.Implies(rt.f_oidstr(a) == rt.f_oidstr(b), a == b)))
        rt.theory.note("str(oid) (dotted decimal) is injective on OIDs (assumed; validated by enumeration)")

        def new_oid(i, cls, args, kwargs):
            if args and isinstance(args[0], SStr):
                return SOid(rt.f_oid_of_str(args[0].e))
            return NotImplemented
        rt.hooks["new:x690.types:ObjectIdentifier"] = new_oid

    # pythonisation of a raw result: the specification side
    def py(self, interp, v):
        rt = self.rt
        if isinstance(v, SXVal):
            return SPy(rt.f_pyz(v.e))
        if isinstance(v, SOid):
            return SStr(rt.f_oidstr(v.e))
        if isinstance(v, NT) and v.pycls.name == "VarBind":
            return NT(get_cls(rt, interp, "puresnmp.varbind:PyVarBind"), [self.py(interp, v[0]), self.py(interp, v[1])])
        if isinstance(v, list):
            return [self.py(interp, x) for x in v]
        if isinstance(v, PDict):
            return PDict([(self.py(interp, k), self.py(interp, x)) for k, x in v.pairs])
        if isinstance(v, Obj) and v.cls.name == "BulkResult":
            return Obj(v.cls, {f: self.py(interp, x) for f, x in v.fields.items()})
        return v

    def distinct(self, interp, keys):
        for i in range(len(keys)):
            for j in range(i + 1, len(keys)):
                interp.ctx.assume(Not(interp.eq(keys[i], keys[j])))
        return keys

    def raw_result(self, interp, method, args, kwargs):
        ctx, rt, k = interp.ctx, self.rt, self.k
        xv = lambda n: self.xv.fresh(ctx, n)
        vb = lambda j: varbind(rt, interp, ctx.fresh_oid("raw_oid%d" % j), xv("raw_val%d" % j))
        if method == "get":
            return xv("raw_val")
        if method == "getnext":
            return vb(0)
        if method == "multiget":
            return [xv("raw_val%d" % j) for j in range(k)]
        if method == "multiset":
            keys = self.distinct(interp, [ctx.fresh_oid("raw_oid%d" % j) for j in range(k)])      # keys of a dict
            return PDict([(keys[j], xv("raw_val%d" % j)) for j in range(k)])
        if method in ("walk", "multiwalk", "bulkwalk"):
            return GenResult([vb(j) for j in range(k)])
        if method == "bulkget":
            br = get_cls(rt, interp, "puresnmp.util:BulkResult")
            sk = self.distinct(interp, [ctx.fresh_oid("sc_oid%d" % j) for j in range(k)])
            lk = self.distinct(interp, [ctx.fresh_oid("ls_oid%d" % j) for j in range(k)])
            return Obj(br, {"scalars": PDict([(sk[j], xv("sc_val%d" % j)) for j in range(k)]),
                            "listing": PDict([(lk[j], xv("ls_val%d" % j)) for j in range(k)])})
        if method in ("table", "bulktable"):
            rows = []
            for j in range(k):
                cols = self.distinct(interp, ["0", ctx.fresh_str("col%d_a" % j), ctx.fresh_str("col%d_b" % j)])
                rows.append(PDict([("0", ctx.fresh_str("index%d" % j)), (cols[1], xv("cell%d_a" % j)),
                                   (cols[2], xv("cell%d_b" % j))]))
            return rows
        raise Undecided("raw method %s" % method)

    def run(self, interp):
        ctx, rt = interp.ctx, self.rt
        calls = []
        raw_cls = PyClass("raw.Client(contract-slot)", [], kind="builtin")

        def mk(method):
            def fn(i, a, kw):
                res = self.raw_result(i, method, a[1:], kw)
                calls.append((method, a[1:], kw, res))
                if isinstance(res, GenResult):
                    return GenResult(list(res.items))
                if isinstance(res, list) and method in ("table", "bulktable"):
                    return [r.copy() for r in res]      # the wrapper may consume the rows (it pops the index)
                return res
            return Builtin("raw." + method, fn)
        for m in ("get", "getnext", "multiget", "multiset", "set", "walk", "multiwalk", "bulkwalk", "bulkget", "table", "bulktable"):
            raw_cls.native_attrs[m] = mk(m)
        wrapper = Obj(get_cls(rt, interp, "puresnmp.api.pythonic:PyWrapper"), {"client": Obj(raw_cls)})
        m = self.method
        S = lambda n: ctx.fresh_str(n)
        if m in ("get", "getnext", "walk", "table", "bulktable"):
            args = [S("oid_text")]
        elif m in ("multiget", "multiwalk", "bulkwalk"):
            args = [[S("oid_text%d" % j) for j in range(max(self.k, 1))]]
        elif m == "set":
            args = [S("oid_text"), self.xv.fresh(ctx, "set_value")]
        elif m == "multiset":
            args = [PDict([(S("oid_text%d" % j), self.xv.fresh(ctx, "set_value%d" % j)) for j in range(max(self.k, 1))])]
        kwargs = {}
        if m == "bulkget":
            # max-repetitions counts PER repeating OID: with one repetition and several repeaters the listing is longer than it
            args = [[S("scalar_text")], [S("repeater_text%d" % j) for j in range(max(self.k, 1))]]
            kwargs = {"max_list_size": 1}
        fn = get_func(rt, interp, self.target)
        exc = result = None
        try:
            result = interp.call(BoundMethod(fn, wrapper), args, kwargs)
            if isinstance(result, GenResult):
                result = list(result.items)
        except PyExc as pe:
            exc = pe.obj
        T = self.target
        P = "C16" if "C16" in self.props and interp.prop == "C16" else "C15"
        if m == "set":
            raw_m = "multiset"
        else:
            raw_m = m
        ok = len(calls) == 1 and calls[0][0] == raw_m
        ctx.check(oname(P, T, "ensures", "delegates-once-to-the-raw-operation"), ok)
        if not ok:
            return "?"
        raw = calls[0][3]
        want = self.py(interp, list(raw.items) if isinstance(raw, GenResult) else raw)
        if m in ("table", "bulktable"):
            # rows: index under '0', every cell pythonised (key order is not part of the result)
            want = [PDict([(kk, vv) for kk, vv in r.pairs if kk != "0"] + [("0", r.pairs[0][1])]) for r in want]
        if m == "set":
            # the value the agent confirmed for the OID that was set (KeyError if it confirmed another one)
            if exc is not None:
                ctx.check(oname(P, T, "raises", "only-KeyError-when-the-agent-confirmed-another-oid"),
                          exc_is(exc, rt.builtin_class("KeyError")))
                return "raises"
            ctx.check(oname(P, T, "ensures", "only-built-in-types"), builtin(result))
            ctx.check(oname(P, T, "ensures", "equals-the-pythonised-raw-result"),
                      Or(*[And(interp.eq(kk, SStr(rt.f_str_lstrip(args[0].e))), interp.eq(result, vv)) for kk, vv in want.pairs]))
            return "returns"
        ctx.check(oname(P, T, "ensures", "no-exception"), exc is None)
        if exc is not None:
            return "raises"
        ctx.check(oname(P, T, "ensures", "only-built-in-types(dictionary-keys-included)"), builtin(result))
        ctx.check(oname(P, T, "ensures", "equals-the-element-wise-pythonisation-of-the-raw-result"),
                  deep_eq(interp, result, want))
        return "returns"


class FromRaw(VU):
    props = ("C15", "C19")
    label = "proved"
    target = "puresnmp.varbind:PyVarBind.from_raw"
    functions = (target,)
    name = "PyVarBind.from_raw"

    def setup(self, rt, interp):
        self.rt = rt
        if rt.oid is None:
            rt.oid = OidTheory(rt)
        self.xv = XValTheory(rt, interp)

    def run(self, interp):
        ctx, rt = interp.ctx, self.rt
        o, v = ctx.fresh_oid("oid"), self.xv.fresh(ctx, "val")
        fn = get_func(rt, interp, self.target)
        res = interp.call(fn, [varbind(rt, interp, o, v)], {})
        ok = isinstance(res, NT) and res.pycls.name == "PyVarBind" and len(res) == 2
        for p in self.props:
            ctx.check(oname(p, self.target, "ensures", "is-a-PyVarBind"), ok)
            if ok:
                ctx.check(oname(p, self.target, "ensures", "oid-as-str-and-value-pythonised"),
                          And(interp.eq(res[0], SStr(rt.f_oidstr(o.e))), interp.eq(res[1], SPy(rt.f_pyz(v.e)))))
        return "returns"


class TrapView(VU):
    """pythonic.TrapInfo over a delivered Trap: origin, uptime, oid and values are those of THE trap it wraps - also for the
    second and third notification of a listener's life (a view kept at class level would hand out the first one's)."""
    props = ("C19",)
    label = "proved-shape-bounded(payload of the enumerated length; all leaves symbolic; three notifications in a row)"
    target = "puresnmp.api.pythonic:TrapInfo"
    functions = ("puresnmp.api.pythonic:TrapInfo.__init__", "puresnmp.api.pythonic:TrapInfo.origin", "puresnmp.api.pythonic:TrapInfo.uptime",
                 "puresnmp.api.pythonic:TrapInfo.oid", "puresnmp.api.pythonic:TrapInfo.values", "puresnmp.varbind:PyVarBind.from_raw")

    def __init__(self, k):
        self.k = k
        self.name = "pythonic.TrapInfo[%d payload bindings, three notifications]" % k

    def setup(self, rt, interp):
        self.rt = rt
        if rt.oid is None:
            rt.oid = OidTheory(rt)
        self.xv = XValTheory(rt, interp)

    def run(self, interp):
        ctx, rt = interp.ctx, self.rt
        cls = get_cls(rt, interp, "puresnmp.api.pythonic:TrapInfo")
        trap_cls = get_cls(rt, interp, "puresnmp.pdu:Trap")
        content_cls = get_cls(rt, interp, "puresnmp.pdu:PDUContent")
        info_cls = get_cls(rt, interp, "puresnmp.typevars:SocketInfo")
        T = self.target
        for round_ in range(3):
            n = self.k + 2
            oids = [ctx.fresh_oid("n%d_oid%d" % (round_, i)) for i in range(n)]
            vals = [self.xv.fresh(ctx, "n%d_val%d" % (round_, i)) for i in range(n)]
            addr = ctx.fresh_str("n%d_address" % round_)
            src = Obj(info_cls, {"address": addr, "port": ctx.fresh_int("n%d_port" % round_)})
            content = rt.instantiate(interp, content_cls, [ctx.fresh_int("rid"), [varbind(rt, interp, o, v) for o, v in zip(oids, vals)]], {})
            trap = rt.instantiate(interp, trap_cls, [content], {})
            rt.setattr(interp, trap, "source", src)
            view = rt.instantiate(interp, cls, [trap], {})
            tag = "(notification %d)" % (round_ + 1)
            ctx.check(oname("C19", T, "ensures", "origin-is-the-senders-address" + tag), interp.eq(rt.getattr(interp, view, "origin"), addr))
            ctx.check(oname("C19", T, "ensures", "uptime-is-the-first-binding-pythonised" + tag),
                      interp.eq(rt.getattr(interp, view, "uptime"), SPy(rt.f_pyz(vals[0].e))))
            ctx.check(oname("C19", T, "ensures", "oid-is-the-second-binding-pythonised" + tag),
                      interp.eq(rt.getattr(interp, view, "oid"), SPy(rt.f_pyz(vals[1].e))))
            # (two payload bindings with one OID collapse into one key: the later value wins, as in any dict)
            for i in range(2, n):
                for j in range(i + 1, n):
                    ctx.assume(Not(interp.eq(oids[i], oids[j])))
                    # str() of an OID is its dotted-decimal text: distinct OIDs have distinct texts
                    ctx.assume(Not(interp.eq(SStr(rt.f_oidstr(oids[i].e)), SStr(rt.f_oidstr(oids[j].e)))))
            values = rt.getattr(interp, view, "values")
            pairs = list(rt.dict_items(interp, values)) if isinstance(values, (PDict, dict)) else None
            ok = pairs is not None and len(pairs) == self.k
            ctx.check(oname("C19", T, "ensures", "values-has-one-entry-per-payload-binding" + tag), ok)
            if ok:
                ctx.check(oname("C19", T, "ensures", "values-maps-each-payload-oid-as-str-to-its-pythonised-value" + tag),
                          And(*[And(interp.eq(pairs[i][0], SStr(rt.f_oidstr(oids[i + 2].e))), interp.eq(pairs[i][1], SPy(rt.f_pyz(vals[i + 2].e))))
                                for i in range(self.k)]))
            # a view is read more than once (logged, then used): every later read gives what the first one gave
            again = rt.getattr(interp, view, "values")
            pairs2 = list(rt.dict_items(interp, again)) if isinstance(again, (PDict, dict)) else None
            ctx.check(oname("C19", T, "ensures", "a-second-read-of-the-view-gives-the-same" + tag),
                      ok and pairs2 is not None and len(pairs2) == len(pairs) and And(
                          interp.eq(rt.getattr(interp, view, "origin"), addr),
                          interp.eq(rt.getattr(interp, view, "uptime"), SPy(rt.f_pyz(vals[0].e))),
                          interp.eq(rt.getattr(interp, view, "oid"), SPy(rt.f_pyz(vals[1].e))),
                          *[And(interp.eq(a[0], b[0]), interp.eq(a[1], b[1])) for a, b in zip(pairs, pairs2)]))
        return "returns"


def units_trapview(tier):
    return [TrapView(k) for k in ((0, 1, 2) if tier == "quick" else (0, 1, 2, 3))]


LARGE_DICT = 12


def units(tier):
    us = [FromRaw()]
    ks = (0, 1, 2) if tier == "quick" else (0, 1, 2, 3)
    for m in ("get", "getnext", "set"):
        us.append(WrapperUnit(m, 1))
    us.append(WrapperUnit("set", 2))
    for m in ("multiget", "multiset", "walk", "multiwalk", "bulkwalk", "bulkget", "table", "bulktable"):
        for k in ks:
            us.append(WrapperUnit(m, k))
    # LARGE shapes: one container far above the enumerated sizes (chunking, caps and thresholds act only there)
    for m in ("multiget", "walk", "multiwalk", "bulkwalk", "table", "bulktable"):
        us.append(WrapperUnit(m, 40 if tier == "quick" else 300))
    us.append(WrapperUnit("multiset", 5))
    for m in ("bulkget",):          # dictionaries keyed by str(oid): every insertion compares with every earlier key
        us.append(WrapperUnit(m, LARGE_DICT))
    return us


def units_tables(tier):
    """the pythonic table wrappers also serve C16"""
    us = []
    for m in ("table", "bulktable"):
        for k in (0, 1, 2):
            u = WrapperUnit(m, k)
            u.props = ("C15", "C16")
            us.append(u)
    return us
