"""
Contracts of the walk pipeline (C01, C02, C03): Client.multiwalk with both fetchers.

Everything between ``multiwalk`` and the ``_send`` seam is executed from the real ASTs
(multigetnext / the bulk fetcher closure / bulkget / group_varbinds / get_unfinished_walk_oids /
deduped_varbinds); ``_send`` is used by contract with an RFC 3416 agent as environment:

  DB      arbitrary set of instance OIDs (predicate indb), val : OID -> value (no exception markers)
  succ    least element of DB greater than x (has_succ false = endOfMibView)
  GETNEXT one row:  position i answers succ(q_i) or (q_i, endOfMibView)
  GETBULK the n + m*r table of RFC 3416 4.2.3, cut after ANY number c >= 1 of bindings

The ``while unfinished_oids`` loop is verified by the inductive invariant below (DESIGN 7.1).
Roots: n pairwise disjoint OIDs, named r0 < r1 < ... ; the caller's listing order is a
permutation (one unit per permutation), which is what makes the result order-independent.
"""
import itertools

import z3

from pyvc import core
from pyvc.core import And, Or, Not, Implies, lift_bool, Undecided, SInt, SOid, SXVal, OID, XVal, Int, Bool, zbool, zint
from pyvc.objects import Obj, NT, PyExc, PDict, PSet, ASet, GenResult, BoundMethod
from pyvc.interp import LoopClause
from .common import ApiUnit, SendSeam, oname, get_cls, bare_client, varbind, exc_is, get_func, pdu_varbinds

T_MULTIWALK = "puresnmp.api.raw:Client.multiwalk"


def loop_roles(program):
    """The walk loop's state is addressed by ROLE, not by the names the code happens to use:
         unfinished : the name the `while` condition tests
         yielded    : the set handed to deduped_varbinds (third argument / keyword `yielded`) inside the loop
         fetcher    : the name awaited with the next OIDs inside the loop
       (a rename of these locals is harmless and must not disturb the contract)."""
    import ast
    from pyvc.interp import nth_loop, loop_assigned_names
    fi = program.find_function(T_MULTIWALK)
    if fi is None:
        raise Undecided("multiwalk not found")
    loop = nth_loop(fi.node, 0)
    if loop is None:
        raise Undecided("multiwalk no longer has a `while` loop: the loop contract has nothing to attach to")
    # the locals the condition READS (names it binds itself - a walrus target, comprehension variables - are not loop state)
    bound = {n.id for n in ast.walk(loop.test) if isinstance(n, ast.Name) and isinstance(n.ctx, ast.Store)}
    names = sorted({n.id for n in ast.walk(loop.test) if isinstance(n, ast.Name) and isinstance(n.ctx, ast.Load)} - bound)
    if len(names) != 1:
        raise Undecided("multiwalk: the loop condition does not test exactly one local (%r)" % names)
    roles = {"unfinished": names[0], "yielded": None, "fetcher": None}
    for n in ast.walk(loop):
        if isinstance(n, ast.Call) and isinstance(n.func, ast.Name) and n.func.id == "deduped_varbinds":
            arg = n.args[2] if len(n.args) > 2 else next((k.value for k in n.keywords if k.arg == "yielded"), None)
            if isinstance(arg, ast.Name):
                roles["yielded"] = arg.id
        if isinstance(n, ast.Await) and isinstance(n.value, ast.Call) and isinstance(n.value.func, ast.Name):
            roles["fetcher"] = n.value.func.id
    if roles["yielded"] is None:
        raise Undecided("multiwalk: the set of delivered OIDs (argument of deduped_varbinds in the loop) was not found")
    roles["temporaries"] = sorted(loop_assigned_names(loop) - {roles["unfinished"], roles["yielded"]})
    return roles
WALK_FUNCS = ("puresnmp.api.raw:Client.multiwalk", "puresnmp.api.raw:Client._walk_stalled",
              "puresnmp.api.raw:Client.multigetnext",
              "puresnmp.api.raw:deduped_varbinds", "puresnmp.util:group_varbinds",
              "puresnmp.util:get_unfinished_walk_oids")
BULK_FUNCS = ("puresnmp.api.raw:Client._bulkwalk_fetcher", "puresnmp.api.raw:Client.bulkget",
              "puresnmp.pdu:BulkGetRequest.__init__")


class AgentModel:
    """RFC 3416 agent over an arbitrary database, as axioms over uninterpreted functions."""

    def __init__(self, rt, xv, conformant=True):
        self.rt = rt
        th = rt.theory
        oid = rt.oid
        F = z3.Function
        self.indb = F("agent_indb", OID, Bool)
        self.has_succ = F("agent_has_succ", OID, Bool)
        self.succ = F("agent_succ", OID, OID)
        self.val = F("agent_val", OID, XVal)
        self.rank = F("ghost_rank", OID, Int)
        self.N = z3.Int("ghost_universe_size")
        x, y = z3.Const("x", OID), z3.Const("y", OID)
        lt = oid.lt
        A = z3.ForAll
        if conformant:
            th.add_once("agent:S1", lambda: A([x], z3.Implies(self.has_succ(x), z3.And(self.indb(self.succ(x)), lt(x, self.succ(x))))))
            th.add_once("agent:S2", lambda: A([x, y], z3.Implies(z3.And(self.has_succ(x), self.indb(y), lt(x, y)),
                                                               z3.Not(lt(y, self.succ(x))))))
            th.add_once("agent:S3", lambda: A([x, y], z3.Implies(z3.And(z3.Not(self.has_succ(x)), self.indb(y)), z3.Not(lt(x, y)))))
            eom = get_cls(rt, None, "puresnmp.pdu:EndOfMibView") if False else None
        th.add_once("ghost:R1", lambda: A([x, y], z3.Implies(z3.And(self.indb(x), self.indb(y), lt(x, y)), self.rank(x) < self.rank(y))))
        th.add_once("ghost:R2", lambda: A([x], z3.Implies(self.indb(x), z3.And(self.rank(x) >= 0, self.rank(x) < self.N))))
        th.note("environment: RFC 3416 agent over an arbitrary database (uninterpreted indb/succ/val with the "
                "least-successor axioms); a finite database is expressed by the ghost rank function (strictly "
                "monotone on the database, bounded by N)")


class WalkUnit(ApiUnit):
    """multiwalk(oids in the order perm, fetcher) against a conformant agent: C01 (GETNEXT) / C02 (GETBULK)."""
    target = T_MULTIWALK
    timeout_ms = 20000

    def __init__(self, n, perm, bulk=None, prop="C01", phase="prologue", active=()):
        self.n, self.perm, self.bulk = n, tuple(perm), bulk
        self.phase, self.active = phase, tuple(active)
        self.props = (prop,)
        self.prop = prop
        self.functions = WALK_FUNCS + (BULK_FUNCS if bulk else ())
        what = ("first request, invariant established" if phase == "prologue"
                else "loop step from any invariant state, active roots %s, and exit" % (list(active),))
        self.name = "Client.multiwalk[roots=%d,order=%s,%s,%s]" % (n, "".join(map(str, perm)),
                                                                   "GETBULK(max-repetitions=%d)" % bulk if bulk else "GETNEXT", what)
        self.label = ("proved-shape-bounded(%d roots in listing order %s%s; database, OIDs, values, number of "
                      "iterations unbounded)" % (n, perm, ", %d repetitions, every cut" % bulk if bulk else ""))

    # ------------------------------------------------------------------ environment
    def setup(self, rt, interp):
        super().setup(rt, interp)
        self.agent = AgentModel(rt, self.xv)
        eom = get_cls(rt, interp, "puresnmp.pdu:EndOfMibView")
        self.eom_id = rt.class_id(eom)
        markers = [rt.class_id(get_cls(rt, interp, "puresnmp.pdu:" + c)) for c in ("EndOfMibView", "NoSuchObject", "NoSuchInstance")]
        x = z3.Const("x", OID)
        rt.theory.add_once("agent:V1", lambda: z3.ForAll([x], z3.And(*[rt.f_cls(self.agent.val(x)) != m for m in markers])))
        pdu_ids = self.xv.ids_of(get_cls(rt, interp, "puresnmp.pdu:PDU"))
        self.Yg = z3.K(OID, z3.BoolVal(False))
        self.roles = loop_roles(interp.program)
        self.responses = []       # ghost: (request oids, cells, cut) per request
        self.in_loop = False
        interp.on_yield = self.on_yield
        interp.loop_clauses[(T_MULTIWALK, 0)] = LoopClause(self.havoc, self.invariant, self.variant,
                                                           mode="establish" if self.phase == "prologue" else "step")

    def respond(self, interp, pdu, n):
        """The agent's answer to a GETNEXT / GETBULK request (list of VarBind)."""
        ctx, rt, ag = interp.ctx, self.rt, self.agent
        qs = [vb[0] for vb in pdu_varbinds(interp, pdu)]
        k = len(qs)
        if pdu.cls.name == "GetNextRequest":
            m = 1
        elif pdu.cls.name == "BulkGetRequest":
            m = pdu.fields["max_repeaters"]
            nr = pdu.fields["non_repeaters"]
            # (any repetition count >= 1 gives the same walk; that the datagram carries the CALLER's value is C05's)
            ctx.check(oname(self.prop, self.target, "call:_send", "bulk-request-has-no-non-repeaters-and-at-least-one-repetition"),
                      And(interp.eq(nr, 0), isinstance(m, int) and m >= 1 if isinstance(m, int) else lift_bool(zint(m) >= 1)))
            if not isinstance(m, int):
                raise Undecided("symbolic max-repetitions")
        else:
            ctx.check(oname(self.prop, self.target, "call:_send", "walk-request-class"), False)
            raise core.PathInfeasible()
        cells = []
        prev = [(q.e, None) for q in qs]
        for j in range(m):
            row = []
            for i in range(k):
                po, pend = prev[i]
                ended = z3.Not(ag.has_succ(po)) if pend is None else z3.Or(pend, z3.Not(ag.has_succ(po)))
                o = z3.If(ended, po, ag.succ(po))
                v = ctx.fresh_xval("answer_r%d_c%d" % (j, i))
                if getattr(self, "all_live", False):
                    # LARGE shapes: every requested column still has an instance inside its root (one path per unit)
                    ctx.assume(lift_bool(z3.And(z3.Not(ended), z3.Or(*[z3.And(rt.oid.below(po, r.e), rt.oid.below(o, r.e))
                                                                      for r in self.roots]))))
                ctx.assume(lift_bool(z3.If(ended, rt.f_cls(v.e) == self.eom_id, v.e == ag.val(o))))
                row.append((o, ended, v))
                prev[i] = (o, ended)
            cells.extend(row)
        total = k * m
        cut = total
        if pdu.cls.name == "BulkGetRequest" and total > 1 and not getattr(self, "all_live", False):
            cvar = ctx.fresh_int("agent_cut")
            ctx.assume(And(cvar >= 1, cvar <= total))
            for c in range(1, total + 1):
                if c == total or ctx.branch(cvar.eq(c)):
                    cut = c
                    break
        self.responses.append({"qs": qs, "cells": cells, "cut": cut, "k": k, "m": m})
        return [varbind(rt, interp, SOid(z3.simplify(o)), v) for (o, e, v) in cells[:cut]]

    # ------------------------------------------------------------------ known-finding patterns
    def k_d1(self, resp):
        """an endOfMibView answer at a position followed (in the same row) by a live answer"""
        k, cells, cut = resp["k"], resp["cells"], resp["cut"]
        out = []
        for idx in range(cut):
            for idx2 in range(idx + 1, cut):
                out.append(z3.And(cells[idx][1], z3.Not(cells[idx2][1])))
        return lift_bool(z3.Or(*out)) if out else False

    def k_d2(self, resp):
        cells, cut = resp["cells"], resp["cut"]
        out = [cells[a][0] == cells[b][0] for a in range(cut) for b in range(a + 1, cut)]
        return lift_bool(z3.Or(*out)) if out else False

    def k_d18(self, resp):
        return resp["cut"] < resp["k"]

    def known_now(self):
        """(K, finding id) for the most recent response, by fetcher."""
        if not self.responses:
            return []
        r = self.responses[-1]
        if self.bulk:
            ks = [("D1", self.k_d1(r)), ("D2", self.k_d2(r)), ("D18", self.k_d18(r))]
        elif self.phase == "prologue":
            ks = [("D1", self.k_d1(r))]
        else:
            # GETNEXT walk, a request of the loop: the code asks in ascending root order, where an exhausted column cannot
            # precede a live one (no instance follows the exhausted column's OID, and every later column's OID does): the
            # situation of finding D1 arises in the FIRST request only, which goes out in listing order
            ks = []
        return ks

    # Only the obligations that the recorded defects actually break carry their patterns: the
    # defects LOSE instances (a subtree is dropped), they never deliver a wrong, foreign or repeated
    # instance and never raise.  Every other obligation is checked whole, so a change that misbehaves
    # differently in the same situations is still reported.
    LOSS_OBLIGATIONS = ("finished-root:every-target-was-delivered", "every-instance-strictly-below-a-root-was-delivered",
                        "active-root:every-target-up-to-the-last-oid-was-delivered")

    def kcheck(self, ctx, name, cond):
        """check; the loss obligations carry the open findings' patterns of the most recent response as K"""
        if any(name.endswith(x) for x in self.LOSS_OBLIGATIONS):
            ctx.check(name, cond, known=self.known_now())
        else:
            ctx.check(name, cond)

    # ------------------------------------------------------------------ ghost: what was delivered
    def in_roots(self, o):
        return z3.Or(*[self.rt.oid.below(o, r.e) for r in self.roots])

    def on_yield(self, interp, frame, value):
        if frame.func is None or frame.func.info.fullname != T_MULTIWALK or self.prop == "C14":
            return
        ctx = interp.ctx
        ok = isinstance(value, NT) and len(value) == 2 and isinstance(value[0], SOid)
        base = oname(self.prop, self.target, "yield", "")
        ctx.check(base + "is-a-varbind", ok)
        if not ok:
            return
        o = value[0].e
        self.kcheck(ctx, base + "not-delivered-before", lift_bool(z3.Not(z3.Select(self.Yg, o))))
        self.kcheck(ctx, base + "is-an-instance-of-the-agent-with-its-value",
                    And(lift_bool(self.agent.indb(o)), interp.eq(value[1], SXVal(self.agent.val(o)))))
        self.kcheck(ctx, base + "lies-below-a-requested-root", lift_bool(self.in_roots(o)))
        if self.n == 1 and self.prop == "C01":
            y = z3.Const("y", OID)
            self.kcheck(ctx, base + "ascending-order(single-root)",
                        lift_bool(z3.ForAll([y], z3.Implies(z3.Select(self.Yg, y), self.rt.oid.lt(y, o)))))
        self.Yg = z3.Store(self.Yg, o, z3.BoolVal(True))

    # ------------------------------------------------------------------ loop clause
    def _havoc_locals(self, frame, un):
        from pyvc.interp import Poison
        frame.locals[self.roles["unfinished"]] = un
        if self.roles["fetcher"]:
            frame.locals[self.roles["fetcher"]] = self.real_fetcher      # as resolved by the first statements of multiwalk
        for name in self.roles["temporaries"]:
            if name != self.roles["fetcher"]:
                frame.locals[name] = Poison(name)      # assigned by the body; reading it first = loop-carried state

    def _state(self, interp, frame):
        un = frame.locals.get(self.roles["unfinished"])
        ys = frame.locals.get(self.roles["yielded"])
        if not isinstance(un, list):
            raise Undecided("multiwalk: unfinished_oids is not a list at the loop head")
        entries = []
        for item in un:
            if not (isinstance(item, tuple) and len(item) == 2 and isinstance(item[1], Obj)):
                raise Undecided("multiwalk: unexpected element in unfinished_oids")
            row = item[1]
            vb = row.fields.get("value")
            entries.append((item[0], vb[0], vb[1], row.fields.get("unfinished")))
        if isinstance(ys, ASet):
            arr = ys.arr
        elif isinstance(ys, PSet):
            arr = z3.K(OID, z3.BoolVal(False))
            for it in ys.items:
                arr = z3.Store(arr, it.e, z3.BoolVal(True))
        else:
            raise Undecided("multiwalk: `yielded` is not a set at the loop head")
        return entries, arr

    def invariant(self, interp, frame, when):
        oidt, ag = self.rt.oid, self.agent
        if self.prop == "C14" and when != "assume":
            return []        # C14 only needs: state in locals (frame) and own request ids; exactness is C01/C02
        entries, arr = self._state(interp, frame)
        x = z3.Const("x", OID)
        lt, below = oidt.lt, oidt.below
        out = []
        roots = [r.e for r in self.sorted_roots]
        eroots = [e[0].e for e in entries]
        # shape: entries name distinct requested roots in ascending order, flagged unfinished
        shape = [z3.Or(*[er == r for r in roots]) for er in eroots]
        shape += [lt(eroots[i], eroots[i + 1]) for i in range(len(eroots) - 1)]
        out.append(("unfinished-list-names-requested-roots-in-ascending-order", lift_bool(z3.And(*shape)) if shape else True))
        for (er, last, lval, flag) in entries:
            out.append(("active-root:last-oid-is-an-instance-inside-its-root",
                        And(lift_bool(below(last.e, er.e)), lift_bool(ag.indb(last.e)))))
            out.append(("active-root:every-target-up-to-the-last-oid-was-delivered",
                        lift_bool(z3.ForAll([x], z3.Implies(z3.And(ag.indb(x), below(x, er.e), x != er.e,
                                                                    z3.Or(lt(x, last.e), x == last.e)), z3.Select(self.Yg, x))))))
        for r in roots:
            finished = z3.And(*[er != r for er in eroots]) if eroots else z3.BoolVal(True)
            out.append(("finished-root:every-target-was-delivered",
                        lift_bool(z3.Implies(finished, z3.ForAll([x], z3.Implies(z3.And(ag.indb(x), below(x, r), x != r),
                                                                             z3.Select(self.Yg, x)))))))
        out.append(("delivered-set-is-inside-the-database-and-the-roots",
                    lift_bool(z3.ForAll([x], z3.Implies(z3.Select(self.Yg, x), z3.And(ag.indb(x), self.in_roots(x)))))))
        out.append(("program-set-yielded-equals-the-delivered-set", lift_bool(arr == self.Yg)))
        if self.n == 1 and entries and self.prop == "C01":
            out.append(("single-root:nothing-delivered-beyond-the-last-oid",
                        lift_bool(z3.ForAll([x], z3.Implies(z3.Select(self.Yg, x), z3.Or(lt(x, entries[0][1].e), x == entries[0][1].e))))))
        if when == "entry" or when == "preserve":
            # establishment / preservation are where the recorded walk defects show up
            self._pending_known = self.known_now()
        return out

    def havoc(self, interp, frame):
        """An arbitrary state satisfying the invariant: every local the loop reads is (re)set here."""
        ctx, rt = interp.ctx, self.rt
        walkrow = get_cls(rt, interp, "puresnmp.util:WalkRow")
        self.in_loop = True
        self.responses = []
        Y0 = ctx.fresh(z3.ArraySort(OID, Bool), "delivered")
        self.Yg = Y0
        frame.locals[self.roles["yielded"]] = ASet(Y0)
        un = []
        for i, r in enumerate(self.sorted_roots):
            if i in self.active:
                last = ctx.fresh_oid("last_r%d" % i)
                lval = self.xv.fresh(ctx, "last_val_r%d" % i)
                un.append((r, Obj(walkrow, {"value": varbind(rt, interp, last, lval), "unfinished": True})))
        self._havoc_locals(frame, un)

    def variant(self, interp, frame):
        entries, _ = self._state(interp, frame)
        ag = self.agent
        total = z3.IntVal(0)
        for (er, last, lval, flag) in entries:
            total = total + (ag.N - ag.rank(last.e))
        return SInt(total)

    # ------------------------------------------------------------------ the unit
    def run(self, interp):
        ctx, rt = interp.ctx, self.rt
        oidt = rt.oid
        self.sorted_roots = [ctx.fresh_oid("root%d" % i) for i in range(self.n)]
        for i in range(self.n - 1):
            ctx.assume(oidt.lt_sym(interp, self.sorted_roots[i], self.sorted_roots[i + 1]))
        for i in range(self.n):
            for j in range(self.n):
                if i != j:
                    ctx.assume(Not(oidt.below_sym(interp, self.sorted_roots[i], self.sorted_roots[j])))
        self.roots = self.sorted_roots
        ctx.mark_base()
        oids = [self.sorted_roots[p] for p in self.perm]
        seam = SendSeam(self, self.respond)
        seam.install(rt, interp)
        client = bare_client(rt, interp)
        kwargs = {}
        if self.bulk:
            mk = get_func(rt, interp, "puresnmp.api.raw:Client._bulkwalk_fetcher")
            self.real_fetcher = interp.call(BoundMethod(mk, client), [self.bulk], {})
            kwargs["fetcher"] = self.real_fetcher
        else:
            self.real_fetcher = BoundMethod(get_func(rt, interp, "puresnmp.api.raw:Client.multigetnext"), client)
        if self.phase == "step":
            # the statements before the loop are not what this unit verifies: an empty first answer takes one
            # path to the loop head, where the state is replaced by an arbitrary invariant state (havoc)
            from pyvc.objects import Builtin
            kwargs["fetcher"] = Builtin("stub-first-answer", lambda i, a, k: [])
        # multiwalk's own ensures at each exit, via a patched check that knows the findings' patterns
        orig_check = ctx.check

        def check(name, cond, known=None, finding=None, **kw):
            if known is None and ("/invariant-established:" in name or "/invariant-preserved:" in name) and any(
                    name.endswith(x) for x in self.LOSS_OBLIGATIONS):
                known = getattr(self, "_pending_known", None) or None
            return orig_check(name, cond, known=known, finding=finding, **kw)
        ctx.check = check
        if self.prop == "C14":
            # the error mode is the caller's, per walk: another walk of the same client may use the other one at the same time,
            # so it must not be remembered on the client either (frame obligation of call_target)
            kwargs["errors"] = "warn"
        exc = None
        try:
            self.call_target(interp, client, list(oids), **kwargs)
        except PyExc as pe:
            exc = pe.obj
        base = oname(self.prop, self.target, "exit", "")
        if self.prop == "C14":
            return "done"
        # (recorded finding D2 - duplicate OIDs collapse in BulkResult.listing and later positions shift - has one more
        #  symptom since the progress check of the D3 fix exists: a root that is itself an instance and receives, by the
        #  shift, its own OID as "answer" is refused as non-advancing. Only the D2 pattern is excused here.)
        d2 = [(f, k) for f, k in (self.known_now() or []) if f == "D2"]
        ctx.check(base + "no-exception-against-a-conformant-agent", exc is None, known=d2 or None)
        if exc is not None:
            return "raises:%s" % exc.cls.name
        # normal exit: the loop guard is false, i.e. every root is finished -> invariant gives full delivery.
        x = z3.Const("x", OID)
        ag = self.agent
        self.kcheck(ctx, base + "every-instance-strictly-below-a-root-was-delivered",
                    lift_bool(z3.ForAll([x], z3.Implies(z3.And(ag.indb(x), z3.Or(*[z3.And(oidt.below(x, r.e), x != r.e) for r in self.roots])),
                                                        z3.Select(self.Yg, x)))))
        return "returns"


LARGE_ROOTS = 6


def perms(n, tier):
    return list(itertools.permutations(range(n)))


def subsets(n):
    out = []
    for mask in range(0, 2 ** n):
        out.append(tuple(i for i in range(n) if mask & (1 << i)))
    return out


def walk_units(prop, n, m):
    us = []
    for p in perms(n, None):
        us.append(WalkUnit(n, p, m, prop, "prologue"))
    # the loop step does not depend on the listing order (the unfinished list is sorted by root)
    for act in subsets(n):
        us.append(WalkUnit(n, tuple(range(n)), m, prop, "step", act))
    return us


def large_walk_units(prop, n, m, tier="quick"):
    """LARGE shapes: many roots, every column alive and answered inside its root, complete responses - the first request and
    one loop step with every root active (a split of the roots over several requests or walks acts only there)"""
    us = [WalkUnit(n, tuple(range(n)), m, prop, "prologue")]
    if tier == "thorough" and m is None:
        # (GETNEXT only: with GETBULK every dictionary insertion of the listing forks on every earlier key - twelve roots with two
        #  repetitions take more than twenty minutes)
        us.append(WalkUnit(2 * n, tuple(range(2 * n)), m, prop, "prologue"))
        # (the step forks on "was this answer delivered before" per root: 2^n paths)
        us.append(WalkUnit(n, tuple(range(n)), m, prop, "step", tuple(range(n))))
    for u in us:
        u.all_live = True
        u.name = u.name[:-1] + ", every column answered inside its root]"
    return us


def units_c01(tier):
    us = []
    nmax = 3 if tier == "thorough" else 2
    for n in range(1, nmax + 1):
        us.extend(walk_units("C01", n, None))
    us.extend(large_walk_units("C01", LARGE_ROOTS, None, tier))
    return us


def units_c02(tier):
    us = []
    shapes = [(1, 1), (1, 2), (2, 1), (2, 2)]
    if tier == "thorough":
        shapes += [(1, 3), (2, 3), (3, 1), (3, 2)]
    for n, m in shapes:
        us.extend(walk_units("C02", n, m))
    us.extend(large_walk_units("C02", LARGE_ROOTS, 1 if tier == "quick" else 2, tier))
    return us


# =====================================================================================
# C03: termination, bounded requests and no re-request under ANY agent
# =====================================================================================

class FaultyWalkUnit(WalkUnit):
    """
    multiwalk against an agent that answers with ARBITRARY bindings (any OIDs, any values, endOfMibView
    anywhere, any count the fetcher accepts).  Ghost state:
      C   OIDs the client has already continued from (requested)
      W   one witness per loop iteration (the last OID of the first active root): pairwise distinct and
          all revealed by the agent  =>  #requests <= 1 + #distinct revealed instances
      Rv  OIDs revealed by the agent
    Finite universe: a ghost rank, strictly monotone on all OIDs and bounded by N, gives the variant.
    """

    def __init__(self, n, bulk, errors, phase, active=()):
        WalkUnit.__init__(self, n, tuple(range(n)), bulk, "C03", phase, active)
        self.errors = errors
        self.functions = self.functions + ("puresnmp.api.raw:Client._walk_stalled",)
        self.name = self.name.replace("Client.multiwalk[", "Client.multiwalk[any-agent,errors=%s," % errors)

    def setup(self, rt, interp):
        ApiUnit.setup(self, rt, interp)
        oidt = rt.oid
        F = z3.Function
        self.rank = F("ghost_rank", OID, Int)
        self.N = z3.Int("ghost_universe_size")
        x, y = z3.Const("x", OID), z3.Const("y", OID)
        rt.theory.add_once("ghost:finite-universe-1", lambda: z3.ForAll([x, y], z3.Implies(oidt.lt(x, y), self.rank(x) < self.rank(y))))
        rt.theory.add_once("ghost:finite-universe-2", lambda: z3.ForAll([x], z3.And(self.rank(x) >= 0, self.rank(x) < self.N)))
        rt.theory.note("C03: finite OID universe (the quantifier's wording) as a ghost rank: strictly monotone on all "
                       "OIDs, bounded by N; the agent is unconstrained")
        empty = z3.K(OID, z3.BoolVal(False))
        self.C, self.W, self.Rv = empty, empty, empty
        self.requests = 0
        self.responses = []
        self.exchanges = []
        self.cur_roots = None        # step units: the user roots of the columns requested in this iteration
        self.roles = loop_roles(interp.program)
        interp.on_yield = None
        interp.loop_clauses[(T_MULTIWALK, 0)] = LoopClause(self.havoc, self.invariant, self.variant,
                                                           mode="establish" if self.phase == "prologue" else "step")

    def respond(self, interp, pdu, n):
        ctx, rt = interp.ctx, self.rt
        qs = [vb[0] for vb in pdu_varbinds(interp, pdu)]
        k = len(qs)
        base = oname("C03", self.target, "call:_send", "")
        for q in qs:
            ctx.check(base + "never-asks-again-for-an-oid-it-continued-from", lift_bool(z3.Not(z3.Select(self.C, q.e))))
        for q in qs:
            self.C = z3.Store(self.C, q.e, z3.BoolVal(True))
        self.requests += 1
        if pdu.cls.name == "GetNextRequest":
            count = k
        else:
            m = pdu.fields["max_repeaters"]
            total = k * m
            cvar = ctx.fresh_int("agent_count")
            ctx.assume(And(cvar >= 0, cvar <= total))
            count = total
            for c in range(0, total + 1):
                if c == total or ctx.branch(cvar.eq(c)):
                    count = c
                    break
        out = []
        answers = []
        for j in range(count):
            o = ctx.fresh_oid("answer_oid%d" % j)
            v = self.xv.fresh(ctx, "answer_val%d" % j)
            self.Rv = z3.Store(self.Rv, o.e, z3.BoolVal(True))
            out.append(varbind(rt, interp, o, v))
            answers.append((o, v))
        self.exchanges.append({"bulk": pdu.cls.name != "GetNextRequest", "qs": qs, "answers": answers,
                               "roots": list(self.cur_roots) if self.cur_roots is not None else list(qs)})
        return out

    def stalled(self, interp):
        """(guard, stalled) for the last exchange of this path segment, or None.
        guard  : the answer's OIDs are pairwise distinct (two bindings with one OID and different values make the
                 client's sorted() compare x690 values: a TypeError that is a remark, not a claim)
        stalled: GETNEXT - some binding before the first endOfMibView does not lie behind the OID it answers;
                 GETBULK - for some column, the OID the walk would continue from (last one before the first
                 endOfMibView, still inside its root) does not lie behind the requested OID (the weaker reading of
                 'does not advance beyond the one requested': an earlier binding of a column that is out of order is
                 not held against the agent as long as the column's last binding advances)."""
        if not self.exchanges:
            return None
        ex = self.exchanges[-1]
        rt, oidt = self.rt, self.rt.oid
        eom = rt.class_id(get_cls(rt, interp, "puresnmp.pdu:EndOfMibView"))
        qs, ans, roots = ex["qs"], ex["answers"], ex["roots"]
        k, c = len(qs), len(ans)
        oe = [a[0].e for a in ans]
        guard = z3.Distinct(*oe) if len(oe) > 1 else z3.BoolVal(True)
        is_eom = [rt.f_cls(a[1].e) == eom for a in ans]
        vis = []
        for t in range(c):
            vis.append(z3.And(*[z3.Not(is_eom[s]) for s in range(t + 1)]))
        cases = []
        if not ex["bulk"]:
            for t in range(min(k, c)):
                cases.append(z3.And(vis[t], z3.Not(oidt.lt(qs[t].e, oe[t]))))
        else:
            for t in range(c):
                i = t % k
                is_last = vis[t] if t + k >= c else z3.And(vis[t], z3.Not(vis[t + k]))
                cases.append(z3.And(is_last, oidt.below(oe[t], roots[i].e), z3.Not(oidt.lt(qs[i].e, oe[t]))))
        return lift_bool(guard), lift_bool(z3.Or(*cases) if cases else z3.BoolVal(False))

    def known_now(self):
        return []

    def extra_exit_checks(self, interp, exc):
        pass

    def invariant(self, interp, frame, when):
        oidt = self.rt.oid
        entries, _arr = self._state(interp, frame)
        x = z3.Const("x", OID)
        lt, below = oidt.lt, oidt.below
        roots = [r.e for r in self.sorted_roots]
        eroots = [e[0].e for e in entries]
        out = []
        shape = [z3.Or(*[er == r for r in roots]) for er in eroots]
        shape += [lt(eroots[i], eroots[i + 1]) for i in range(len(eroots) - 1)]
        out.append(("unfinished-list-names-requested-roots-in-ascending-order", lift_bool(z3.And(*shape)) if shape else True))
        for (er, last, lval, flag) in entries:
            out.append(("active-root:last-oid-inside-its-root-and-revealed-by-the-agent",
                        And(lift_bool(below(last.e, er.e)), lift_bool(z3.Select(self.Rv, last.e)))))
            out.append(("active-root:every-oid-continued-from-lies-before-the-last-oid",
                        lift_bool(z3.ForAll([x], z3.Implies(z3.And(z3.Select(self.C, x), below(x, er.e)), lt(x, last.e))))))
        out.append(("continued-from-oids-lie-inside-the-roots",
                    lift_bool(z3.ForAll([x], z3.Implies(z3.Select(self.C, x), z3.Or(*[below(x, r) for r in roots]))))))
        out.append(("witnesses-were-continued-from-and-revealed",
                    lift_bool(z3.ForAll([x], z3.Implies(z3.Select(self.W, x), z3.And(z3.Select(self.C, x), z3.Select(self.Rv, x)))))))
        if when in ("entry", "preserve"):
            st = self.stalled(interp)
            if st is not None:
                out.append(("the-walk-goes-on-only-after-an-answer-that-advances", Not(And(st[0], st[1]))))
        return out

    def havoc(self, interp, frame):
        ctx, rt = interp.ctx, self.rt
        walkrow = get_cls(rt, interp, "puresnmp.util:WalkRow")
        arr = z3.ArraySort(OID, Bool)
        self.C, self.W, self.Rv = ctx.fresh(arr, "continued_from"), ctx.fresh(arr, "witnesses"), ctx.fresh(arr, "revealed")
        frame.locals[self.roles["yielded"]] = ASet(ctx.fresh(arr, "yielded"))
        un = []
        for i, r in enumerate(self.sorted_roots):
            if i in self.active:
                last = ctx.fresh_oid("last_r%d" % i)
                lval = self.xv.fresh(ctx, "last_val_r%d" % i)
                un.append((r, Obj(walkrow, {"value": varbind(rt, interp, last, lval), "unfinished": True})))
        self._havoc_locals(frame, un)
        self.exchanges = []
        self.cur_roots = [u[0] for u in un]
        self._witness_pending = un[0][1].fields["value"][0] if un else None

    def variant(self, interp, frame):
        entries, _ = self._state(interp, frame)
        # first evaluation (loop head): book the iteration's witness
        if getattr(self, "_witness_pending", None) is not None:
            w = self._witness_pending
            self._witness_pending = None
            interp.ctx.check(oname("C03", self.target, "loop[0]", "each-request-is-paid-for-by-a-new-revealed-instance"),
                             And(lift_bool(z3.Not(z3.Select(self.W, w.e))), lift_bool(z3.Select(self.Rv, w.e))))
            self.W = z3.Store(self.W, w.e, z3.BoolVal(True))
        total = z3.IntVal(0)
        for (er, last, lval, flag) in entries:
            total = total + (self.N - self.rank(last.e))
        return SInt(total)

    def run(self, interp):
        ctx, rt = interp.ctx, self.rt
        oidt = rt.oid
        self.sorted_roots = [ctx.fresh_oid("root%d" % i) for i in range(self.n)]
        for i in range(self.n - 1):
            ctx.assume(oidt.lt_sym(interp, self.sorted_roots[i], self.sorted_roots[i + 1]))
        for i in range(self.n):
            for j in range(self.n):
                if i != j:
                    ctx.assume(Not(oidt.below_sym(interp, self.sorted_roots[i], self.sorted_roots[j])))
        self.roots = self.sorted_roots
        ctx.mark_base()
        seam = SendSeam(self, self.respond)
        seam.install(rt, interp)
        client = bare_client(rt, interp)
        kwargs = {"errors": self.errors}
        if self.bulk:
            mk = get_func(rt, interp, "puresnmp.api.raw:Client._bulkwalk_fetcher")
            self.real_fetcher = interp.call(BoundMethod(mk, client), [self.bulk], {})
            kwargs["fetcher"] = self.real_fetcher
        else:
            self.real_fetcher = BoundMethod(get_func(rt, interp, "puresnmp.api.raw:Client.multigetnext"), client)
        if self.phase == "step":
            from pyvc.objects import Builtin
            kwargs["fetcher"] = Builtin("stub-first-answer", lambda i, a, k: [])
        exc = None
        try:
            self.call_target(interp, client, list(self.sorted_roots), **kwargs)
        except PyExc as pe:
            exc = pe.obj
        self.extra_exit_checks(interp, exc)
        base = oname("C03", self.target, "exit", "")
        faulty = get_cls(rt, interp, "puresnmp.exc:FaultySNMPImplementation")
        st = self.stalled(interp)
        if st is not None:
            hit = And(st[0], st[1])
            if self.errors == "strict":
                ctx.check(base + "strict-mode:an-answer-that-does-not-advance-ends-the-walk-with-FaultySNMPImplementation",
                          Or(Not(hit), exc is not None and exc_is(exc, faulty)))
            else:
                ctx.check(base + "lenient-mode:an-answer-that-does-not-advance-ends-the-walk-normally", Or(Not(hit), exc is None))
        if exc is None:
            ctx.check(base + "ends-normally", True)
            return "returns"
        # (any exception ends the operation; which ones may leave is only constrained for lenient mode.
        #  Remark, not claimed: an agent answering two roots with the same OID but different values makes
        #  sorted() compare x690 values and raise TypeError.)
        ctx.check(base + "ends-by-an-exception", True)
        if self.errors == "warn":
            ctx.check(base + "lenient-mode-never-raises-FaultySNMPImplementation", not exc_is(exc, faulty))
        return "raises:%s" % exc.cls.name


class WalkPropagates(FaultyWalkUnit):
    """A request inside a walk that fails with something else than a faulty answer - a foreign request id (C07), an agent
    error status (C08) - ends the walk with exactly that exception, in strict AND in lenient error handling, on the first
    request and on any later one."""

    def __init__(self, n, bulk, errors, phase, active, exc_spec, prop):
        FaultyWalkUnit.__init__(self, n, bulk, errors, phase, active)
        self.exc_spec, self.props = exc_spec, (prop,)
        self.prop_ = prop
        self.name = self.name.replace("any-agent", "request fails with %s" % exc_spec.split(":")[1])

    def respond(self, interp, pdu, n):
        cls = get_cls(self.rt, interp, self.exc_spec)
        args = [interp.ctx.fresh_int("request_id"), interp.ctx.fresh_int("response_id")] if "InvalidResponseId" in self.exc_spec else []
        try:
            self.raised = self.rt.instantiate(interp, cls, args, {})
        except PyExc:
            self.raised = self.rt.make_exception(cls, [])
        raise PyExc(self.raised)

    def extra_exit_checks(self, interp, exc):
        what = self.exc_spec.split(":")[1]
        interp.ctx.check(oname(self.prop_, self.target, "exit", "a-request-failing-with-%s-ends-the-walk-with-that-exception(%s-mode)"
                               % (what, "lenient" if self.errors == "warn" else "strict")),
                         getattr(self, "raised", None) is not None and exc is self.raised)


def units_propagate(prop, exc_spec):
    def units(tier):
        us = []
        for n, m in [(1, None), (2, None), (1, 2)]:
            for errors in ("strict", "warn"):
                us.append(WalkPropagates(n, m, errors, "prologue", (), exc_spec, prop))
                us.append(WalkPropagates(n, m, errors, "step", tuple(range(n)), exc_spec, prop))
        return us
    return units


def units_c03(tier):
    us = []
    shapes = [(1, None), (2, None), (1, 1), (1, 2), (2, 1)]
    if tier == "thorough":
        shapes += [(2, 2), (3, None), (1, 3), (3, 1)]
    for n, m in shapes:
        for errors in ("strict", "warn"):
            us.append(FaultyWalkUnit(n, m, errors, "prologue"))
            for act in subsets(n):
                us.append(FaultyWalkUnit(n, m, errors, "step", act))
    return us


def units_c14(tier):
    """the walk pipeline keeps its state in locals: frame obligations and request-id obligations under C14"""
    return walk_units("C14", 1, None) + walk_units("C14", 1, 2) + walk_units("C14", 2, None)


def units_c16(tier):
    """table() is walk(entry), bulktable() is bulkwalk([table]): the single-root walks both table variants rest on,
    verified under C16 as well (so that ./check C16 notices a broken stream, not only a broken tablify)"""
    return walk_units("C16", 1, None) + walk_units("C16", 1, 2)
