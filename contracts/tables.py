"""
C16: table fetches.

``util.tablify`` is executed from its AST on a stream of k bindings (k enumerated) with symbolic OIDs,
values and a symbolic ``num_base_nodes``.  ``oid.nodes`` is a tuple of symbolic length, modelled by
  node(oid, i)     the i-th arc                                  (uninterpreted)
  idx(oid, s)      ".".join(str(n) for n in oid.nodes[s:])       (uninterpreted; the row index text)
  int_str(n)       str(n)                                        (uninterpreted, injective)
Postcondition (from the property): one row per distinct index text; the index under key '0'; every cell of
the stream in exactly the row of its index under its column number (a later binding for the same cell wins);
no cell from anywhere else.
``Client.table`` / ``Client.bulktable`` are checked at their call sites: the stream handed to tablify is the
walk's stream (walk(oid) / bulkwalk([oid], bulk_size)), and the column arc is the one after the entry arc:
num_base_nodes = len(entry oid) resp. len(table oid) + 1.  Since entry = table.1, both variants call tablify
with the same base length; with the walk contracts (C01/C02: both streams are the instances below the
root, each once) the two results hold the same rows.
"""
import z3

from pyvc import core, stdlib
from pyvc.core import And, Or, Not, Implies, lift_bool, lift_int, Undecided, SInt, SOid, SXVal, SStr, Sym, zint, OID, Int, PStr
from pyvc.objects import Obj, NT, PyExc, PDict, PyClass, Builtin, BoundMethod, GenResult, Opaque
from pyvc.vu import VU
from pyvc.theories import OidTheory, XValTheory, SNodes
from .common import oname, get_cls, exc_is, get_func, varbind, bare_client


class STail(Sym):
    """oid.nodes[start:]"""

    def __init__(self, oid_e, start):
        self.e = oid_e
        self.start = start


class SElem:
    """the generic element of a tail (stands for every element when the tail is mapped over)"""

    def __init__(self, tail, mapped=False):
        self.tail, self.mapped = tail, mapped


def install_nodes_model(rt):
    F = z3.Function
    rt.f_node = F("oid_node", OID, Int, Int)
    rt.f_idx = F("oid_index_text", OID, Int, PStr)
    rt.theory.add("int_str(0)", rt.f_int_str(z3.IntVal(0)) == rt.str_lit("0"), light=True)
    rt.theory.note("oid.nodes: node(oid,i), idx(oid,s) = '.'.join(str(n) for n in nodes[s:]) and str(int) are "
                   "uninterpreted (str(int) injective, str(0) == '0')")

    def olen(oe):
        return rt.oid.olen(oe)

    def nodes_slice(rt_, i, c, lo, hi, step):
        if hi is not None or step is not None:
            raise Undecided("slice of .nodes with an upper bound")
        return STail(c.e, lo if lo is not None else 0)
    rt.getslice_hooks["SNodes"] = nodes_slice

    def nodes_item(rt_, i, c, idx):
        if isinstance(idx, int) and idx < 0:
            pos = olen(c.e) + idx
            if i.ctx.branch(lift_bool(pos < 0)):
                i.raise_py("IndexError", "tuple index out of range")
            return SInt(rt.f_node(c.e, pos))
        pos = zint(idx)
        if i.ctx.branch(lift_bool(z3.Or(pos >= olen(c.e), pos < 0))):
            i.raise_py("IndexError", "tuple index out of range")
        return SInt(rt.f_node(c.e, pos))
    rt.getitem_hooks["SNodes"] = nodes_item

    def tail_item(rt_, i, c, idx):
        if not isinstance(idx, int) or idx < 0:
            raise Undecided("tail index %r" % (idx,))
        pos = zint(c.start) + idx
        if i.ctx.branch(lift_bool(pos >= olen(c.e))):
            i.raise_py("IndexError", "tuple index out of range")
        return SInt(rt.f_node(c.e, pos))
    rt.getitem_hooks["STail"] = tail_item

    def tail_slice(rt_, i, c, lo, hi, step):
        if hi is not None or step is not None or not isinstance(lo, int) or lo < 0:
            raise Undecided("slice of a node tail")
        return STail(c.e, lift_int(zint(c.start) + lo))
    rt.getslice_hooks["STail"] = tail_slice
    rt.iter_hooks["STail"] = lambda rt_, i, v: [SElem(v)]
    rt.str_hooks["SElem"] = lambda rt_, i, v: SElem(v.tail, mapped=True)

    def join(i, sep, items):
        if sep == "." and len(items) == 1 and isinstance(items[0], SElem) and items[0].mapped:
            t = items[0].tail
            return SStr(rt.f_idx(t.e, zint(t.start)))
        raise Undecided("str.join over symbolic strings")
    rt.hooks["str.join"] = join
    rt.len_hooks["SNodes"] = lambda rt_, i, v: SInt(olen(v.e))


class Tablify(VU):
    props = ("C16",)
    target = "puresnmp.util:tablify"
    functions = (target,)

    def __init__(self, k):
        self.k = k
        self.name = "util.tablify[%d bindings, num_base_nodes >= 1]" % k
        self.label = "proved-shape-bounded(stream of %d bindings; OIDs, values, base length symbolic)" % k

    def setup(self, rt, interp):
        self.rt = rt
        if rt.oid is None:
            rt.oid = OidTheory(rt, order=False)
        self.xv = XValTheory(rt, interp)
        install_nodes_model(rt)

    def run(self, interp):
        ctx, rt = interp.ctx, self.rt
        nb = ctx.fresh_int("num_base_nodes")
        ctx.assume(nb >= 1)
        vbs, idx, col, val = [], [], [], []
        for j in range(self.k):
            o, v = ctx.fresh_oid("cell_oid%d" % j), self.xv.fresh(ctx, "cell_val%d" % j)
            # a cell of the table: base . column . index with at least one index component, column >= 1
            ctx.assume(lift_bool(rt.oid.olen(o.e) >= nb.e + 2))
            ctx.assume(lift_bool(rt.f_node(o.e, nb.e) >= 1))
            vbs.append(varbind(rt, interp, o, v))
            idx.append(SStr(rt.f_idx(o.e, nb.e + 1)))
            col.append(SStr(rt.f_int_str(rt.f_node(o.e, nb.e))))
            val.append(v)
        # str(int) is injective: ground instances for the column numbers of this stream (and for 0)
        cn = [rt.f_node(vb[0].e, nb.e) for vb in vbs] + [z3.IntVal(0)]
        for a in range(len(cn)):
            for b in range(a + 1, len(cn)):
                ctx.assume(lift_bool(z3.Implies(rt.f_int_str(cn[a]) == rt.f_int_str(cn[b]), cn[a] == cn[b])))
        fn = get_func(rt, interp, self.target)
        exc = res = None
        try:
            res = interp.call(fn, [list(vbs)], {"num_base_nodes": nb})
        except PyExc as pe:
            exc = pe.obj
        T = self.target
        ctx.check(oname("C16", T, "ensures", "no-exception-on-table-cells"), exc is None)
        if exc is not None:
            return "raises"
        ok = isinstance(res, list) and all(isinstance(r, PDict) for r in res)
        ctx.check(oname("C16", T, "ensures", "result-is-a-list-of-rows"), ok)
        if not ok:
            return "returns"

        def cell(row, key):
            return [(k2, v2) for k2, v2 in row.pairs if interp.eq(k2, key) is not False]
        # P1: index under '0', rows have pairwise distinct indexes
        p1 = []
        row_idx = []
        for r in res:
            zero = [v2 for k2, v2 in r.pairs if k2 == "0"]
            p1.append(len(zero) == 1)
            row_idx.append(zero[0] if zero else None)
        for a in range(len(res)):
            for b in range(a + 1, len(res)):
                if row_idx[a] is not None and row_idx[b] is not None:
                    p1.append(Not(interp.eq(row_idx[a], row_idx[b])))
        ctx.check(oname("C16", T, "ensures", "one-row-per-distinct-index-with-the-index-under-key-0"), And(*p1))
        # P2: every cell of the stream sits in the row of its index under its column (a later binding for the same cell wins)
        p2 = []
        for j in range(self.k):
            later = Or(*[And(interp.eq(idx[j], idx[j2]), interp.eq(col[j], col[j2])) for j2 in range(j + 1, self.k)])
            here = Or(*[And(interp.eq(row_idx[a], idx[j]),
                            Or(*[And(interp.eq(k2, col[j]), interp.eq(v2, val[j])) for k2, v2 in res[a].pairs if k2 != "0"]))
                        for a in range(len(res)) if row_idx[a] is not None])
            p2.append(Or(later, here))
        ctx.check(oname("C16", T, "ensures", "every-cell-in-the-row-of-its-index-under-its-column"), And(*p2))
        # P3: nothing else
        p3 = []
        for a, r in enumerate(res):
            for k2, v2 in r.pairs:
                if k2 == "0":
                    continue
                p3.append(Or(*[And(interp.eq(row_idx[a], idx[j]), interp.eq(k2, col[j]), interp.eq(v2, val[j])) for j in range(self.k)]))
        ctx.check(oname("C16", T, "ensures", "no-cell-from-anywhere-else"), And(*p3))
        return "returns"


class TableCall(VU):
    """Client.table / Client.bulktable: what is handed to tablify."""
    props = ("C16",)
    label = "proved-shape-bounded(stream length enumerated)"

    def __init__(self, bulk, k):
        self.bulk, self.k = bulk, k
        self.target = "puresnmp.api.raw:Client.%s" % ("bulktable" if bulk else "table")
        self.functions = (self.target,)
        self.name = "Client.%s[stream of %d]" % ("bulktable" if bulk else "table", k)

    def setup(self, rt, interp):
        self.rt = rt
        if rt.oid is None:
            rt.oid = OidTheory(rt)
        self.xv = XValTheory(rt, interp)

    def run(self, interp):
        ctx, rt = interp.ctx, self.rt
        stream = [varbind(rt, interp, ctx.fresh_oid("o%d" % j), self.xv.fresh(ctx, "v%d" % j)) for j in range(self.k)]
        calls = {"walk": [], "tablify": []}
        marker = [PDict([("0", "sentinel")])]
        walk_name = "puresnmp.api.raw:Client.%s" % ("bulkwalk" if self.bulk else "walk")

        def walk_hook(i, c, a, k):
            calls["walk"].append((a[1:], k))
            return GenResult(list(stream))

        def tablify_hook(i, c, a, k):
            calls["tablify"].append((a, k))
            return marker
        rt.hooks[walk_name] = walk_hook
        rt.hooks["puresnmp.util:tablify"] = tablify_hook
        client = bare_client(rt, interp)
        oid = ctx.fresh_oid("table_oid")
        fn = get_func(rt, interp, self.target)
        kwargs = {"bulk_size": ctx.fresh_int("bulk_size")} if self.bulk else {}
        if self.bulk:
            ctx.assume(kwargs["bulk_size"] >= 1)
        res = interp.call(BoundMethod(fn, client), [oid], kwargs)
        T = self.target
        ok = len(calls["walk"]) == 1 and len(calls["tablify"]) == 1
        ctx.check(oname("C16", T, "ensures", "one-walk-one-tablify"), ok)
        if not ok:
            return "?"
        wa, wk = calls["walk"][0]
        if self.bulk:
            used = wk.get("bulk_size", 10)        # (bulkwalk's own default when the table call leaves it out)
            good = len(wa) == 1 and isinstance(wa[0], list) and len(wa[0]) == 1 and And(
                interp.eq(wa[0][0], oid), isinstance(used, (int, SInt)) and not isinstance(used, bool) and lift_bool(zint(used) >= 1))
        else:
            good = len(wa) == 1 and interp.eq(wa[0], oid)
        ctx.check(oname("C16", T, "ensures", "walks-exactly-the-given-oid%s" % ("-with-at-least-one-repetition" if self.bulk else "")), good)
        ta, tk = calls["tablify"][0]
        seq = ta[0] if ta else tk.get("varbinds")
        same = isinstance(seq, list) and len(seq) == self.k and all(x is y for x, y in zip(seq, stream))
        ctx.check(oname("C16", T, "ensures", "tablify-gets-the-walks-stream-complete-and-in-order"), same)
        nb = tk.get("num_base_nodes", ta[1] if len(ta) > 1 else None)
        want = rt.oid.olen(oid.e) + (1 if self.bulk else 0)
        ctx.check(oname("C16", T, "ensures", "column-is-the-arc-after-the-entry-arc(num_base_nodes=len(oid)%s)" % ("+1" if self.bulk else "")),
                  nb is not None and lift_bool(zint(nb) == want))
        ctx.check(oname("C16", T, "ensures", "returns-tablifys-rows"), res is marker)
        return "returns"


class WalkCall(VU):
    """Client.walk / Client.bulkwalk are thin wrappers: they must hand multiwalk exactly the caller's roots (walk: the one
    OID and the error mode; bulkwalk: the list and a bulk fetcher built for exactly the caller's bulk size) and pass every
    binding of multiwalk's stream on, in order."""
    label = "proved-shape-bounded(stream length enumerated)"

    def __init__(self, bulk, k, n_roots=1):
        self.bulk, self.k, self.n = bulk, k, n_roots
        self.props = ("C02", "C16", "C05") if bulk else ("C01", "C16")
        self.target = "puresnmp.api.raw:Client.%s" % ("bulkwalk" if bulk else "walk")
        self.functions = (self.target,)
        self.name = "Client.%s[%d roots, stream of %d]" % ("bulkwalk" if bulk else "walk", n_roots, k)

    def setup(self, rt, interp):
        self.rt = rt
        if rt.oid is None:
            rt.oid = OidTheory(rt)
        self.xv = XValTheory(rt, interp)

    def run(self, interp):
        ctx, rt = interp.ctx, self.rt
        stream = [varbind(rt, interp, ctx.fresh_oid("o%d" % j), self.xv.fresh(ctx, "v%d" % j)) for j in range(self.k)]
        calls = {"multiwalk": [], "fetcher": []}
        marker = Opaque("bulk-fetcher")

        def multiwalk_hook(i, c, a, k):
            calls["multiwalk"].append((a[1:], k))
            return GenResult(list(stream), from_function=True)

        def fetcher_hook(i, c, a, k):
            calls["fetcher"].append((a[1:], k))
            return marker
        rt.hooks["puresnmp.api.raw:Client.multiwalk"] = multiwalk_hook
        rt.hooks["puresnmp.api.raw:Client._bulkwalk_fetcher"] = fetcher_hook
        client = bare_client(rt, interp)
        roots = [ctx.fresh_oid("root%d" % j) for j in range(self.n)]
        fn = get_func(rt, interp, self.target)
        got = []
        interp.on_yield = lambda i, frame, value: got.append(value) if frame.func is not None and frame.func.info.fullname == self.target else None
        if self.bulk:
            size = ctx.fresh_int("bulk_size")
            ctx.assume(size >= 1)
            args, kwargs = [list(roots)], {"bulk_size": size}
        else:
            mode = ctx.fresh_str("errors")
            args, kwargs = [roots[0]], {"errors": mode}
        interp.call(BoundMethod(fn, client), args, kwargs)
        T = self.target
        for p in self.props:
            ok = len(calls["multiwalk"]) == 1
            ctx.check(oname(p, T, "ensures", "exactly-one-multiwalk"), ok)
            if not ok:
                continue
            a, k = calls["multiwalk"][0]
            given = a[0] if a else k.get("oids")
            same_roots = isinstance(given, list) and len(given) == self.n and And(*[interp.eq(x, y) for x, y in zip(given, roots)])
            ctx.check(oname(p, T, "ensures", "walks-exactly-the-callers-roots-in-the-callers-order"), same_roots)
            if self.bulk:
                # any repetition count >= 1 gives the same walk (that is the property); 0 or a non-integer does not
                fa = calls["fetcher"]
                used = (fa[0][0][0] if fa[0][0] else fa[0][1].get("bulk_size")) if len(fa) == 1 else None
                size_ok = isinstance(used, (int, SInt)) and not isinstance(used, bool) and lift_bool(zint(used) >= 1)
                if p == "C05":
                    # the datagrams of a bulk walk carry the caller's max-repetitions
                    ctx.check(oname(p, T, "ensures", "with-a-bulk-fetcher-for-exactly-the-callers-bulk-size"),
                              And(size_ok, interp.eq(used, size), k.get("fetcher") is marker or (len(a) > 1 and a[1] is marker)))
                    continue
                ctx.check(oname(p, T, "ensures", "with-a-bulk-fetcher-for-at-least-one-repetition"),
                          And(size_ok, k.get("fetcher") is marker or (len(a) > 1 and a[1] is marker)))
            else:
                ctx.check(oname(p, T, "ensures", "with-the-default-fetcher-and-the-callers-error-mode"),
                          "fetcher" not in k and len(a) == 1 and interp.eq(k.get("errors"), mode))
            ok = len(got) == self.k and all(
                (g is s) or (isinstance(g, NT) and len(g) == 2 and g[0] is s[0] and g[1] is s[1]) for g, s in zip(got, stream))
            ctx.check(oname(p, T, "ensures", "passes-on-every-binding-of-the-stream-in-order"), ok)
        return "returns"



class BulkFetcher(VU):
    """Client._bulkwalk_fetcher(size): the fetcher the bulk walk uses asks bulkget for exactly the requested OIDs as repeaters,
    no non-repeaters, and max-repetitions = the size it was built for (C05: the datagram carries the caller's value), and
    hands back the listing as VarBinds in the listing's order (C02)."""
    props = ("C05", "C02")
    label = "proved-shape-bounded(number of OIDs and of listing entries enumerated)"
    target = "puresnmp.api.raw:Client._bulkwalk_fetcher"
    functions = (target,)

    def __init__(self, n, k, size=None):
        self.n, self.k, self.size = n, k, size
        self.name = "Client._bulkwalk_fetcher[%d oids, listing of %d%s]" % (n, k, "" if size is None else ", bulk size %d" % size)

    def setup(self, rt, interp):
        self.rt = rt
        if rt.oid is None:
            rt.oid = OidTheory(rt)
        self.xv = XValTheory(rt, interp)

    def run(self, interp):
        ctx, rt = interp.ctx, self.rt
        calls = []
        listing = PDict([(ctx.fresh_oid("l%d" % j), self.xv.fresh(ctx, "lv%d" % j)) for j in range(self.k)])
        for i in range(self.k):
            for j in range(i + 1, self.k):
                ctx.assume(Not(interp.eq(listing.pairs[i][0], listing.pairs[j][0])))
        result = NT(get_cls(rt, interp, "puresnmp.util:BulkResult"), [PDict(), listing])

        def bulkget_hook(i, c, a, k):
            calls.append((a[1:], k))
            return result
        rt.hooks["puresnmp.api.raw:Client.bulkget"] = bulkget_hook
        client = bare_client(rt, interp)
        if self.size is None:
            size = ctx.fresh_int("bulk_size")
            ctx.assume(size >= 1)
        else:
            size = self.size
        mk = get_func(rt, interp, self.target)
        fetcher = interp.call(BoundMethod(mk, client), [size], {})
        oids = [ctx.fresh_oid("q%d" % j) for j in range(self.n)]
        out = interp.call(fetcher, [list(oids)], {})
        T = self.target
        ok = len(calls) == 1
        for p in self.props:
            ctx.check(oname(p, T, "ensures", "one-get-bulk-per-fetch"), ok)
        if not ok:
            return "?"
        a, k = calls[0]
        names = ["scalar_oids", "repeating_oids", "max_list_size"]
        got = dict(zip(names, a))
        got.update(k)
        sc, rp, mx = got.get("scalar_oids"), got.get("repeating_oids"), got.get("max_list_size", 1)
        ctx.check(oname("C05", T, "ensures", "no-non-repeaters-the-requested-oids-as-repeaters-and-the-fetchers-size-as-max-repetitions"),
                  isinstance(sc, list) and len(sc) == 0 and isinstance(rp, list) and len(rp) == self.n
                  and And(interp.eq(mx, size), *[interp.eq(x, y) for x, y in zip(rp, oids)]))
        ctx.check(oname("C02", T, "ensures", "the-requested-oids-as-repeaters-with-at-least-one-repetition"),
                  isinstance(rp, list) and len(rp) == self.n and isinstance(mx, (int, SInt)) and And(
                      lift_bool(zint(mx) >= 1), *[interp.eq(x, y) for x, y in zip(rp, oids)]))
        items = interp.iterate(out) if isinstance(out, (list, GenResult)) else None
        ok = items is not None and len(items) == self.k and all(isinstance(v, NT) and len(v) == 2 for v in items)
        ctx.check(oname("C02", T, "ensures", "hands-back-the-listing-as-varbinds-in-order"),
                  ok and And(*[And(interp.eq(v[0], p[0]), interp.eq(v[1], p[1])) for v, p in zip(items, listing.pairs)]))
        return "returns"



class WrapperPropagates(VU):
    """table / bulktable / walk / bulkwalk are walk-style operations too (C03): when the walk underneath ends with
    FaultySNMPImplementation (after having delivered some bindings), the wrapper ends with exactly that exception and does not
    start the walk again (no second round of requests for OIDs already continued from)."""
    props = ("C03",)
    label = "proved-shape-bounded(bindings delivered before the failure enumerated)"

    def __init__(self, name, k):
        self.opname, self.k = name, k
        self.target = "puresnmp.api.raw:Client.%s" % name
        self.functions = (self.target,)
        self.name = "Client.%s[the walk underneath fails after %d bindings]" % (name, k)

    def setup(self, rt, interp):
        self.rt = rt
        if rt.oid is None:
            rt.oid = OidTheory(rt)
        self.xv = XValTheory(rt, interp)

    def run(self, interp):
        ctx, rt = interp.ctx, self.rt
        stream = [varbind(rt, interp, ctx.fresh_oid("o%d" % j), self.xv.fresh(ctx, "v%d" % j)) for j in range(self.k)]
        faulty = rt.instantiate(interp, get_cls(rt, interp, "puresnmp.exc:FaultySNMPImplementation"), ["the agent does not advance"], {})
        calls = []
        inner = {"table": "walk", "bulktable": "bulkwalk", "walk": "multiwalk", "bulkwalk": "multiwalk"}[self.opname]

        def walk_hook(i, c, a, k):
            calls.append((a[1:], k))
            return GenResult(list(stream), pending_exc=faulty, from_function=True)
        for name in ("walk", "bulkwalk", "multiwalk"):
            if name != self.opname:
                rt.hooks["puresnmp.api.raw:Client.%s" % name] = walk_hook
        rt.hooks["puresnmp.api.raw:Client._bulkwalk_fetcher"] = lambda i, c, a, k: Opaque("bulk-fetcher")
        client = bare_client(rt, interp)
        oid = ctx.fresh_oid("oid")
        fn = get_func(rt, interp, self.target)
        args = [[oid]] if self.opname == "bulkwalk" else [oid]
        exc = None
        try:
            res = interp.call(BoundMethod(fn, client), args, {})
            if isinstance(res, GenResult):
                interp.iterate(res)
        except PyExc as pe:
            exc = pe.obj
        T = self.target
        ctx.check(oname("C03", T, "raises", "ends-with-the-walks-FaultySNMPImplementation"), exc is faulty)
        ctx.check(oname("C03", T, "ensures", "does-not-start-the-walk-again(%s called once)" % inner), len(calls) == 1)
        return "raises"


def units_propagates(tier):
    return [WrapperPropagates(n, k) for n in ("table", "bulktable", "walk", "bulkwalk") for k in (0, 2)]


def units_walkcall(tier):
    return [WalkCall(b, k, n) for b in (False, True) for (k, n) in ((0, 1), (2, 1))] + [WalkCall(True, 2, 2), WalkCall(True, 0, 3)] + [
        BulkFetcher(n, k) for (n, k) in ((1, 0), (1, 2), (2, 3), (3, 1))] + [
        # LARGE shapes with the sizes callers use (a split of the roots over several requests depends on both)
        BulkFetcher(n, k, size) for (n, k, size) in ((12, 24, 10), (70, 70, 10), (12, 12, 1), (12, 24, 60), (70, 140, 200))]


def units(tier):
    ks = (0, 1, 2, 3) if tier == "quick" else (0, 1, 2, 3, 4)
    us = [Tablify(k) for k in ks]
    for bulk in (False, True):
        for k in (0, 2):
            us.append(TableCall(bulk, k))
    return us
