"""
Shared pieces of the sidecar contracts: the ``Client._send`` seam used by contract, helper
constructors for symbolic arguments, obligation naming.
"""
import z3

from pyvc import core
from pyvc.core import (SInt, SBool, SOid, SXVal, SBytes, SStr, And, Or, Not, Implies, lift_bool, zint, zbool,
                       Undecided)
from pyvc.objects import Obj, NT, PyExc, PyClass, Builtin, BoundMethod, PDict, PSet, ASet, GenResult
from pyvc.theories import OidTheory, XValTheory
from pyvc.vu import VU


def oname(prop, func, kind, label):
    return "%s/%s/%s:%s" % (prop, func.replace("puresnmp.", "").replace(":", "."), kind, label)


def get_cls(rt, interp, spec):
    info = rt.program.find_class(spec)
    if info is None:
        raise Undecided("class not found: %s" % spec)
    return rt.get_class(info, interp)


def get_func(rt, interp, spec):
    modname, qual = spec.split(":")
    mod = rt.import_module(modname)
    parts = qual.split(".")
    v = rt.module_attr(interp, mod, parts[0])
    for p in parts[1:]:
        v = rt.getattr(interp, v, p)
    return v


def exc_is(exc_obj, cls):
    return exc_obj.cls.issubclass(cls)


def bare_client(rt, interp, **fields):
    """
    A Client built by its REAL ``__init__`` (so attributes a change adds to the constructor exist);
    the message-processing model is a contract slot and name resolution is an opaque value.
    """
    from pyvc.objects import Opaque
    cls = get_cls(rt, interp, "puresnmp.api.raw:Client")
    mpm_cls = PyClass("MPM(contract-slot)", [], kind="builtin")
    rt.hooks["puresnmp.plugins.mpm:create"] = lambda i, c, a, k: Obj(mpm_cls, {"slot_args": a})
    rt.call_hooks["Opaque"] = _opaque_call
    creds = fields.pop("credentials", None)
    if creds is None:
        creds = Obj(get_cls(rt, interp, "puresnmp.credentials:V2C"),
                    {"community": interp.ctx.fresh_str("community"), "mpm": 1})
    sender = fields.pop("sender", Builtin("sender(unused)", lambda i, a, k: (_ for _ in ()).throw(
        Undecided("the real transport was reached above the _send seam"))))
    client = rt.instantiate(interp, cls, ["192.0.2.1", creds], {"sender": sender})
    client.fields.update(fields)
    return client


def _opaque_call(interp, fn, args, kwargs):
    from pyvc.objects import Opaque
    if fn.name in ("ip_address", "IPv4Address"):
        return Opaque("ip(%r)" % (args[0],))
    raise Undecided("call of external %s" % fn.name)


def snapshot(v, depth=0):
    """Structural fingerprint of (shared) state, for frame conditions: nothing else changed."""
    if depth > 6:
        return ("deep",)
    if isinstance(v, Obj):
        if depth == 0 or v.cls.kind == "dataclass" or v.cls.name in ("Client",):
            return ("obj", id(v), tuple(sorted((k, snapshot(x, depth + 1)) for k, x in v.fields.items())))
        return ("obj", id(v), tuple(sorted((k, snapshot(x, depth + 1)) for k, x in v.fields.items()
                                           if isinstance(x, (list, PDict, PSet, ASet)))))
    if isinstance(v, list):
        return ("list", id(v), tuple(snapshot(x, depth + 1) for x in v))
    if isinstance(v, PDict):
        return ("dict", id(v), tuple((snapshot(k, depth + 1), snapshot(x, depth + 1)) for k, x in v.pairs))
    if isinstance(v, PSet):
        return ("set", id(v), len(v.items))
    if isinstance(v, ASet):
        return ("aset", id(v), v.arr.get_id())
    if isinstance(v, core.Sym):
        return ("sym", v.e.get_id())
    if isinstance(v, (int, str, bytes, bool, float, type(None))):
        return ("val", v)
    if isinstance(v, (tuple, NT)):
        return ("tuple", tuple(snapshot(x, depth + 1) for x in v))
    return ("id", id(v))


def pdu_request_id(interp, pdu):
    """The request id carried by a PDU object built by the client."""
    if "request_id" in pdu.fields:          # BulkGetRequest keeps plain attributes
        return pdu.fields["request_id"]
    content = pdu.fields.get("pyvalue")
    if isinstance(content, Obj) and "request_id" in content.fields:
        return content.fields["request_id"]
    raise Undecided("cannot read the request id of %r" % (pdu,))


def pdu_varbinds(interp, pdu):
    if "varbinds" in pdu.fields:
        return pdu.fields["varbinds"]
    return pdu.fields["pyvalue"].fields["varbinds"]


class SendSeam:
    """
    Contract of ``Client._send(pdu, request_id) -> PDU`` as used from above (DESIGN 2.1, 7.7):

      requires  the id inside ``pdu`` is ``request_id``          (C07, a caller-side obligation)
      effect    the environment receives exactly ``pdu``          (ghost log ``sent``)
      ensures   the result is a response PDU object whose ``.value`` is
                PDUContent(request_id, <the environment's bindings>, 0, 0)
      raises    only what ``responder`` decides (documented SnmpError subclasses)

    ``responder(interp, pdu, n) -> list of VarBind`` is the environment model of the unit.
    """

    def __init__(self, unit, responder):
        self.unit = unit
        self.responder = responder
        self.sent = []
        self.responses = []

    def install(self, rt, interp):
        self.rt = rt
        rt.hooks["puresnmp.api.raw:Client._send"] = self.hook
        self.sent = []
        self.responses = []

    def hook(self, interp, closure, args, kwargs):
        rt = self.rt
        if len(args) != 3 or kwargs:
            interp.ctx.check(oname("C04", self.unit.target, "call:_send", "arity"), False)
            raise core.PathInfeasible()
        _self, pdu, request_id = args
        ctx = interp.ctx
        rid_in_pdu = pdu_request_id(interp, pdu)
        ctx.check(oname("C07", self.unit.target, "call:_send/requires", "id-in-pdu-is-id-validated"),
                  interp.eq(rid_in_pdu, request_id))
        ctx.check(oname("C14", self.unit.target, "call:_send/requires", "id-in-pdu-is-id-validated"),
                  interp.eq(rid_in_pdu, request_id))
        self.sent.append((pdu, request_id))
        vbs = self.responder(interp, pdu, len(self.sent) - 1)
        self.responses.append(vbs)
        content_cls = get_cls(rt, interp, "puresnmp.pdu:PDUContent")
        resp_cls = get_cls(rt, interp, "puresnmp.pdu:GetResponse")
        content = Obj(content_cls, {"request_id": request_id, "varbinds": vbs, "error_status": 0, "error_index": 0})
        return Obj(resp_cls, {"pyvalue": content, "_raw_bytes": b""})


def varbind(rt, interp, oid, value):
    cls = get_cls(rt, interp, "puresnmp.varbind:VarBind")
    return NT(cls, [oid, value])


def is_null_obj(v):
    return isinstance(v, Obj) and v.cls.name == "Null"


class ApiUnit(VU):
    """Base for units that verify a Client method above the _send seam."""
    target = ""

    def setup(self, rt, interp):
        self.rt = rt
        if rt.oid is None:
            rt.oid = OidTheory(rt)
        self.xv = XValTheory(rt, interp)
        rt.hooks["puresnmp.util:get_request_id"] = self.clock
        self.clock_reads = []

    def clock(self, interp, closure, args, kwargs):
        # every read of the clock is a fresh value: any clock, advancing between any two reads (7.7)
        v = interp.ctx.fresh_int("clock")
        self.clock_reads.append(v)
        return v

    def call_target(self, interp, client, *args, **kwargs):
        """Call the function under contract; its frame condition is checked on every exit:
        an operation leaves the client (config, mpm, every attribute and container it owns) unchanged."""
        fn = get_func(self.rt, interp, self.target)
        before = snapshot(client)
        try:
            return interp.call(BoundMethod(fn, client) if not isinstance(fn, BoundMethod) else fn, list(args), kwargs)
        finally:
            if not getattr(self, "no_frame_check", False):
                after = snapshot(client)
                for p in self.props:
                    interp.ctx.check(oname(p, self.target, "frame", "client-state-unchanged"), before == after)
