"""
Shared pieces of the sidecar contracts: the ``Client._send`` seam used by contract, helper
constructors for symbolic arguments, obligation naming.
"""
import z3

from pyvc import core
from pyvc.core import (SInt, SBool, SOid, SXVal, SBytes, SStr, And, Or, Not, Implies, lift_bool, zint, zbool,
                       Undecided)
from pyvc.objects import Obj, NT, PyExc, PyClass, Builtin, BoundMethod, PDict, GenResult
from pyvc.theories import OidTheory, XValTheory
from pyvc.vu import VU


def oname(prop, func, kind, label):
    return "%s/%s/%s:%s" % (prop, func.replace("puresnmp.", "").replace(":", "."), kind, label)


def get_cls(rt, interp, spec):
    info = rt.program.find_class(spec)
    if info is None:
        raise Undecided("class not found: %s" % spec)
    return rt.get_class(info, interp)


def get_func(rt, interp, spec):
    modname, qual = spec.split(":")
    mod = rt.import_module(modname)
    parts = qual.split(".")
    v = rt.module_attr(interp, mod, parts[0])
    for p in parts[1:]:
        v = rt.getattr(interp, v, p)
    return v


def exc_is(exc_obj, cls):
    return exc_obj.cls.issubclass(cls)


def bare_client(rt, interp, **fields):
    cls = get_cls(rt, interp, "puresnmp.api.raw:Client")
    return Obj(cls, fields)


def pdu_request_id(interp, pdu):
    """The request id carried by a PDU object built by the client."""
    if "request_id" in pdu.fields:          # BulkGetRequest keeps plain attributes
        return pdu.fields["request_id"]
    content = pdu.fields.get("pyvalue")
    if isinstance(content, Obj) and "request_id" in content.fields:
        return content.fields["request_id"]
    raise Undecided("cannot read the request id of %r" % (pdu,))


def pdu_varbinds(interp, pdu):
    if "varbinds" in pdu.fields:
        return pdu.fields["varbinds"]
    return pdu.fields["pyvalue"].fields["varbinds"]


class SendSeam:
    """
    Contract of ``Client._send(pdu, request_id) -> PDU`` as used from above (DESIGN 2.1, 7.7):

      requires  the id inside ``pdu`` is ``request_id``          (C07, a caller-side obligation)
      effect    the environment receives exactly ``pdu``          (ghost log ``sent``)
      ensures   the result is a response PDU object whose ``.value`` is
                PDUContent(request_id, <the environment's bindings>, 0, 0)
      raises    only what ``responder`` decides (documented SnmpError subclasses)

    ``responder(interp, pdu, n) -> list of VarBind`` is the environment model of the unit.
    """

    def __init__(self, unit, responder):
        self.unit = unit
        self.responder = responder
        self.sent = []
        self.responses = []

    def install(self, rt, interp):
        self.rt = rt
        rt.hooks["puresnmp.api.raw:Client._send"] = self.hook
        self.sent = []
        self.responses = []

    def hook(self, interp, closure, args, kwargs):
        rt = self.rt
        if len(args) != 3 or kwargs:
            interp.ctx.check(oname("C04", self.unit.target, "call:_send", "arity"), False)
            raise core.PathInfeasible()
        _self, pdu, request_id = args
        ctx = interp.ctx
        rid_in_pdu = pdu_request_id(interp, pdu)
        ctx.check(oname("C07", self.unit.target, "call:_send/requires", "id-in-pdu-is-id-validated"),
                  interp.eq(rid_in_pdu, request_id))
        ctx.check(oname("C14", self.unit.target, "call:_send/requires", "id-in-pdu-is-id-validated"),
                  interp.eq(rid_in_pdu, request_id))
        self.sent.append((pdu, request_id))
        vbs = self.responder(interp, pdu, len(self.sent) - 1)
        self.responses.append(vbs)
        content_cls = get_cls(rt, interp, "puresnmp.pdu:PDUContent")
        resp_cls = get_cls(rt, interp, "puresnmp.pdu:GetResponse")
        content = Obj(content_cls, {"request_id": request_id, "varbinds": vbs, "error_status": 0, "error_index": 0})
        return Obj(resp_cls, {"pyvalue": content, "_raw_bytes": b""})


def varbind(rt, interp, oid, value):
    cls = get_cls(rt, interp, "puresnmp.varbind:VarBind")
    return NT(cls, [oid, value])


def is_null_obj(v):
    return isinstance(v, Obj) and v.cls.name == "Null"


class ApiUnit(VU):
    """Base for units that verify a Client method above the _send seam."""
    target = ""

    def setup(self, rt, interp):
        self.rt = rt
        if rt.oid is None:
            rt.oid = OidTheory(rt)
        self.xv = XValTheory(rt, interp)
        rt.hooks["puresnmp.util:get_request_id"] = self.clock
        self.clock_reads = []

    def clock(self, interp, closure, args, kwargs):
        # every read of the clock is a fresh value: any clock, advancing between any two reads (7.7)
        v = interp.ctx.fresh_int("clock")
        self.clock_reads.append(v)
        return v

    def call_target(self, interp, client, *args, **kwargs):
        fn = get_func(self.rt, interp, self.target)
        return interp.call(BoundMethod(fn, client) if not isinstance(fn, BoundMethod) else fn, list(args), kwargs)
