"""
C18: Client.configure / Client.reconfigure / the transport handler closure of Client.__init__.

  configure(**kw)   unknown name  -> TypeError and NOTHING changed (frame)
                    else config' = replace(config, kw); mpm' is a NEW model for credentials.mpm iff the credential
                    TYPE changed, else the same object
  reconfigure(**kw) whatever the block does (it may configure permanently, nest, raise): on exit - normal or
                    exceptional - config IS the entry config object and mpm IS the entry mpm object.
                    Nesting to any depth follows by composition of this single-block contract.
  handler(data)     forwards to sender(endpoint, data, timeout=config.timeout, retries=config.retries) with the
                    configuration current AT CALL TIME
(What _send hands to the message layer and the transport is verified in seam.SendUnit under C18.)
"""
import itertools

import z3

from pyvc import core
from pyvc.core import And, Or, Not, Implies, lift_bool, Undecided, SInt
from pyvc.objects import Obj, NT, PyExc, PDict, PyClass, Builtin, BoundMethod
from pyvc.vu import VU
from pyvc.theories import OidTheory, XValTheory
from .common import oname, get_cls, bare_client, exc_is, get_func, snapshot

SETTINGS = ("timeout", "retries", "credentials-same-family", "credentials-other-family", "context", "unknown")
FAMILIES = {"V1": 0, "V2C": 1, "V3": 3}


def make_creds(rt, interp, fam, tag):
    ctx = interp.ctx
    if fam == "V3":
        return Obj(get_cls(rt, interp, "puresnmp.credentials:V3"),
                   {"username": ctx.fresh_str(tag + "_user"), "auth": None, "priv": None, "mpm": 3})
    return Obj(get_cls(rt, interp, "puresnmp.credentials:" + fam),
               {"community": ctx.fresh_str(tag + "_community"), "mpm": FAMILIES[fam]})



class ConfigBase(VU):
    props = ("C18",)
    label = "proved"

    def setup(self, rt, interp):
        self.rt = rt
        self.created = []

        def create(i, c, a, k):
            m = Obj(PyClass("MPM(contract-slot)", [], kind="builtin"), {"identifier": a[0], "handler": a[1], "lcd": a[2]})
            self.created.append(m)
            return m
        self.create_hook = create

    init_family = "V2C"

    def client(self, interp):
        c = bare_client(self.rt, interp, credentials=make_creds(self.rt, interp, self.init_family, "init"))
        self.rt.hooks["puresnmp.plugins.mpm:create"] = self.create_hook
        self.created = []
        return c

    def kwargs_for(self, interp, names, client):
        ctx, rt = interp.ctx, self.rt
        kw = {}
        for n in names:
            if n == "timeout":
                kw["timeout"] = ctx.fresh_int("new_timeout")
            elif n == "retries":
                kw["retries"] = ctx.fresh_int("new_retries")
            elif n == "credentials-same-family":
                kw["credentials"] = make_creds(rt, interp, self.init_family, "new")
            elif n == "credentials-other-family":
                kw["credentials"] = make_creds(rt, interp, "V3" if self.init_family != "V3" else "V2C", "new")
            elif n.startswith("credentials="):
                kw["credentials"] = make_creds(rt, interp, n.split("=")[1], "new")
            elif n == "context":
                kw["context"] = Obj(get_cls(rt, interp, "puresnmp.api.raw:Context"),
                                    {"engine_id": ctx.fresh_bytes("eid"), "name": ctx.fresh_bytes("cname")})
            elif n == "unknown":
                kw["no_such_setting"] = 1
        return kw


class Configure(ConfigBase):
    target = "puresnmp.api.raw:Client.configure"
    functions = ("puresnmp.api.raw:Client.configure", "puresnmp.api.raw:Client.__init__")

    def __init__(self, names, init_family="V2C"):
        self.names = tuple(names)
        self.init_family = init_family
        self.name = "Client.configure[client with %s credentials; %s]" % (init_family, ",".join(names))

    def run(self, interp):
        ctx, rt = interp.ctx, self.rt
        c = self.client(interp)
        kw = self.kwargs_for(interp, self.names, c)
        old_cfg, old_mpm = c.fields["config"], c.fields["mpm"]
        before = snapshot(c)
        fn = get_func(rt, interp, self.target)
        exc = None
        try:
            interp.call(BoundMethod(fn, c), [], kw)
        except PyExc as pe:
            exc = pe.obj
        T = self.target
        if "unknown" in self.names:
            ctx.check(oname("C18", T, "raises", "unknown-setting-refused-with-TypeError"),
                      exc is not None and exc_is(exc, rt.builtin_class("TypeError")))
            ctx.check(oname("C18", T, "frame", "nothing-changed-when-refused"), snapshot(c) == before)
            return "raises"
        ctx.check(oname("C18", T, "ensures", "accepts-known-settings"), exc is None)
        if exc is not None:
            return "raises"
        cfg = c.fields["config"]
        conds = []
        for f in ("credentials", "context", "lcd", "timeout", "retries"):
            want = kw.get(f, old_cfg.fields[f])
            got = cfg.fields.get(f)
            conds.append(got is want if isinstance(want, (Obj, PDict)) else interp.eq(got, want))
        ctx.check(oname("C18", T, "ensures", "config-is-the-old-one-with-exactly-the-given-settings-replaced"), And(*conds))
        switched = "credentials-other-family" in self.names or any(
            n.startswith("credentials=") and n.split("=")[1] != self.init_family for n in self.names)
        if switched:
            ok = (len(self.created) == 1 and c.fields["mpm"] is self.created[0]
                  and interp.eq(self.created[0].fields["identifier"], kw["credentials"].fields["mpm"]) is True
                  and self.created[0].fields["handler"] is c.fields["transport_handler"])
            ctx.check(oname("C18", T, "ensures", "family-switch-creates-the-model-of-the-new-credentials"), ok)
        else:
            ctx.check(oname("C18", T, "ensures", "same-family-keeps-the-message-processing-model"),
                      c.fields["mpm"] is old_mpm and not self.created)
        return "returns"


class Reconfigure(ConfigBase):
    target = "puresnmp.api.raw:Client.reconfigure"
    functions = ("puresnmp.api.raw:Client.reconfigure", "puresnmp.api.raw:Client.configure")

    def __init__(self, names, body, init_family="V2C"):
        self.names, self.body = tuple(names), body
        self.init_family = init_family
        self.name = "Client.reconfigure[client with %s credentials; %s; block %s]" % (init_family, ",".join(names) or "nothing", body)

    def run(self, interp):
        ctx, rt = interp.ctx, self.rt
        c = self.client(interp)
        kw = self.kwargs_for(interp, self.names, c)
        old_cfg, old_mpm = c.fields["config"], c.fields["mpm"]
        fn = get_func(rt, interp, self.target)
        inside = {}
        # the block may be left by any exception - also by one that is not an Exception (a request cancelled by
        # asyncio.wait_for / task.cancel(): CancelledError derives from BaseException)
        marker = Obj(rt.builtin_class("CancelledError" if "cancelled" in self.body else "RuntimeError"), {"args": ("raised by the block",)})

        def block(value):
            cfg = c.fields["config"]
            inside["cfg"], inside["mpm"] = cfg, c.fields["mpm"]
            # the block is arbitrary code: it may reconfigure permanently (any config, any model) ...
            if "havoc" in self.body:
                c.fields["config"] = Obj(cfg.cls, dict(cfg.fields, timeout=ctx.fresh_int("block_timeout")))
                c.fields["mpm"] = Obj(PyClass("MPM(set-by-block)", [], kind="builtin"))
            # ... and leave normally or by an exception
            if "raises" in self.body:
                raise PyExc(marker)
        mgr = interp.call(BoundMethod(fn, c), [], kw)
        exc = None
        try:
            interp.run_ctxmgr(mgr, block)
        except PyExc as pe:
            exc = pe.obj
        T = self.target
        if "unknown" in self.names:
            ctx.check(oname("C18", T, "raises", "unknown-setting-refused-with-TypeError"),
                      exc is not None and exc_is(exc, rt.builtin_class("TypeError")) and not inside)
        else:
            # inside the block exactly the overridden settings differ
            ok = "cfg" in inside
            ctx.check(oname("C18", T, "enter", "block-runs-once"), ok)
            if ok:
                conds = []
                for f in ("credentials", "context", "lcd", "timeout", "retries"):
                    want = kw.get(f, old_cfg.fields[f])
                    got = inside["cfg"].fields.get(f)
                    conds.append(got is want if isinstance(want, (Obj, PDict)) else interp.eq(got, want))
                ctx.check(oname("C18", T, "enter", "inside-the-block-exactly-the-overrides-apply"), And(*conds))
                if "credentials-other-family" in self.names or any(
                        n.startswith("credentials=") and n.split("=")[1] != self.init_family for n in self.names):
                    ctx.check(oname("C18", T, "enter", "family-switch-applies-inside-the-block"),
                              inside["mpm"] is not old_mpm and len(self.created) == 1 and inside["mpm"] is self.created[0])
            if "raises" in self.body:
                ctx.check(oname("C18", T, "exit", "the-blocks-exception-propagates-unchanged"), exc is marker)
            else:
                ctx.check(oname("C18", T, "exit", "normal-exit-raises-nothing"), exc is None)
        ctx.check(oname("C18", T, "exit", "config-and-model-are-the-entry-objects-again(normal-or-exceptional)"),
                  c.fields["config"] is old_cfg and c.fields["mpm"] is old_mpm)
        return "raises" if exc is not None else "returns"


class Handler(ConfigBase):
    """The closure handed to the message-processing model (used for SNMPv3 discovery)."""
    target = "puresnmp.api.raw:Client.__init__"
    functions = ("puresnmp.api.raw:Client.__init__",)
    name = "Client.__init__.<locals>.handler"

    def run(self, interp):
        ctx, rt = interp.ctx, self.rt
        log = []
        reply = ctx.fresh_bytes("reply")

        def sender(i, a, k):
            log.append((a, k))
            return reply
        c = bare_client(rt, interp, sender=Builtin("sender", sender))
        h = c.fields.get("transport_handler")
        # settings change after construction: the handler must read them at call time
        cfg = c.fields["config"]
        t2, r2 = ctx.fresh_int("later_timeout"), ctx.fresh_int("later_retries")
        c.fields["config"] = Obj(cfg.cls, dict(cfg.fields, timeout=t2, retries=r2))
        data = ctx.fresh_bytes("probe")
        out = interp.call(h, [data], {})
        T = "puresnmp.api.raw:Client.__init__.handler"
        ok = len(log) == 1
        ctx.check(oname("C18", T, "ensures", "one-send"), ok)
        if ok:
            a, k = log[0]
            ctx.check(oname("C18", T, "ensures", "sends-the-data-to-the-clients-endpoint-with-the-settings-current-at-call-time"),
                      len(a) == 2 and a[0] is c.fields["endpoint"] and And(interp.eq(a[1], data), interp.eq(k.get("timeout"), t2),
                                                                         interp.eq(k.get("retries"), r2)))
            ctx.check(oname("C18", T, "ensures", "returns-the-reply"), interp.eq(out, reply))
        ctx.check(oname("C18", T, "ensures", "model-created-for-the-credentials-with-this-handler"),
                  c.fields["mpm"].fields.get("slot_args") is not None
                  and interp.eq(c.fields["mpm"].fields["slot_args"][0], 1) is True
                  and c.fields["mpm"].fields["slot_args"][1] is h)
        return "returns"


def units(tier):
    us = [Handler()]
    singles = [(n,) for n in SETTINGS] + [()]
    pairs = [("timeout", "retries"), ("timeout", "credentials-other-family"), ("retries", "unknown"),
             ("credentials-same-family", "context"), ("credentials-other-family", "unknown")]
    if tier == "thorough":
        base = [n for n in SETTINGS if n != "credentials-same-family"]
        pairs = [p for r in (2, 3) for p in itertools.combinations(base, r)] + [("credentials-same-family", "timeout")]
    for a in FAMILIES:
        for b in FAMILIES:
            us.append(Configure(("credentials=%s" % b,), a))
            us.append(Reconfigure(("credentials=%s" % b,), "returns", a))
    for names in singles + pairs:
        if names:
            us.append(Configure(names))
        for body in ("returns", "raises", "havoc+returns", "havoc+raises", "havoc+raises(cancelled)"):
            us.append(Reconfigure(names, body))
    return us
