"""
RFC-transcribed specification terms (independent of the code under verification).

RFC 1157 section 4 / RFC 3416 section 3:   Message ::= SEQUENCE { version INTEGER, community OCTET STRING, data PDU }
    PDU ::= [tag] IMPLICIT SEQUENCE { request-id INTEGER, error-status INTEGER, error-index INTEGER,
                                      variable-bindings SEQUENCE OF SEQUENCE { name OBJECT IDENTIFIER, value ANY } }
    GetBulk: the second and third field are non-repeaters and max-repetitions.
RFC 3412 section 6:  SNMPv3Message ::= SEQUENCE { msgVersion INTEGER(3), msgGlobalData HeaderData,
    msgSecurityParameters OCTET STRING, msgData ScopedPduData }
    HeaderData ::= SEQUENCE { msgID, msgMaxSize, msgFlags OCTET STRING (SIZE(1)), msgSecurityModel }
    ScopedPDU ::= SEQUENCE { contextEngineID OCTET STRING, contextName OCTET STRING, data ANY }
RFC 3414 section 2.4: UsmSecurityParameters ::= SEQUENCE { msgAuthoritativeEngineID OCTET STRING,
    msgAuthoritativeEngineBoots INTEGER, msgAuthoritativeEngineTime INTEGER, msgUserName OCTET STRING,
    msgAuthenticationParameters OCTET STRING, msgPrivacyParameters OCTET STRING }
"""
from pyvc.wire import WLit, WByte, WInt, WOidC, WVal, WTlv, WCat

SEQ, INT, OCTETS, OIDT = 0x30, 0x02, 0x04, 0x06
GET, GETNEXT, RESPONSE, SET, GETBULK, INFORM, TRAP2, REPORT = 0xA0, 0xA1, 0xA2, 0xA3, 0xA5, 0xA6, 0xA7, 0xA8
NULL = WLit(b"\x05\x00")


class Forms:
    """which length octets the specification side uses"""

    def __init__(self, form="x690", ctx=None):
        self.form, self.ctx, self.n = form, ctx, 0

    def next(self):
        if self.form == "any":       # every TLV of an incoming message has its own (symbolic) definite form
            self.n += 1
            return ("sym", self.ctx.fresh_int("length_form%d" % self.n))
        return self.form


def tlv(ident, content, F):
    return WTlv(ident, content, F.next())


def t_int(v, F):
    return tlv(INT, WInt(v), F)


def t_octets(b, F):
    return tlv(OCTETS, b, F)


def t_oid(o, F):
    return tlv(OIDT, WOidC(o), F)


def t_seq(items, F, ident=SEQ):
    return tlv(ident, WCat(items), F)


def t_value(v, F):
    """a binding's value: NULL, a typed value object's encoding, or an environment value"""
    if v is None:
        return NULL
    return v


def pdu(tag, rid, f1, f2, varbinds, F):
    """varbinds: list of (oid, value-wire)"""
    vbl = t_seq([t_seq([t_oid(o, F), t_value(v, F)], F) for o, v in varbinds], F)
    return t_seq([t_int(rid, F), t_int(f1, F), t_int(f2, F), vbl], F, ident=tag)


def community_message(version, community, pdu_term, F):
    return t_seq([t_int(version, F), t_octets(community, F), pdu_term], F)


def usm_params(engine_id, boots, etime, user, auth, priv, F):
    return t_seq([t_octets(engine_id, F), t_int(boots, F), t_int(etime, F), t_octets(user, F), t_octets(auth, F),
                  t_octets(priv, F)], F)


def scoped_pdu(ctx_engine, ctx_name, pdu_term, F):
    return t_seq([t_octets(ctx_engine, F), t_octets(ctx_name, F), pdu_term], F)


def v3_message(msg_id, max_size, flags, model, secparams_term, payload, F):
    hdr = t_seq([t_int(msg_id, F), t_int(max_size, F), t_octets(WByte(flags), F), t_int(model, F)], F)
    return t_seq([t_int(3, F), hdr, t_octets(secparams_term, F), payload], F)
