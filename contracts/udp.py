"""
C13: transport.send_udp and SNMPClientProtocol against a model of the asyncio datagram API.

Environment (assumed, DESIGN 7.13):
  loop.create_datagram_endpoint(factory, remote_addr=a)  calls factory(), opens a transport (ghost: open, sent log),
        calls protocol.connection_made(transport), returns (transport, protocol)
  asyncio.wait_for(protocol.future, timeout)  while the attempt waits the environment chooses ONE outcome:
        reply      protocol.datagram_received(data, addr) is called (a second reply only reaches an open transport)
        no-reply   `timeout` seconds pass, asyncio.TimeoutError is raised (a reply after that finds the transport aborted)
        error      protocol.error_received(exc) is called (ICMP / OS error); the future's exception is raised
        lost       the transport is closed by the OS and protocol.connection_lost(exc) is called; exception raised
  callbacks are only delivered to an open transport.
The retry loop has a symbolic trip count: inductive invariant over ghost counters
  attempts + retries == R0,  every earlier attempt timed out after exactly `timeout` and left no transport open,
  every datagram sent so far is the caller's packet to the endpoint's address;   variant: retries.
"""
import z3

from pyvc import core
from pyvc.core import And, Or, Not, Implies, lift_bool, lift_int, Undecided, SInt, SBytes, zint
from pyvc.objects import Obj, NT, PyExc, PDict, PyClass, Builtin, BoundMethod, Opaque
from pyvc.interp import LoopClause
from pyvc.vu import VU
from .common import oname, get_cls, exc_is, get_func

T_SEND = "puresnmp.transport:send_udp"


class SendUdp(VU):
    props = ("C13", "C20")
    target = T_SEND
    functions = (T_SEND, "puresnmp.transport:SNMPClientProtocol.__init__", "puresnmp.transport:SNMPClientProtocol.connection_made",
                 "puresnmp.transport:SNMPClientProtocol.datagram_received", "puresnmp.transport:SNMPClientProtocol.error_received",
                 "puresnmp.transport:SNMPClientProtocol.connection_lost", "puresnmp.transport:SNMPClientProtocol.get_data")
    label = "proved (any number of retries >= 1, any timeout, every sequence of per-attempt outcomes)"
    name = "send_udp[retries >= 1, every outcome sequence]"

    def setup(self, rt, interp):
        self.rt = rt
        ctx = interp.ctx
        # packet[a:b] of the caller's (symbolic) packet: an uninterpreted function of (packet, a, b) - it IS the packet only for
        # the full slice; `packet[:n]` differs from the packet for every packet longer than n
        import z3 as _z3
        from pyvc.core import Bytes as _Bytes, Int as _Int
        f_slice = _z3.Function("bytes_slice", _Bytes, _Int, _Int, _Bytes)

        def sl(rt_, i, c, lo, hi, step):
            if lo is None and hi is None and step is None:
                return c
            if step is not None:
                raise Undecided("strided slice of the packet")
            n = rt.blen(c.e)
            a = zint(lo) if lo is not None else _z3.IntVal(0)
            b = zint(hi) if hi is not None else n
            r = f_slice(c.e, a, b)
            i.ctx.assume(lift_bool(_z3.Implies(_z3.And(a == 0, b >= n), r == c.e)))
            i.ctx.assume(lift_bool(_z3.Implies(_z3.And(a == 0, b >= 0, b < n), rt.blen(r) == b)))
            return SBytes(r)
        rt.getslice_hooks["SBytes"] = sl
        self.transports = []
        self.protocols = []
        self.sent_ok = True              # every datagram so far is the caller's packet to the endpoint
        self.timeouts_waited = 0         # this iteration (concrete); the symbolic total is `attempts`
        self.reply = None
        self.outcome_log = []
        tcls = PyClass("DatagramTransport(model)", [], kind="builtin")

        def t_sendto(i, a, k):
            a[0].fields["sent"].append(a[1])

        def t_close(i, a, k):
            a[0].fields["open"] = False

        tcls.native_attrs.update({"sendto": Builtin("sendto", t_sendto), "close": Builtin("close", t_close),
                                  "abort": Builtin("abort", t_close),
                                  "get_extra_info": Builtin("get_extra_info", lambda i, a, k: ("", ""))})
        self.tcls = tcls
        fcls = PyClass("Future(model)", [], kind="builtin")

        def f_set_result(i, a, k):
            f = a[0]
            if f.fields["state"] != "pending":
                i.raise_py("RuntimeError", "InvalidStateError")
            f.fields["state"], f.fields["value"] = "result", a[1]

        def f_set_exception(i, a, k):
            f = a[0]
            if f.fields["state"] != "pending":
                i.raise_py("RuntimeError", "InvalidStateError")
            f.fields["state"], f.fields["value"] = "exception", a[1]
        fcls.native_attrs.update({"set_result": Builtin("set_result", f_set_result),
                                  "set_exception": Builtin("set_exception", f_set_exception)})
        lcls = PyClass("EventLoop(model)", [], kind="builtin")
        lcls.native_attrs["create_future"] = Builtin("create_future", lambda i, a, k: Obj(fcls, {"state": "pending", "value": None}))
        lcls.native_attrs["create_datagram_endpoint"] = Builtin("create_datagram_endpoint", self.create_endpoint)
        lcls.native_attrs["time"] = Builtin("time", lambda i, a, k: self.now)      # virtual clock
        self.now = ctx.fresh_int("loop_time")
        self.now0 = self.now
        self.loop = Obj(lcls)
        am = rt.native_modules["asyncio"]
        am["get_running_loop"] = Builtin("get_running_loop", lambda i, a, k: self.loop)
        am["get_event_loop"] = Builtin("get_event_loop", lambda i, a, k: self.loop)
        am["wait_for"] = Builtin("wait_for", self.wait_for)
        rt.module_cache.pop("asyncio", None)
        rt.theory.note("asyncio datagram endpoint / wait_for / futures: the environment model of contracts/udp.py")
        interp.loop_clauses[(T_SEND, 0)] = LoopClause(self.havoc, self.invariant, self.variant, mode="both")

    # ------------------------------------------------------------------ environment
    def create_endpoint(self, interp, a, k):
        factory = a[1]
        proto = interp.call(factory, [], {})
        tr = Obj(self.tcls, {"open": True, "sent": [], "remote": k.get("remote_addr")})
        self.transports.append(tr)
        self.protocols.append(proto)
        interp.call(interp.rt.getattr(interp, proto, "connection_made"), [tr], {})
        return (tr, proto)

    def wait_for(self, interp, a, k):
        fut, timeout = a[0], a[1]
        ctx, rt = interp.ctx, self.rt
        proto, tr = self.protocols[-1], self.transports[-1]
        ctx.check(oname("C13", "puresnmp.transport:SNMPClientProtocol.get_data", "ensures", "waits-for-its-own-future-with-the-given-timeout"),
                  fut is proto.fields.get("future") and interp.eq(timeout, self.timeout))
        which = ctx.fresh_int("attempt_outcome")
        if ctx.branch(which.eq(0)):
            # reply in time (possibly a second one right behind it)
            data = ctx.fresh_bytes("reply")
            self.outcome_log.append(("reply", data))
            interp.call(rt.getattr(interp, proto, "datagram_received"), [data, ("192.0.2.1", 161)], {})
            if tr.fields["open"] and ctx.branch(ctx.fresh_bool("second_reply")):
                try:
                    interp.call(rt.getattr(interp, proto, "datagram_received"), [ctx.fresh_bytes("reply2"), ("192.0.2.1", 161)], {})
                except PyExc:
                    pass          # an exception in a protocol callback is logged by the loop
        elif ctx.branch(which.eq(1)):
            self.outcome_log.append(("timeout",))
            self.timeouts_waited += 1
            self.now = lift_int(zint(self.now) + zint(timeout))
            raise PyExc(rt.make_exception(rt.builtin_class("TimeoutError"), []))
        elif ctx.branch(which.eq(2)):
            err = rt.make_exception(rt.builtin_class("ConnectionRefusedError"), ["ICMP port unreachable"])
            self.outcome_log.append(("error", err))
            interp.call(rt.getattr(interp, proto, "error_received"), [err], {})
        else:
            err = rt.make_exception(rt.builtin_class("OSError"), ["connection lost"])
            self.outcome_log.append(("lost", err))
            tr.fields["open"] = False        # the OS closed it
            interp.call(rt.getattr(interp, proto, "connection_lost"), [err], {})
        st = fut.fields["state"]
        if st == "result":
            return fut.fields["value"]
        if st == "exception":
            raise PyExc(fut.fields["value"])
        raise Undecided("future left pending by the protocol callbacks")

    # ------------------------------------------------------------------ loop clause
    def all_closed(self):
        return all(not t.fields["open"] for t in self.transports)

    def payloads_ok(self, interp):
        conds = [self.sent_ok]
        for t in self.transports:
            for d in t.fields["sent"]:
                conds.append(interp.eq(d, self.packet))
            ra = t.fields["remote"]
            conds.append(isinstance(ra, tuple) and len(ra) == 2 and interp.eq(ra[1], self.port))
            conds.append(len(t.fields["sent"]) == 1)
        return And(*conds)

    def counter_name(self, interp):
        """the loop's counter is addressed by role: the one local the `while` condition tests"""
        if getattr(self, "_counter", None) is None:
            import ast
            from pyvc.interp import nth_loop, loop_assigned_names
            fi = interp.program.find_function(T_SEND)
            loop = nth_loop(fi.node, 0) if fi is not None else None
            if loop is None:
                raise Undecided("send_udp has no `while` loop any more: the loop contract has nothing to attach to")
            names = [n.id for n in ast.walk(loop.test) if isinstance(n, ast.Name)]
            if len(names) != 1:
                raise Undecided("send_udp: the loop condition does not test exactly one local (%r)" % names)
            self._counter = names[0]
            self._temporaries = sorted(loop_assigned_names(loop) - {names[0]})
        return self._counter

    def invariant(self, interp, frame, when):
        retries = frame.locals.get(self.counter_name(interp))
        out = []
        if when == "assume":
            # ghost counters of the havocked state
            out.append(("ghost", And(self.attempts >= 0, retries >= 1, lift_bool(zint(self.attempts) + zint(retries) == zint(self.R0)))))
            return out
        done_now = len(self.transports)          # attempts made since the (re)start of this path segment
        total = lift_int(zint(self.attempts) + done_now) if when == "preserve" else done_now
        out.append(("attempts-plus-retries-is-the-budget", lift_bool(zint(total) + zint(retries) == zint(self.R0))))
        out.append(("at-least-one-attempt-left-at-the-loop-head", retries >= 1 if isinstance(retries, SInt) else retries >= 1))
        out.append(("every-earlier-attempt-timed-out-after-exactly-one-timeout",
                    all(o[0] == "timeout" for o in self.outcome_log) and self.timeouts_waited == done_now))
        out.append(("no-transport-of-an-earlier-attempt-is-open", self.all_closed()))
        out.append(("every-datagram-sent-is-the-callers-packet-to-the-endpoint", self.payloads_ok(interp)))
        return out

    def havoc(self, interp, frame):
        ctx = interp.ctx
        from pyvc.interp import Poison
        frame.locals[self.counter_name(interp)] = ctx.fresh_int("retries_left")
        for name in self._temporaries:
            frame.locals[name] = Poison(name)
        self.attempts = ctx.fresh_int("attempts_so_far")
        self.transports, self.protocols, self.outcome_log, self.timeouts_waited = [], [], [], 0
        # virtual time that has passed: one timeout per earlier attempt (a product of two unknowns; the consequences
        # below are what the obligations need)
        elapsed = ctx.fresh_int("elapsed")
        ctx.assume(And(elapsed >= 0, Implies(self.attempts >= 1, elapsed >= self.timeout), Implies(self.attempts.eq(0), elapsed.eq(0))))
        self.now = lift_int(zint(self.now0) + zint(elapsed))

    def variant(self, interp, frame):
        return frame.locals.get(self.counter_name(interp))

    # ------------------------------------------------------------------ unit
    def run(self, interp):
        ctx, rt = interp.ctx, self.rt
        self.packet = ctx.fresh_bytes("packet")
        self.timeout = ctx.fresh_int("timeout")
        self.R0 = ctx.fresh_int("retries")
        self.port = ctx.fresh_int("port")
        self.attempts = 0
        ctx.assume(self.R0 >= 1)                  # requires: retries >= 1 (the property's range is 1..4)
        ctx.mark_base()
        endpoint = NT(get_cls(rt, interp, "puresnmp.transport:Endpoint"), [Opaque("ip"), self.port])
        fn = get_func(rt, interp, T_SEND)
        exc = result = None
        try:
            result = interp.call(fn, [endpoint, self.packet], {"timeout": self.timeout, "retries": self.R0})
        except PyExc as pe:
            exc = pe.obj
        total_attempts = lift_int(zint(self.attempts) + len(self.transports))
        ctx.check(oname("C13", T_SEND, "ensures", "no-socket-left-open-on-any-exit"), self.all_closed())
        ctx.check(oname("C13", T_SEND, "ensures", "at-most-`retries`-transmissions-of-the-identical-request"),
                  And(self.payloads_ok(interp), total_attempts <= self.R0))
        # C20: whatever arrives (also an empty datagram), the sender does not resend without bound
        ctx.check(oname("C20", T_SEND, "ensures", "no-datagram-makes-the-sender-transmit-more-than-`retries`-times"), total_attempts <= self.R0)
        if exc is None:
            last = self.outcome_log[-1] if self.outcome_log else None
            ok = last is not None and last[0] == "reply"
            ctx.check(oname("C13", T_SEND, "ensures", "returns-only-after-a-reply"), ok)
            if ok:
                ctx.check(oname("C13", T_SEND, "ensures", "returns-the-first-replys-bytes-unmodified"), interp.eq(result, last[1]))
            return "returns"
        tmo = get_cls(rt, interp, "puresnmp.exc:Timeout")
        if exc_is(exc, tmo):
            ctx.check(oname("C13", T_SEND, "raises", "Timeout-after-exactly-`retries`-unanswered-attempts-of-`timeout`-seconds-each"),
                      And(lift_bool(zint(total_attempts) == zint(self.R0)), all(o[0] == "timeout" for o in self.outcome_log),
                          self.timeouts_waited == len(self.transports)))
            return "raises:Timeout"
        last = self.outcome_log[-1] if self.outcome_log else None
        ctx.check(oname("C13", T_SEND, "raises", "any-other-exception-is-the-attempts-own-error"),
                  last is not None and last[0] in ("error", "lost") and exc is last[1])
        return "raises:" + exc.cls.name


def units(tier):
    return [SendUdp()]
