"""
The ``Client._send`` seam verified from below (C07, C08, C14, C18) and the community-based
security models (C07, C19).

``_send`` is executed from its real AST; the message-processing model and the sender are
contract slots:

  mpm.encode(request_id, credentials, engine_id, context_name, pdu) -> (packet, security_model)
  sender(endpoint, packet, timeout=, retries=) -> raw response bytes   (any bytes)
  mpm.decode(raw, credentials) -> a lazily decoded PDU: reading ``.value`` either raises the
        ErrorResponse for a non-zero error-status or gives PDUContent with ANY request id
"""
import z3

from pyvc import core
from pyvc.core import And, Or, Not, Implies, lift_bool, Undecided, SInt, SBytes
from pyvc.objects import Obj, NT, PyExc, PDict, PyClass, Builtin, BoundMethod
from .common import ApiUnit, oname, get_cls, bare_client, exc_is, get_func
from pyvc.vu import VU
from pyvc.theories import OidTheory, XValTheory


class SendUnit(ApiUnit):
    props = ("C07", "C08", "C14", "C18")
    target = "puresnmp.api.raw:Client._send"
    functions = ("puresnmp.api.raw:Client._send", "puresnmp.util:validate_response_id",
                 "puresnmp.api.raw:Client.credentials", "puresnmp.api.raw:Client.context")
    label = "proved"

    def __init__(self, error_response, response_class="GetResponse"):
        self.error_response, self.response_class = error_response, response_class
        if error_response:
            self.props = ("C08", "C14", "C18")
        self.name = "Client._send[%s%s]" % ("agent-error-status" if error_response else "no-error",
                                             "" if response_class == "GetResponse" else ", the decoded PDU is a %s" % response_class)

    def run(self, interp):
        ctx, rt = interp.ctx, self.rt
        log = {"encode": [], "send": [], "decode": []}
        creds = Obj(get_cls(rt, interp, "puresnmp.credentials:V2C"), {"community": ctx.fresh_str("community"), "mpm": 1})
        context = Obj(get_cls(rt, interp, "puresnmp.api.raw:Context"),
                      {"engine_id": ctx.fresh_bytes("ctx_engine"), "name": ctx.fresh_bytes("ctx_name")})
        cfg = Obj(get_cls(rt, interp, "puresnmp.api.raw:ClientConfig"),
                  {"credentials": creds, "context": context, "lcd": PDict(), "timeout": ctx.fresh_int("timeout"),
                   "retries": ctx.fresh_int("retries")})
        resp_rid = ctx.fresh_int("response_request_id")
        content = Obj(get_cls(rt, interp, "puresnmp.pdu:PDUContent"),
                      {"request_id": resp_rid, "varbinds": [], "error_status": 0, "error_index": 0})
        resp_cls = get_cls(rt, interp, "puresnmp.pdu:" + self.response_class)     # whatever class the model decodes to
        response = Obj(resp_cls, {"pyvalue": content, "_raw_bytes": b"", "_lazy_error": self.error_response})
        err_cls = get_cls(rt, interp, "puresnmp.exc:ErrorResponse")
        value_reads = []

        def value_hook(i, obj):
            if obj is response:
                value_reads.append(1)
                if obj.fields.get("_lazy_error"):
                    raise PyExc(Obj(err_cls, {"args": (), "error_status": ctx.fresh_int("status"), "offending_oid": None}))
            return NotImplemented
        rt.attr_hooks[(resp_cls.fullname, "value")] = value_hook
        packet = ctx.fresh_bytes("packet")
        raw = ctx.fresh_bytes("raw_response")

        def encode(i, a, k):
            log["encode"].append((a[1:], k))
            return (packet, None)

        def decode(i, a, k):
            log["decode"].append((a[1:], k))
            return response

        def sender(i, a, k):
            log["send"].append((a, k))
            return raw
        mpm_cls = PyClass("MPM(contract-slot)", [], kind="builtin")
        mpm_cls.native_attrs = {"encode": Builtin("mpm.encode", encode), "decode": Builtin("mpm.decode", decode)}
        endpoint = Obj(PyClass("Endpoint(opaque)", [], kind="builtin"))
        client = bare_client(rt, interp, config=cfg, mpm=Obj(mpm_cls), sender=Builtin("sender", sender), endpoint=endpoint)
        pdu = Obj(get_cls(rt, interp, "puresnmp.pdu:GetRequest"), {"pyvalue": None, "_raw_bytes": b""})
        request_id = ctx.fresh_int("request_id")
        exc = result = None
        try:
            result = self.call_target(interp, client, pdu, request_id)
        except PyExc as pe:
            exc = pe.obj
        T = self.target

        def both(labels_props, kind, label, cond):
            for p in labels_props:
                ctx.check(oname(p, T, kind, label), cond)
        # --- what reached the message layer and the transport (C18, C14: read at send time, own arguments)
        ok = len(log["encode"]) == 1 and len(log["send"]) == 1
        both(("C18", "C14"), "ensures", "one-encode-one-send", ok)
        if ok:
            a, k = log["encode"][0]
            both(("C18", "C14"), "ensures", "encode-gets-own-id-current-credentials-context-and-pdu",
                 len(a) == 5 and And(interp.eq(a[0], request_id), a[1] is creds, interp.eq(a[2], context.fields["engine_id"]),
                                     interp.eq(a[3], context.fields["name"]), a[4] is pdu))
            a, k = log["send"][0]
            both(("C18", "C14"), "ensures", "sender-gets-packet-and-current-timeout-retries",
                 len(a) == 2 and a[0] is endpoint and And(interp.eq(a[1], packet), interp.eq(k.get("timeout"), cfg.fields["timeout"]),
                                                         interp.eq(k.get("retries"), cfg.fields["retries"])))
        if log["decode"]:
            a, k = log["decode"][0]
            both(("C18", "C14"), "ensures", "decode-gets-the-reply-and-current-credentials",
                 len(a) == 2 and a[1] is creds and interp.eq(a[0], raw))
        # --- C08: the lazily decoded value is always read, so an agent error cannot be skipped
        ctx.check(oname("C08", T, "ensures", "response-value-is-forced-before-return"), len(value_reads) >= 1)
        if self.error_response:
            ctx.check(oname("C08", T, "raises", "agent-error-surfaces-as-ErrorResponse-never-as-data"),
                      exc is not None and exc_is(exc, err_cls))
            return "raises"
        # --- C07
        same = interp.eq(resp_rid, request_id)
        inv = get_cls(rt, interp, "puresnmp.exc:InvalidResponseId")
        if exc is not None:
            both(("C07", "C14"), "raises", "only-InvalidResponseId-and-only-for-a-foreign-id", And(exc_is(exc, inv), Not(same)))
            return "raises"
        both(("C07", "C14"), "ensures", "returned-response-carries-the-request-id", same)
        both(("C07", "C14"), "ensures", "returns-the-decoded-response", result is response)
        return "returns"


class CommunityIncoming(VU):
    """process_incoming_message of the v1 / v2c security models: version and community checks."""
    props = ("C07", "C19")
    label = "proved"

    def __init__(self, version):
        self.version = version
        mod = "v1" if version == 0 else "v2c"
        cls = "SNMPv1SecurityModel" if version == 0 else "SNMPv2cSecurityModel"
        self.target = "puresnmp_plugins.security.%s:%s.process_incoming_message" % (mod, cls)
        self.functions = (self.target,)
        self.cls_spec = "puresnmp_plugins.security.%s:%s" % (mod, cls)
        self.cred_spec = "puresnmp.credentials:%s" % ("V1" if version == 0 else "V2C")
        self.name = "%s.process_incoming_message" % cls

    def setup(self, rt, interp):
        self.rt = rt

    def run(self, interp):
        ctx, rt = interp.ctx, self.rt
        ver = ctx.fresh_int("msg_version")
        comm = ctx.fresh_bytes("msg_community")
        mk = lambda spec, val: Obj(get_cls(rt, interp, spec), {"pyvalue": val, "_raw_bytes": b""})
        pdu = Obj(get_cls(rt, interp, "puresnmp.pdu:GetResponse"), {"pyvalue": None, "_raw_bytes": b""})
        msg = mk("x690.types:Sequence", [mk("x690.types:Integer", ver), mk("x690.types:OctetString", comm), pdu])
        community = ctx.fresh_str("cred_community")
        creds = Obj(get_cls(rt, interp, self.cred_spec), {"community": community, "mpm": 0 if self.version == 0 else 1})
        sm = Obj(get_cls(rt, interp, self.cls_spec), {"local_config": PDict()})
        fn = get_func(rt, interp, self.target)
        exc = result = None
        try:
            result = interp.call(BoundMethod(fn, sm), [msg, creds], {})
        except PyExc as pe:
            exc = pe.obj
        expected = And(interp.eq(ver, self.version), interp.eq(comm, SBytes(rt.f_str_ascii(community.e))))
        snmp = get_cls(rt, interp, "puresnmp.exc:SnmpError")
        for p in self.props:
            if exc is not None:
                ctx.check(oname(p, self.target, "raises", "only-SnmpError-and-only-for-foreign-version-or-community"),
                          And(exc_is(exc, snmp), Not(expected)))
            else:
                ctx.check(oname(p, self.target, "ensures", "accepted-only-with-own-version-and-community"), expected)
                ctx.check(oname(p, self.target, "ensures", "returns-the-pdu-of-the-message"), result is pdu)
        return "raises" if exc is not None else "returns"


class RequestIdFromClock(VU):
    """puresnmp.util.get_request_id: the id is the wall clock in whole seconds (what C07's quantifier speaks about: "a clock that
    advances between any two reads"), hence an Integer32 / a legal SNMPv3 msgID for every clock value below 2^31 seconds."""
    props = ("C05", "C07", "C10", "C12")
    label = "proved"
    target = "puresnmp.util:get_request_id"
    functions = (target,)
    name = "get_request_id[any clock value >= 0]"

    def setup(self, rt, interp):
        self.rt = rt
        from pyvc import stdlib
        stdlib.install_numeric_models(rt, interp)

    def run(self, interp):
        import z3
        from pyvc.stdlib import SReal
        from pyvc.core import lift_bool, zint, SInt
        ctx, rt = interp.ctx, self.rt
        t = ctx.fresh(z3.RealSort(), "wall_clock_seconds")
        ctx.assume(lift_bool(t >= 0))
        reads = []

        def clock(i, fn, a, k):
            if fn.name != "time.time":
                raise Undecided("call of external %s" % fn.name)
            reads.append(1)
            return SReal(t)
        rt.call_hooks["Opaque"] = clock
        exc = res = None
        try:
            res = interp.call(get_func(rt, interp, self.target), [], {})
        except PyExc as pe:
            exc = pe.obj
        for p in self.props:
            ok = exc is None and isinstance(res, (int, SInt)) and not isinstance(res, bool)
            ctx.check(oname(p, self.target, "ensures", "returns-an-integer"), ok)
            if ok:
                r = zint(res)
                ctx.check(oname(p, self.target, "ensures", "the-id-is-the-wall-clock-in-whole-seconds(one-read)"),
                          And(len(reads) == 1, lift_bool(z3.And(z3.ToReal(r) <= t, t < z3.ToReal(r) + 1))))
                ctx.check(oname(p, self.target, "ensures", "an-Integer32-and-legal-msgID-while-the-clock-is-below-2^31"),
                          lift_bool(z3.Implies(t < 2 ** 31, z3.And(r >= 0, r <= 2 ** 31 - 1))))
        return "returns"


def units_request_id(tier):
    return [RequestIdFromClock()]


def units(tier):
    return [SendUnit(False), SendUnit(True), SendUnit(False, "Report"), SendUnit(False, "GetRequest"), CommunityIncoming(0), CommunityIncoming(1)]
