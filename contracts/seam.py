"""
The ``Client._send`` seam verified from below (C07, C08, C14, C18) and the community-based
security models (C07, C19).

``_send`` is executed from its real AST; the message-processing model and the sender are
contract slots:

  mpm.encode(request_id, credentials, engine_id, context_name, pdu) -> (packet, security_model)
  sender(endpoint, packet, timeout=, retries=) -> raw response bytes   (any bytes)
  mpm.decode(raw, credentials) -> a lazily decoded PDU: reading ``.value`` either raises the
        ErrorResponse for a non-zero error-status or gives PDUContent with ANY request id
"""
import z3

from pyvc import core
from pyvc.core import And, Or, Not, Implies, lift_bool, Undecided, SInt, SBytes
from pyvc.objects import Obj, NT, PyExc, PDict, PyClass, Builtin, BoundMethod
from .common import ApiUnit, oname, get_cls, bare_client, exc_is, get_func
from pyvc.vu import VU
from pyvc.theories import OidTheory, XValTheory


class SendUnit(ApiUnit):
    props = ("C07", "C08", "C14", "C18")
    target = "puresnmp.api.raw:Client._send"
    functions = ("puresnmp.api.raw:Client._send", "puresnmp.util:validate_response_id",
                 "puresnmp.api.raw:Client.credentials", "puresnmp.api.raw:Client.context")
    label = "proved"

    def __init__(self, error_response):
        self.error_response = error_response
        if error_response:
            self.props = ("C08", "C14", "C18")
        self.name = "Client._send[%s]" % ("agent-error-status" if error_response else "no-error")

    def run(self, interp):
        ctx, rt = interp.ctx, self.rt
        log = {"encode": [], "send": [], "decode": []}
        creds = Obj(get_cls(rt, interp, "puresnmp.credentials:V2C"), {"community": ctx.fresh_str("community"), "mpm": 1})
        context = Obj(get_cls(rt, interp, "puresnmp.api.raw:Context"),
                      {"engine_id": ctx.fresh_bytes("ctx_engine"), "name": ctx.fresh_bytes("ctx_name")})
        cfg = Obj(get_cls(rt, interp, "puresnmp.api.raw:ClientConfig"),
                  {"credentials": creds, "context": context, "lcd": PDict(), "timeout": ctx.fresh_int("timeout"),
                   "retries": ctx.fresh_int("retries")})
        resp_rid = ctx.fresh_int("response_request_id")
        content = Obj(get_cls(rt, interp, "puresnmp.pdu:PDUContent"),
                      {"request_id": resp_rid, "varbinds": [], "error_status": 0, "error_index": 0})
        resp_cls = get_cls(rt, interp, "puresnmp.pdu:GetResponse")
        response = Obj(resp_cls, {"pyvalue": content, "_raw_bytes": b"", "_lazy_error": self.error_response})
        err_cls = get_cls(rt, interp, "puresnmp.exc:ErrorResponse")
        value_reads = []

        def value_hook(i, obj):
            if obj is response:
                value_reads.append(1)
                if obj.fields.get("_lazy_error"):
                    raise PyExc(Obj(err_cls, {"args": (), "error_status": ctx.fresh_int("status"), "offending_oid": None}))
            return NotImplemented
        rt.attr_hooks[(resp_cls.fullname, "value")] = value_hook
        packet = ctx.fresh_bytes("packet")
        raw = ctx.fresh_bytes("raw_response")

        def encode(i, a, k):
            log["encode"].append((a[1:], k))
            return (packet, None)

        def decode(i, a, k):
            log["decode"].append((a[1:], k))
            return response

        def sender(i, a, k):
            log["send"].append((a, k))
            return raw
        mpm_cls = PyClass("MPM(contract-slot)", [], kind="builtin")
        mpm_cls.native_attrs = {"encode": Builtin("mpm.encode", encode), "decode": Builtin("mpm.decode", decode)}
        endpoint = Obj(PyClass("Endpoint(opaque)", [], kind="builtin"))
        client = bare_client(rt, interp, config=cfg, mpm=Obj(mpm_cls), sender=Builtin("sender", sender), endpoint=endpoint)
        pdu = Obj(get_cls(rt, interp, "puresnmp.pdu:GetRequest"), {"pyvalue": None, "_raw_bytes": b""})
        request_id = ctx.fresh_int("request_id")
        exc = result = None
        try:
            result = self.call_target(interp, client, pdu, request_id)
        except PyExc as pe:
            exc = pe.obj
        T = self.target

        def both(labels_props, kind, label, cond):
            for p in labels_props:
                ctx.check(oname(p, T, kind, label), cond)
        # --- what reached the message layer and the transport (C18, C14: read at send time, own arguments)
        ok = len(log["encode"]) == 1 and len(log["send"]) == 1
        both(("C18", "C14"), "ensures", "one-encode-one-send", ok)
        if ok:
            a, k = log["encode"][0]
            both(("C18", "C14"), "ensures", "encode-gets-own-id-current-credentials-context-and-pdu",
                 len(a) == 5 and And(interp.eq(a[0], request_id), a[1] is creds, interp.eq(a[2], context.fields["engine_id"]),
                                     interp.eq(a[3], context.fields["name"]), a[4] is pdu))
            a, k = log["send"][0]
            both(("C18", "C14"), "ensures", "sender-gets-packet-and-current-timeout-retries",
                 len(a) == 2 and a[0] is endpoint and And(interp.eq(a[1], packet), interp.eq(k.get("timeout"), cfg.fields["timeout"]),
                                                         interp.eq(k.get("retries"), cfg.fields["retries"])))
        if log["decode"]:
            a, k = log["decode"][0]
            both(("C18", "C14"), "ensures", "decode-gets-the-reply-and-current-credentials",
                 len(a) == 2 and a[1] is creds and interp.eq(a[0], raw))
        # --- C08: the lazily decoded value is always read, so an agent error cannot be skipped
        ctx.check(oname("C08", T, "ensures", "response-value-is-forced-before-return"), len(value_reads) >= 1)
        if self.error_response:
            ctx.check(oname("C08", T, "raises", "agent-error-surfaces-as-ErrorResponse-never-as-data"),
                      exc is not None and exc_is(exc, err_cls))
            return "raises"
        # --- C07
        same = interp.eq(resp_rid, request_id)
        inv = get_cls(rt, interp, "puresnmp.exc:InvalidResponseId")
        if exc is not None:
            both(("C07", "C14"), "raises", "only-InvalidResponseId-and-only-for-a-foreign-id", And(exc_is(exc, inv), Not(same)))
            return "raises"
        both(("C07", "C14"), "ensures", "returned-response-carries-the-request-id", same)
        both(("C07", "C14"), "ensures", "returns-the-decoded-response", result is response)
        return "returns"


class CommunityIncoming(VU):
    """process_incoming_message of the v1 / v2c security models: version and community checks."""
    props = ("C07", "C19")
    label = "proved"

    def __init__(self, version):
        self.version = version
        mod = "v1" if version == 0 else "v2c"
        cls = "SNMPv1SecurityModel" if version == 0 else "SNMPv2cSecurityModel"
        self.target = "puresnmp_plugins.security.%s:%s.process_incoming_message" % (mod, cls)
        self.functions = (self.target,)
        self.cls_spec = "puresnmp_plugins.security.%s:%s" % (mod, cls)
        self.cred_spec = "puresnmp.credentials:%s" % ("V1" if version == 0 else "V2C")
        self.name = "%s.process_incoming_message" % cls

    def setup(self, rt, interp):
        self.rt = rt

    def run(self, interp):
        ctx, rt = interp.ctx, self.rt
        ver = ctx.fresh_int("msg_version")
        comm = ctx.fresh_bytes("msg_community")
        mk = lambda spec, val: Obj(get_cls(rt, interp, spec), {"pyvalue": val, "_raw_bytes": b""})
        pdu = Obj(get_cls(rt, interp, "puresnmp.pdu:GetResponse"), {"pyvalue": None, "_raw_bytes": b""})
        msg = mk("x690.types:Sequence", [mk("x690.types:Integer", ver), mk("x690.types:OctetString", comm), pdu])
        community = ctx.fresh_str("cred_community")
        creds = Obj(get_cls(rt, interp, self.cred_spec), {"community": community, "mpm": 0 if self.version == 0 else 1})
        sm = Obj(get_cls(rt, interp, self.cls_spec), {"local_config": PDict()})
        fn = get_func(rt, interp, self.target)
        exc = result = None
        try:
            result = interp.call(BoundMethod(fn, sm), [msg, creds], {})
        except PyExc as pe:
            exc = pe.obj
        expected = And(interp.eq(ver, self.version), interp.eq(comm, SBytes(rt.f_str_ascii(community.e))))
        snmp = get_cls(rt, interp, "puresnmp.exc:SnmpError")
        for p in self.props:
            if exc is not None:
                ctx.check(oname(p, self.target, "raises", "only-SnmpError-and-only-for-foreign-version-or-community"),
                          And(exc_is(exc, snmp), Not(expected)))
            else:
                ctx.check(oname(p, self.target, "ensures", "accepted-only-with-own-version-and-community"), expected)
                ctx.check(oname(p, self.target, "ensures", "returns-the-pdu-of-the-message"), result is pdu)
        return "raises" if exc is not None else "returns"


def units(tier):
    return [SendUnit(False), SendUnit(True), CommunityIncoming(0), CommunityIncoming(1)]
