"""
SNMPv3 / USM below the seam: request emission with discovery (C05, C07, C10, C11, C12) and response
processing (C06, C08, C09, C10, C11).

Everything from ``Client.<operation>`` down to the bytes handed to ``sender`` is executed from the real ASTs:
_send, the plug-in loaders, V3MPM.encode, is_confirmed, send_discovery_message, set_engine_timing,
generate_request_message, apply_encryption, apply_authentication, reset_digest, USMSecurityParameters,
Message/HeaderData/ScopedPDU/V3Flags serialisers, hashbase.for_outgoing/for_incoming/get_message_digest.
Used by contract: ``password_to_key.<locals>.hasher`` (verified against RFC 3414 A.2 in KeyDerivation below),
the privacy plug-in (two uninterpreted functions with decrypt(encrypt(x)) = x), hashlib/hmac (uninterpreted),
x690 (term algebra contract).
"""
import z3

from pyvc import core, x690model, stdlib, wire
from pyvc.core import And, Or, Not, Implies, lift_bool, lift_int, Undecided, SInt, SOid, SXVal, SBytes, SStr, zint, Bytes, Int, PStr
from pyvc.objects import Obj, NT, PyExc, PDict, PyClass, Builtin, BoundMethod, Opaque
from pyvc.vu import VU
from pyvc.theories import OidTheory, XValTheory
from pyvc.wire import WVal, WTlv, WInt, WLit, WByte, WCat, W
from . import rfc
from .common import oname, get_cls, exc_is, get_func, varbind
from .wire_community import WireUnit, ERROR_TABLE

USM_STATS_UNKNOWN_ENGINE = "1.3.6.1.6.3.15.1.1.4.0"
LEVELS = {"noAuthNoPriv": (None, False), "authNoPriv-md5": ("md5", False), "authNoPriv-sha1": ("sha1", False),
          "authPriv-md5": ("md5", True), "authPriv-sha1": ("sha1", True)}
OPS = {"multiget": (rfc.GET, True), "multigetnext": (rfc.GETNEXT, True), "multiset": (rfc.SET, True), "bulkget": (rfc.GETBULK, True)}


class V3Unit(WireUnit):
    def later_calls(self):
        """the same exchange for the user whose authentication hash is the other one (same passwords, same engine)"""
        import copy
        level = getattr(self, "level", None)
        if not isinstance(level, str) or "-" not in level:
            return []
        other = copy.copy(self)
        other.level = level.replace("md5", "sha1") if "md5" in level else level.replace("sha1", "md5")
        return [other]

    def setup(self, rt, interp):
        WireUnit.setup(self, rt, interp)
        from pyvc import stdlib as _stdlib
        _stdlib.install_numeric_models(rt, interp)        # timedelta / ip addresses (application types in ill-typed fields)
        F = z3.Function
        rt.f_kul = F("localised_key", PStr, Bytes, Bytes, Bytes)           # (hash name, password, engine id)
        rt.f_ct = F("priv_ciphertext", Bytes, Bytes, Int, Int, Bytes, Bytes)
        rt.f_salt = F("priv_salt", Bytes, Bytes, Int, Int, Bytes, Bytes)
        rt.theory.note("password_to_key(...).hasher(password, engine) is used by its contract localised_key(hash, password, engine) "
                       "(verified against RFC 3414 A.2 in the KeyDerivation unit)")
        rt.theory.note("the privacy plug-in is two uninterpreted functions (ciphertext, salt) of (key, engine, boots, time, data); "
                       "its decrypt returns the plaintext for exactly the parameters it was encrypted with (the property's axiom)")
        rt.hooks["puresnmp.util:password_to_key.<locals>.hasher"] = self.h_hasher
        rt.hooks["puresnmp.plugins.priv:create"] = self.h_priv_create
        rt.call_hooks["Opaque"] = self.x.h_opaque_call
        rt.hooks["int.from_bytes"] = self.h_from_bytes
        self.priv_calls = []

    def h_hasher(self, interp, closure, args, kwargs):
        params = [a.arg for a in closure.frame.func.info.node.args.args]      # password_to_key(hash_implementation, padding_length)
        if len(params) != 2:
            raise Undecided("password_to_key no longer takes (hash implementation, padding length)")
        impl = closure.frame.locals.get(params[0])
        name = getattr(impl, "name", "")
        if name not in ("hashlib.md5", "hashlib.sha1"):
            raise Undecided("password_to_key with an unknown hash implementation")
        pad = closure.frame.locals.get(params[1])
        want = 16 if name == "hashlib.md5" else 20
        if pad != want:
            # a truncated key is not the RFC key: fall back to the real body (KeyDerivation reports it)
            raise Undecided("password_to_key padding length %r for %s" % (pad, name))
        w = self.rt.wire
        return SBytes(self.rt.f_kul(self.rt.str_lit(name.split(".")[1]), w.z(args[0]), w.z(args[1])))

    def h_priv_create(self, interp, closure, args, kwargs):
        rt, w = self.rt, self.rt.wire
        cls = PyClass("privacy-plug-in(contract-slot)", [], kind="builtin")

        def enc(i, a, k):
            key, eid, boots, etime, data = a
            self.priv_calls.append(("encrypt", a))
            zs = (w.z(key), w.z(eid), zint(boots), zint(etime), w.z(data))
            return (SBytes(rt.f_ct(*zs)), SBytes(rt.f_salt(*zs)))

        def dec(i, a, k):
            self.priv_calls.append(("decrypt", a))
            return self.decrypt_model(i, a)
        cls.native_attrs["encrypt_data"] = Builtin("encrypt_data", enc)
        cls.native_attrs["decrypt_data"] = Builtin("decrypt_data", dec)
        m = Obj(cls)
        # plug-in functions are module functions: no self
        m.cls.native_attrs["encrypt_data"] = _Unbound(enc)
        m.cls.native_attrs["decrypt_data"] = _Unbound(dec)
        return m

    def decrypt_model(self, interp, a):
        raise Undecided("decrypt_data reached in a unit without an encrypted response")

    def h_from_bytes(self, interp, data, order_, signed):
        if isinstance(data, WByte):
            return data.v
        if isinstance(data, WInt):
            return data.v
        raise Undecided("int.from_bytes on %r" % (data,))

    def v3creds(self, interp, level):
        rt, ctx = self.rt, interp.ctx
        hashname, priv = LEVELS[level]
        auth = NT(get_cls(rt, interp, "puresnmp.credentials:Auth"), [ctx.fresh_bytes("auth_password"), hashname]) if hashname else None
        pv = NT(get_cls(rt, interp, "puresnmp.credentials:Priv"), [ctx.fresh_bytes("priv_password"), "cipher"]) if priv else None
        return Obj(get_cls(rt, interp, "puresnmp.credentials:V3"),
                   {"username": ctx.fresh_str("username"), "auth": auth, "priv": pv, "mpm": 3})


class _Unbound(Builtin):
    """a native callable that ignores the bound self (module-level functions of a plug-in module)"""

    def __init__(self, fn):
        Builtin.__init__(self, "plugin-fn", lambda i, a, k: fn(i, a[1:], k))


class EmitV3(V3Unit):
    may_be_empty = True
    props = ("C05", "C07", "C10", "C11", "C12", "C14", "C20")
    label = "proved-shape-bounded(binding list of the enumerated length; every leaf symbolic)"

    def __init__(self, level, op, k, ctx_engine_given, reply="ok", interference=False, second_user=None):
        self.level, self.op, self.k, self.ctx_engine_given, self.reply = level, op, k, ctx_engine_given, reply
        self.interference = interference
        self.second_user = second_user
        self.target = "puresnmp.api.raw:Client.%s" % op
        self.functions = (self.target, "puresnmp.api.raw:Client._send", "puresnmp.api.raw:Client.__init__",
                          "puresnmp_plugins.mpm.v3:V3MPM.encode", "puresnmp_plugins.mpm.v3:is_confirmed",
                          "puresnmp_plugins.security.usm:UserSecurityModel.send_discovery_message",
                          "puresnmp_plugins.security.usm:UserSecurityModel.set_engine_timing",
                          "puresnmp_plugins.security.usm:UserSecurityModel.generate_request_message",
                          "puresnmp_plugins.security.usm:apply_encryption", "puresnmp_plugins.security.usm:apply_authentication",
                          "puresnmp_plugins.security.usm:reset_digest", "puresnmp_plugins.security.usm:USMSecurityParameters.decode",
                          "puresnmp_plugins.security.usm:USMSecurityParameters.as_snmp_type",
                          "puresnmp.adt:Message.__bytes__", "puresnmp.adt:Message.from_sequence", "puresnmp.adt:HeaderData.as_snmp_type",
                          "puresnmp.adt:V3Flags.__bytes__", "puresnmp.adt:V3Flags.decode", "puresnmp.adt:ScopedPDU.as_snmp_type",
                          "puresnmp_plugins.auth.hashbase:get_message_digest", "puresnmp_plugins.auth.hashbase:for_outgoing",
                          "puresnmp.util:localise_key", "puresnmp.util:validate_response_id", "puresnmp.pdu:PDU.encode_raw",
                          "puresnmp.pdu:PDU.decode_raw", "puresnmp.plugins.auth:create")
        if reply != "ok":
            self.props = ("C12", "C20")
        elif not LEVELS[level][1]:
            self.props = tuple(p for p in self.props if p != "C11")
        if interference:
            self.props = ("C14",)
        if second_user:
            self.props = tuple(self.props) + ("C18",)
        self.name = "v3 %s %s[%d oids, context engine %s, discovery reply %s%s%s]" % (
            level, op, k, "given" if ctx_engine_given else "default", reply,
            ", other tasks interfere at every await" if interference else "",
            ", then configure(credentials=%s user)" % second_user if second_user else "")

    def run(self, interp):
        ctx, rt = interp.ctx, self.rt
        sent = []
        tmo = get_cls(rt, interp, "puresnmp.exc:Timeout")
        creds = self.v3creds(interp, self.level)
        hashname, use_priv = LEVELS[self.level]
        # the agent's discovery report (RFC 3414 section 4), every leaf symbolic, any definite length forms
        E, B, Tm = ctx.fresh_bytes("agent_engine_id"), ctx.fresh_int("agent_boots"), ctx.fresh_int("agent_time")
        reply_msgid = ctx.fresh_int("discovery_reply_msgid")
        counter = self.xv.fresh(ctx, "unknownEngineIDs_counter")
        ctx.assume(lift_bool(rt.xtruth(counter.e)))           # a counter value (truthy)
        FA = rfc.Forms("any", ctx)
        stats = Obj(get_cls(rt, interp, "x690.types:ObjectIdentifier"), {"pyvalue": USM_STATS_UNKNOWN_ENGINE, "_raw_bytes": b""})
        report_vbs = [] if self.reply == "no-bindings" else [(SOid(rt.oid.lit(interp, stats)), WVal(counter))]
        if self.reply == "ill-typed-boots":
            # a reply that still decodes: msgAuthoritativeEngineBoots is sent as an OCTET STRING
            secp = rfc.t_seq([rfc.t_octets(E, FA), rfc.t_octets(ctx.fresh_bytes("boots_as_octets"), FA), rfc.t_int(Tm, FA),
                              rfc.t_octets(b"", FA), rfc.t_octets(b"", FA), rfc.t_octets(b"", FA)], FA)
        elif self.reply == "ill-typed-boots-timeticks":
            # ... or as an application type that x690 decodes to a subclass of Integer (TimeTicks pythonises to a timedelta)
            secp = rfc.t_seq([rfc.t_octets(E, FA), rfc.tlv(0x43, WInt(B), FA), rfc.t_int(Tm, FA),
                              rfc.t_octets(b"", FA), rfc.t_octets(b"", FA), rfc.t_octets(b"", FA)], FA)
        elif self.reply == "ill-typed-time":
            secp = rfc.t_seq([rfc.t_octets(E, FA), rfc.t_int(B, FA), rfc.t_octets(ctx.fresh_bytes("time_as_octets"), FA),
                              rfc.t_octets(b"", FA), rfc.t_octets(b"", FA), rfc.t_octets(b"", FA)], FA)
        else:
            secp = rfc.usm_params(E, B, Tm, b"", b"", b"", FA)
        reply = rfc.v3_message(reply_msgid, ctx.fresh_int("agent_max_size"), 0, 3,
                               secp,
                               # (the report's contextEngineID is whatever the agent puts there - it may echo the probe's
                               #  empty one, RFC 3412 7.1 3c; the engine to talk to is msgAuthoritativeEngineID)
                               rfc.scoped_pdu(ctx.fresh_bytes("report_context_engine_id"), ctx.fresh_bytes("report_context_name"),
                                              rfc.pdu(rfc.REPORT, ctx.fresh_int("report_rid"), 0, 0, report_vbs, FA), FA), FA)
        ctx.assume(And(SInt(z3.Int("report_flags!0")) >= 0, SInt(z3.Int("report_flags!0")) < 4) if False else True)

        def sender(i, a, k):
            sent.append((a, k))
            if len(sent) == 1:
                return reply
            raise PyExc(rt.instantiate(i, tmo, ["stop after the request was captured"], {}))
        given = ctx.fresh_bytes("context_engine_id") if self.ctx_engine_given else b""
        if self.ctx_engine_given:
            ctx.assume(Not(interp.eq(given, b"")))
        cname = ctx.fresh_bytes("context_name")
        client = rt.instantiate(interp, get_cls(rt, interp, "puresnmp.api.raw:Client"), ["192.0.2.1", creds],
                                {"sender": Builtin("sender", sender), "context_name": cname, "engine_id": given})
        oids = [ctx.fresh_oid("oid%d" % i) for i in range(self.k)]
        fn = get_func(rt, interp, self.target)
        tag, _ = OPS[self.op]
        f1 = f2 = 0
        mproc = client.fields["mpm"]
        w_before = set(mproc.fields)
        awaits = {"n": 0, "at_timing": None, "at_generate": None}
        B_used, T_used = [B], [Tm]
        if self.interference:
            # rely condition Inv_W: at every await another task of the same client may complete a discovery of the SAME
            # agent (same engine id, any boots/time) and store it, and may store that timing for the engine
            disco_cls = get_cls(rt, interp, "puresnmp_plugins.security.usm:DiscoData")

            rt.global_write_log = []

            def other_tasks(i):
                awaits["n"] += 1
                # state that outlives the call and is shared between clients or tasks (an object created at import time or in a
                # class body) and that THIS call has written: another task running the same code writes it too, with its values
                for shared, field in list(getattr(rt, "global_write_log", [])):
                    old = shared.fields.get(field) if isinstance(shared, Obj) and field is not None else None
                    if isinstance(old, bool) or old is None:
                        if old is None and isinstance(shared, Obj):
                            continue
                        raise Undecided("another task may overwrite the shared state this call wrote (%r)" % (field,))
                    if isinstance(old, (int, SInt)):
                        shared.fields[field] = ctx.fresh_int("other_tasks_%s" % field)
                    elif isinstance(old, (bytes, SBytes)):
                        shared.fields[field] = ctx.fresh_bytes("other_tasks_%s" % field)
                    else:
                        raise Undecided("another task may overwrite the shared state this call wrote (%s)" % field)
                if ctx.branch(ctx.fresh_bool("other_task_stored_its_discovery")):
                    b2, t2 = ctx.fresh_int("other_boots"), ctx.fresh_int("other_time")
                    mproc.fields["disco"] = Obj(disco_cls, {"authoritative_engine_id": E, "authoritative_engine_boots": b2,
                                                             "authoritative_engine_time": t2, "unknown_engine_ids": ctx.fresh_int("cnt")})
                    sm = mproc.fields.get("security_model")
                    if sm is not None:
                        sm.fields["local_config"] = PDict([(E, PDict([("authoritative_engine_boots", b2), ("authoritative_engine_time", t2)]))])
            rt.after_await = other_tasks
            orig_timing = rt.hooks.get("puresnmp_plugins.security.usm:UserSecurityModel.set_engine_timing")

            def timing(i, c, a, k):
                awaits["at_timing"] = awaits["n"]
                B_used[0], T_used[0] = a[2], a[3]
                return NotImplemented
            rt.hooks["puresnmp_plugins.security.usm:UserSecurityModel.set_engine_timing"] = timing

            def generate(i, c, a, k):
                awaits["at_generate"] = awaits["n"]
                return NotImplemented
            rt.hooks["puresnmp_plugins.security.usm:UserSecurityModel.generate_request_message"] = generate
        kwargs = {}
        if self.op == "multiset":
            for i in range(self.k):
                for j in range(i + 1, self.k):
                    ctx.assume(Not(interp.eq(oids[i], oids[j])))
            values = [self.xv.fresh(ctx, "set_val%d" % i) for i in range(self.k)]
            args, vals = [PDict(list(zip(oids, values)))], [WVal(v) for v in values]
        elif self.op == "bulkget":
            args, vals = [[], list(oids)], [None] * self.k
            mrep = ctx.fresh_int("max_repetitions")       # whatever the caller says, 0 included
            ctx.assume(mrep >= 0)
            f1, f2 = 0, mrep
            kwargs = {"max_list_size": mrep}
        else:
            args, vals = [list(oids)], [None] * self.k
        exc = None
        try:
            interp.call(BoundMethod(fn, client), args, kwargs)
        except PyExc as pe:
            exc = pe.obj
        finally:
            rt.after_await = None
        T = self.target
        P = [p for p in self.props]
        B, Tm = B_used[0], T_used[0]          # (interference: the timing of whichever discovery result was current)
        ctx.check(oname("C14", "puresnmp_plugins.mpm.v3:V3MPM.encode", "frame",
                        "shared-writes-stay-inside-{security_model,disco,local_config}"),
                  set(mproc.fields) - w_before <= {"disco", "security_model"})
        if self.interference and awaits["at_generate"] is not None:
            ctx.check(oname("C14", "puresnmp_plugins.mpm.v3:V3MPM.encode", "ensures",
                            "no-await-between-set_engine_timing-and-generate_request_message"),
                      awaits["at_timing"] == awaits["at_generate"])

        def chk(props, func, kind, label, cond, **kw):
            for p in props:
                if p in P:
                    ctx.check(oname(p, func, kind, label), cond, **kw)
        DISC = "puresnmp_plugins.security.usm:UserSecurityModel.send_discovery_message"
        ENC = "puresnmp_plugins.mpm.v3:V3MPM.encode"
        # ---------------- discovery probe (first datagram)
        ok = len(sent) >= 1
        chk(("C12", "C05"), ENC, "ensures", "discovery-exchange-precedes-the-first-request", ok)
        if not ok:
            return "?"
        cv = self.clock_vals + [SInt(z3.Int("no-clock-read"))] * 3
        probe_id = cv[1]          # the first clock read is the operation's request id, the second the probe's
        FX = rfc.Forms("x690")
        probe = rfc.v3_message(probe_id, 65507, 4, 3, rfc.usm_params(b"", 0, 0, b"", b"", b"", FX),
                               rfc.scoped_pdu(b"", b"", rfc.pdu(rfc.GET, probe_id, 0, 0, [], FX), FX), FX)
        chk(("C12", "C05"), DISC, "ensures", "probe-is-the-RFC-3414-discovery-message(reportable,noAuthNoPriv,empty-engine-and-user)",
            interp.eq(sent[0][0][1], probe))
        same_id = interp.eq(reply_msgid, probe_id)
        inv = get_cls(rt, interp, "puresnmp.exc:InvalidResponseId")
        snmp = get_cls(rt, interp, "puresnmp.exc:SnmpError")
        if len(sent) == 1:
            # C20: a refused discovery reply leaves the message processor as it was (the next request starts over)
            ctx.check(oname("C20", ENC, "frame", "a-refused-discovery-reply-leaves-no-state-behind"),
                      set(mproc.fields) - w_before <= {"security_model"} and mproc.fields.get("disco") is None)
        if self.reply == "no-bindings":
            chk(("C12",), DISC, "raises", "a-discovery-reply-without-bindings-is-refused", exc is not None and exc_is(exc, snmp) and len(sent) == 1)
            return "refused"
        if self.reply.startswith("ill-typed"):
            # C20: the datagram must be refused here, while the client can still start over - not be stored and make
            # every later request fail
            ctx.check(oname("C20", DISC, "raises", "a-discovery-reply-with-ill-typed-engine-timing-is-refused"),
                      exc is not None and len(sent) == 1 and mproc.fields.get("disco") is None)
            return "refused"
        if len(sent) == 1:
            chk(("C07", "C12", "C05", "C14"), DISC, "raises", "only-InvalidResponseId-and-only-for-a-foreign-message-id",
                And(exc is not None and exc_is(exc, inv), Not(same_id)))
            return "refused"
        chk(("C07", "C12", "C14"), DISC, "ensures", "a-discovery-reply-is-accepted-only-with-the-probes-message-id", same_id)
        # ---------------- the request (second datagram)
        ok = len(sent) == 2 and exc is not None and exc_is(exc, tmo)
        chk(("C05", "C12", "C14"), T, "ensures", "exactly-one-request-datagram-after-discovery", ok)
        if not ok:
            return "?"
        w = rt.wire
        ctx_engine = given if self.ctx_engine_given else E
        hname_of = lambda hn: rt.str_lit(hn) if hn else None          # noqa: E731

        def check_request(data, rid, creds_x, level_x, which):
            """the datagram `data` is the RFC 3412/3414 request of user creds_x (security level level_x) with request id rid"""
            hashname_x, use_priv_x = LEVELS[level_x]
            user = SBytes(rt.f_str_ascii(creds_x.fields["username"].e))
            F = rfc.Forms("x690")
            the_pdu = rfc.pdu(tag, rid, f1, f2, list(zip(oids, vals)), F)
            scoped = rfc.scoped_pdu(ctx_engine, cname, the_pdu, F)
            flags = 4 + (2 if use_priv_x else 0) + (1 if hashname_x else 0)     # confirmed class: reportable
            hname = hname_of(hashname_x)
            kpriv = None
            if use_priv_x:
                kpriv = rt.f_kul(hname, w.z(creds_x.fields["priv"][0]), E.e)
                zs = (kpriv, E.e, B.e, Tm.e, w.z(scoped))
                payload, privp = rfc.t_octets(SBytes(rt.f_ct(*zs)), F), SBytes(rt.f_salt(*zs))
            else:
                payload, privp = scoped, b""

            def message(authp):
                Fm = rfc.Forms("x690")
                return rfc.v3_message(rid, 65507, flags, 3, rfc.usm_params(E, B, Tm, user, authp, privp, Fm), payload, Fm)
            if hashname_x:
                kul = rt.f_kul(hname, w.z(creds_x.fields["auth"][0]), E.e)
                digest = SBytes(rt.f_prefix(rt.f_hmac(hname, kul, w.z(message(b"\x00" * 12))), z3.IntVal(12)))
                final = message(digest)
            else:
                final = message(b"")
            chk(("C05", "C10", "C12", "C14") + (("C11",) if use_priv_x and which else ()), ENC, "ensures",
                "request-is-the-RFC-3412/3414-message(flags,discovered-engine-boots-time,user,context,digest-over-the-message-as-sent)" + which,
                interp.eq(data, final))
            return final, scoped, kpriv
        final, scoped, kpriv = check_request(sent[1][0][1], cv[0], creds, self.level, "")
        data = sent[1][0][1]
        if use_priv:
            encs = [c for c in self.priv_calls if c[0] == "encrypt"]
            ok = len(encs) == 1
            chk(("C11",), "puresnmp_plugins.security.usm:apply_encryption", "ensures", "plug-in-encrypts-exactly-once", ok)
            if ok:
                key, eid, boots, etime, plain = encs[0][1]
                chk(("C11",), "puresnmp_plugins.security.usm:apply_encryption", "ensures",
                    "encrypts-the-scoped-PDU-under-the-privacy-password-localised-with-the-auth-hash-and-the-discovered-boots-time",
                    And(interp.eq(key, SBytes(kpriv)), interp.eq(eid, E), interp.eq(boots, B), interp.eq(etime, Tm), interp.eq(plain, scoped)))
            chk(("C11",), ENC, "ensures", "datagram-carries-the-ciphertext-with-the-plug-ins-salt(no-plaintext-scoped-PDU)",
                interp.eq(data, final))
        if self.second_user and not self.interference:
            # ---------------- the same client after configure(credentials=<another SNMPv3 user>): nothing of the first user
            # (name, keys, level) may be left in the next request (the engine data of the discovery stays)
            creds2 = self.v3creds(interp, self.second_user)
            interp.call(rt.getattr(interp, client, "configure"), [], {"credentials": creds2})
            n_clock = len(self.clock_vals)
            exc2 = None
            try:
                interp.call(BoundMethod(fn, client), args, kwargs)
            except PyExc as pe:
                exc2 = pe.obj
            ok = len(sent) == 3 and exc2 is not None and exc_is(exc2, tmo) and len(self.clock_vals) > n_clock
            chk(("C05", "C18"), T, "ensures", "after-a-change-of-the-v3-user-exactly-one-request-and-no-new-discovery", ok)
            if ok:
                self.priv_calls = []
                check_request(sent[2][0][1], self.clock_vals[n_clock], creds2, self.second_user, "(second user after configure)")
        return "emitted"


class KeyDerivation(VU):
    """password_to_key(hash, pad).hasher against RFC 3414 A.2:  Ku = H(first 2^20 octets of the repeated password),
    Kul = H(Ku ++ engineID ++ Ku) -- for every password length >= 1."""
    props = ("C10", "C11")
    label = "proved"
    target = "puresnmp.util:password_to_key"
    functions = (target, "data:puresnmp_plugins.auth.md5", "data:puresnmp_plugins.auth.sha1")

    def __init__(self, hashname):
        self.hashname = hashname
        self.name = "password_to_key(%s).hasher[all password lengths >= 1]" % hashname

    def setup(self, rt, interp):
        self.rt = rt
        self.x = x690model.install(rt, interp)
        rt.call_hooks["Opaque"] = self.x.h_opaque_call
        F = z3.Function
        rt.f_expand = F("repeat_to_length", Bytes, Int, Bytes)      # first n octets of the endlessly repeated argument
        b, n = z3.Const("b", Bytes), z3.Int("n")
        rt.theory.add("prefix-of-short", z3.ForAll([b, n], z3.Implies(rt.f_blen(b) <= n, rt.f_prefix(b, n) == b)))
        for h, l in (("md5", 16), ("sha1", 20)):
            rt.theory.add("digest-size", z3.ForAll([b], rt.f_blen(rt.f_hash(rt.str_lit(h), b)) == l))
        rt.theory.note("hashlib digest sizes: md5 16, sha1 20; (p * k)[:n] is the first n octets of the repeated p when k*len(p) >= n")

        def mul(i, a, k):
            return _Rep(a, k)
        rt.hooks["bytes*int"] = mul

        def rep_slice(rt_, i, c, lo, hi, step):
            if lo is not None or step is not None or not isinstance(hi, int):
                raise Undecided("slice of a repeated byte string")
            L = rt.f_blen(rt.wire.z(c.base))
            i.ctx.check("C10/util.password_to_key.hasher/requires:repetition-covers-the-whole-megabyte",
                        lift_bool(zint(c.count) * L >= hi))
            i.ctx.check("C11/util.password_to_key.hasher/requires:repetition-covers-the-whole-megabyte",
                        lift_bool(zint(c.count) * L >= hi))
            return SBytes(rt.f_expand(rt.wire.z(c.base), z3.IntVal(hi)))
        rt.getslice_hooks["_Rep"] = rep_slice
        # the other spelling of the same expansion: p * (n // len(p)) + p[:n % len(p)]
        generic = rt.getslice_hooks.get("SBytes")

        def prefix_slice(rt_, i, c, lo, hi, step):
            if lo is None and step is None and isinstance(hi, SInt):
                res = SBytes(rt.f_prefix(c.e, zint(hi)))
                res.prefix_of = (c, hi)
                return res
            return generic(rt_, i, c, lo, hi, step)
        rt.getslice_hooks["SBytes"] = prefix_slice

        def rep_add(i, opn, a, b):
            from pyvc import stdlib
            pre = getattr(b, "prefix_of", None)
            if opn != "Add" or pre is None or pre[0] is not a.base:
                return NotImplemented
            L, r, q = rt.f_blen(rt.wire.z(a.base)), zint(pre[1]), zint(a.count)
            if not stdlib._prove(i, z3.And(r >= 0, r <= L, q >= 0)):
                raise Undecided("p * q + p[:r] with r not known to lie in 0..len(p)")
            return SBytes(rt.f_expand(rt.wire.z(a.base), q * L + r))
        rt.hooks["binop:_Rep"] = rep_add

    def run(self, interp):
        ctx, rt = interp.ctx, self.rt
        mod = rt.import_module("puresnmp_plugins.auth." + self.hashname)
        hasher = rt.module_attr(interp, mod, "hasher")
        ident = rt.module_attr(interp, mod, "IDENTIFIER")
        password, engine = ctx.fresh_bytes("password"), ctx.fresh_bytes("engine_id")
        ctx.assume(SInt(rt.f_blen(password.e)) >= 1)
        out = interp.call(hasher, [password, engine], {})
        h = rt.str_lit(self.hashname)
        ku = rt.f_hash(h, rt.f_expand(password.e, z3.IntVal(1048576)))
        want = SBytes(rt.f_hash(h, rt.wire.z(WCat([SBytes(ku), engine, SBytes(ku)]))))
        for p in self.props:
            ctx.check("%s/puresnmp_plugins.auth.%s/data:identifier" % (p, self.hashname), ident == self.hashname)
            ctx.check(oname(p, self.target + ".hasher", "ensures", "RFC-3414-A.2-localised-key"), interp.eq(out, want))
        return "returns"


class _Rep:
    def __init__(self, base, count):
        self.base, self.count = base, count


def units_emit(tier):
    us = [KeyDerivation("md5"), KeyDerivation("sha1")]
    levels = list(LEVELS)
    for lv in levels:
        for op in OPS:
            us.append(EmitV3(lv, op, 1, False))
    us.append(EmitV3("authPriv-sha1", "multiget", 2, True))
    us.append(EmitV3("authNoPriv-md5", "multiset", 2, True))
    us.append(EmitV3("noAuthNoPriv", "multiget", 1, True))
    us.append(EmitV3("authNoPriv-md5", "multiget", 1, False, second_user="authNoPriv-md5"))
    us.append(EmitV3("authPriv-md5", "multiset", 1, False, second_user="authPriv-md5"))
    us.append(EmitV3("authNoPriv-md5", "multiset", 1, False, second_user="authPriv-sha1"))
    us.append(EmitV3("authPriv-sha1", "multiget", 1, True, second_user="noAuthNoPriv"))
    us.append(EmitV3("authNoPriv-md5", "multiget", 1, False, reply="no-bindings"))
    us.append(EmitV3("authNoPriv-md5", "multiget", 1, False, reply="ill-typed-boots"))
    us.append(EmitV3("noAuthNoPriv", "multiget", 1, False, reply="ill-typed-time"))
    us.append(EmitV3("authNoPriv-sha1", "multiget", 1, False, reply="ill-typed-boots-timeticks"))
    us.append(EmitV3("authPriv-md5", "multiget", 1, False, interference=True))
    us.append(EmitV3("authPriv-sha1", "multiset", 1, True, interference=True))
    us.append(EmitV3("noAuthNoPriv", "bulkget", 1, False, interference=True))
    if tier == "thorough":
        for lv in levels:
            for op in OPS:
                us.append(EmitV3(lv, op, 2, True))
    return us


class Timeliness(V3Unit):
    """C12, histories: a later request on the same client while the agent's clock has advanced / the agent rebooted."""
    props = ("C12",)
    label = "proved"
    target = "puresnmp_plugins.mpm.v3:V3MPM.encode"
    functions = (target, "puresnmp_plugins.security.usm:UserSecurityModel.set_engine_timing",
                 "puresnmp_plugins.security.usm:UserSecurityModel.generate_request_message")
    name = "v3 second request after the agent's clock advanced (any amount) or the agent rebooted"

    def run(self, interp):
        ctx, rt = interp.ctx, self.rt
        sent = []
        tmo = get_cls(rt, interp, "puresnmp.exc:Timeout")
        creds = self.v3creds(interp, "authNoPriv-md5")
        E, B, Tm = ctx.fresh_bytes("agent_engine_id"), ctx.fresh_int("agent_boots"), ctx.fresh_int("agent_time")
        counter = self.xv.fresh(ctx, "counter")
        ctx.assume(lift_bool(rt.xtruth(counter.e)))
        FA = rfc.Forms("any", ctx)
        stats = Obj(get_cls(rt, interp, "x690.types:ObjectIdentifier"), {"pyvalue": USM_STATS_UNKNOWN_ENGINE, "_raw_bytes": b""})
        def sender(i, a, k):
            sent.append((a, k))
            if len(sent) == 1:
                # a conformant agent echoes the probe's message id (the most recent clock read)
                return rfc.v3_message(self.clock_vals[-1], 65507, 0, 3, rfc.usm_params(E, B, Tm, b"", b"", b"", FA),
                                      rfc.scoped_pdu(E, b"", rfc.pdu(rfc.REPORT, 0, 0, 0,
                                                                     [(SOid(rt.oid.lit(interp, stats)), WVal(counter))], FA), FA), FA)
            raise PyExc(rt.instantiate(i, tmo, ["stop"], {}))
        client = rt.instantiate(interp, get_cls(rt, interp, "puresnmp.api.raw:Client"), ["192.0.2.1", creds],
                                {"sender": Builtin("sender", sender)})
        oid = ctx.fresh_oid("oid")
        fn = get_func(rt, interp, "puresnmp.api.raw:Client.multiget")
        for _ in range(2):
            try:
                interp.call(BoundMethod(fn, client), [[oid]], {})
            except PyExc as pe:
                if not exc_is(pe.obj, tmo):
                    raise
        # environment step between the two requests: the agent's clock advances by any amount, or it reboots
        adv, rb = ctx.fresh_int("agent_clock_advance"), ctx.fresh_int("agent_reboots")
        ctx.assume(And(adv >= 0, rb >= 0))
        T = self.target
        ok = len(sent) == 3
        ctx.check(oname("C12", T, "ensures", "no-second-discovery-needed-and-one-datagram-per-request"), ok)
        if not ok:
            return "?"
        rid2 = self.clock_vals[2] if len(self.clock_vals) > 2 else SInt(z3.Int("no-clock-read"))
        user = SBytes(rt.f_str_ascii(creds.fields["username"].e))
        w = rt.wire
        hname = rt.str_lit("md5")
        F = rfc.Forms("x690")
        scoped = rfc.scoped_pdu(E, b"", rfc.pdu(rfc.GET, rid2, 0, 0, [(oid, None)], F), F)

        def message(authp):
            Fm = rfc.Forms("x690")
            return rfc.v3_message(rid2, 65507, 5, 3, rfc.usm_params(E, B, Tm, user, authp, b"", Fm), scoped, Fm)
        kul = rt.f_kul(hname, w.z(creds.fields["auth"][0]), E.e)
        digest = SBytes(rt.f_prefix(rt.f_hmac(hname, kul, w.z(message(b"\x00" * 12))), z3.IntVal(12)))
        carried = interp.eq(sent[2][0][1], message(digest))
        ctx.check(oname("C12", T, "ensures", "second-request-carries-engine-id-boots-time-of-the-engine"), carried)
        # RFC 3414 3.2 7b: the agent accepts iff boots match and the time differs by at most 150 s
        in_window = And(rb.eq(0), adv <= 150)
        ctx.check(oname("C12", T, "ensures", "timeliness(boots-and-time-within-the-agents-150s-window-when-sent)"),
                  And(carried, in_window), known=Or(adv > 150, rb > 0), finding="D10")
        return "emitted"


class ContextEngineHistory(V3Unit):
    """C12, histories: "uses the discovered engine id ... as DEFAULT context engine id" must hold for every request of the
    client's life, also after a request that named another context engine explicitly (seed C12-q: the message-processing
    model remembered the context engine of the previous exchange). Three requests on one client: default context, an explicit
    context (engine id e1, name n1: any octets, e1 not empty), default context again."""
    props = ("C12",)
    label = "proved"
    target = "puresnmp_plugins.mpm.v3:V3MPM.encode"
    functions = (target, "puresnmp.api.raw:Client.configure", "puresnmp.api.raw:Client._send")
    name = "v3 default context engine id after a request with an explicit context engine id"

    def run(self, interp):
        ctx, rt = interp.ctx, self.rt
        sent = []
        tmo = get_cls(rt, interp, "puresnmp.exc:Timeout")
        creds = self.v3creds(interp, "authNoPriv-md5")
        E, B, Tm = ctx.fresh_bytes("agent_engine_id"), ctx.fresh_int("agent_boots"), ctx.fresh_int("agent_time")
        counter = self.xv.fresh(ctx, "counter")
        ctx.assume(lift_bool(rt.xtruth(counter.e)))
        FA = rfc.Forms("any", ctx)
        stats = Obj(get_cls(rt, interp, "x690.types:ObjectIdentifier"), {"pyvalue": USM_STATS_UNKNOWN_ENGINE, "_raw_bytes": b""})

        def sender(i, a, k):
            sent.append((a, k))
            if len(sent) == 1:
                return rfc.v3_message(self.clock_vals[-1], 65507, 0, 3, rfc.usm_params(E, B, Tm, b"", b"", b"", FA),
                                      rfc.scoped_pdu(E, b"", rfc.pdu(rfc.REPORT, 0, 0, 0,
                                                                     [(SOid(rt.oid.lit(interp, stats)), WVal(counter))], FA), FA), FA)
            raise PyExc(rt.instantiate(i, tmo, ["stop"], {}))
        client = rt.instantiate(interp, get_cls(rt, interp, "puresnmp.api.raw:Client"), ["192.0.2.1", creds],
                                {"sender": Builtin("sender", sender)})
        oid = ctx.fresh_oid("oid")
        fn = get_func(rt, interp, "puresnmp.api.raw:Client.multiget")
        conf = get_func(rt, interp, "puresnmp.api.raw:Client.configure")
        ccls = get_cls(rt, interp, "puresnmp.api.raw:Context")
        e1, n1 = ctx.fresh_bytes("explicit_context_engine_id"), ctx.fresh_bytes("explicit_context_name")
        ctx.assume(Not(interp.eq(e1, b"")))
        contexts = [None, (e1, n1), (b"", b"")]
        for c in contexts:
            if c is not None:
                interp.call(BoundMethod(conf, client), [], {"context": rt.instantiate(interp, ccls, [c[0], c[1]], {})})
            try:
                interp.call(BoundMethod(fn, client), [[oid]], {})
            except PyExc as pe:
                if not exc_is(pe.obj, tmo):
                    raise
        T = self.target
        ok = len(sent) == 4
        ctx.check(oname("C12", T, "ensures", "one-discovery-and-one-datagram-per-request(three-requests)"), ok)
        if not ok:
            return "?"
        user = SBytes(rt.f_str_ascii(creds.fields["username"].e))
        w = rt.wire
        hname = rt.str_lit("md5")
        kul = rt.f_kul(hname, w.z(creds.fields["auth"][0]), E.e)
        clock_at = {1: 0, 2: 2, 3: 3}
        for k, (ce, cn, what) in {1: (E, b"", "first-request(default-context)-carries-the-discovered-engine-id"),
                                  2: (e1, n1, "explicit-context-engine-id-and-name-are-carried"),
                                  3: (E, b"", "default-context-after-an-explicit-one-carries-the-discovered-engine-id")}.items():
            rid = self.clock_vals[clock_at[k]] if len(self.clock_vals) > clock_at[k] else SInt(z3.Int("no-clock-read"))
            F = rfc.Forms("x690")
            scoped = rfc.scoped_pdu(ce, cn, rfc.pdu(rfc.GET, rid, 0, 0, [(oid, None)], F), F)

            def message(authp, scoped=scoped, rid=rid):
                Fm = rfc.Forms("x690")
                return rfc.v3_message(rid, 65507, 5, 3, rfc.usm_params(E, B, Tm, user, authp, b"", Fm), scoped, Fm)
            digest = SBytes(rt.f_prefix(rt.f_hmac(hname, kul, w.z(message(b"\x00" * 12))), z3.IntVal(12)))
            ctx.check(oname("C12", T, "ensures", what), interp.eq(sent[k][0][1], message(digest)))
        return "emitted"


def units_c12(tier):
    return [Timeliness(), ContextEngineHistory()]



class RecordingForms(rfc.Forms):
    """x690 forms; remembers the content of every TLV it builds (the lengths x690 re-encodes)"""

    def __init__(self):
        rfc.Forms.__init__(self, "x690")
        self.contents = []


def _tlv_rec(ident, content, F):
    t = rfc.tlv(ident, content, F)
    if isinstance(F, RecordingForms):
        F.contents.append(content)
    return t


class ReceiveV3(V3Unit):
    may_be_empty = True      # e.g. an encrypted payload for a user without privacy key is always refused
    """V3MPM.decode (Message.decode, USM process_incoming_message, verify_authentication, decrypt_message,
    validate_usm_message) on a well-formed SNMPv3 message with symbolic leaves."""
    label = "proved-shape-bounded(binding list of the enumerated length; every leaf symbolic)"
    target = "puresnmp_plugins.mpm.v3:V3MPM.decode"

    def __init__(self, level, encrypted, k, mode, pdu_tag=rfc.RESPONSE, after_discovery=False, padded=False):
        """mode: 'any' (arbitrary incoming message: C09/C06/C08/C11) or 'authentic-minimal' (C10: what a conformant
        peer produces for this user at this level, minimal BER); pdu_tag: a response or a Report; after_discovery: the
        message processor has completed a discovery (and sent a request) before, so it holds engine timing state"""
        self.level, self.encrypted, self.k, self.mode = level, encrypted, k, mode
        self.pdu_tag, self.after_discovery = pdu_tag, after_discovery
        self.padded = padded      # the peer padded the scoped PDU to the cipher's block size (RFC 3414 8.1.1.2): octets behind it
        self.functions = (self.target, "puresnmp.adt:Message.decode", "puresnmp.adt:Message.from_sequence",
                          "puresnmp.adt:V3Flags.decode", "puresnmp.adt:Message.__bytes__", "puresnmp.adt:ScopedPDU.decode",
                          "puresnmp_plugins.security.usm:UserSecurityModel.process_incoming_message",
                          "puresnmp_plugins.security.usm:verify_authentication", "puresnmp_plugins.security.usm:decrypt_message",
                          "puresnmp_plugins.security.usm:validate_usm_message", "puresnmp_plugins.security.usm:reset_digest",
                          "puresnmp_plugins.security.usm:USMSecurityParameters.decode",
                          "puresnmp_plugins.security.usm:USMSecurityParameters.from_snmp_type",
                          "puresnmp_plugins.auth.hashbase:for_incoming", "puresnmp_plugins.auth.hashbase:get_message_digest",
                          "puresnmp.util:localise_key", "puresnmp.pdu:PDU.decode_raw")
        hashname, priv = LEVELS[level]
        if mode == "authentic-minimal":
            self.props = ("C10", "C06") + (("C11",) if priv else ())
        elif mode == "authentic-minimal-error":
            self.props = ("C08",)
        elif mode == "any-error":
            self.props = ("C08", "C20") + (("C09",) if hashname else ()) + (("C11",) if priv and encrypted else ())
        else:
            self.props = ("C06", "C08", "C20") + (("C09",) if hashname else ()) + (("C11",) if priv and encrypted else ())
        self.name = "v3 %s incoming[%s %s, %d bindings, %s%s]" % (
            level, "encrypted" if encrypted else "plain", "Report" if pdu_tag == rfc.REPORT else "response", k, mode,
            (", after a discovery with other boots/time" if after_discovery else "") + (", plaintext padded by the peer" if padded else ""))

    def decrypt_model(self, interp, a):
        if self.padded:
            from pyvc.wire import normalise, WLit
            return normalise(WCat([self.plain_scoped, WLit(b"\x05\x00")]))
        return self.plain_scoped

    def run(self, interp):
        ctx, rt = interp.ctx, self.rt
        w = rt.wire
        creds = self.v3creds(interp, self.level)
        hashname, use_priv = LEVELS[self.level]
        minimal = self.mode.startswith("authentic-minimal")
        with_error = self.mode == "authentic-minimal-error"
        FA = rfc.Forms("min") if minimal else rfc.Forms("any", ctx)
        msgid, maxsize, flags = ctx.fresh_int("msg_id"), ctx.fresh_int("max_size"), ctx.fresh_int("msg_flags")
        ctx.assume(And(flags >= 0, flags < 256))
        E, B, Tm = ctx.fresh_bytes("msg_engine_id"), ctx.fresh_int("msg_boots"), ctx.fresh_int("msg_time")
        user, authp, privp = ctx.fresh_bytes("msg_user"), ctx.fresh_bytes("msg_auth_params"), ctx.fresh_bytes("msg_priv_params")
        ce, cn = ctx.fresh_bytes("ctx_engine"), ctx.fresh_bytes("ctx_name")
        rid, es, ei = ctx.fresh_int("rid"), ctx.fresh_int("error_status"), ctx.fresh_int("error_index")
        oids = [ctx.fresh_oid("resp_oid%d" % i) for i in range(self.k)]
        vals = [self.xv.fresh(ctx, "resp_val%d" % i) for i in range(self.k)]
        pdu_in = rfc.pdu(self.pdu_tag, rid, es, ei, [(o, WVal(v)) for o, v in zip(oids, vals)], FA)
        scoped_in = rfc.scoped_pdu(ce, cn, pdu_in, FA)
        self.plain_scoped = scoped_in
        hname = rt.str_lit(hashname) if hashname else None
        if self.encrypted:
            ct = ctx.fresh_bytes("ciphertext")
            payload_in = rfc.t_octets(ct, FA)
        else:
            payload_in = scoped_in
        own_user = SBytes(rt.f_str_ascii(creds.fields["username"].e))

        def incoming(ap, F):
            return rfc.v3_message(msgid, maxsize, flags, 3, rfc.usm_params(E, B, Tm, user, ap, privp, F), payload_in, F)
        if self.mode == "any":
            ctx.assume(es.eq(0))          # (agent error statuses: the 'any-error' units)
        elif self.mode == "any-error":
            ctx.assume(Not(es.eq(0)))
        raw = incoming(authp, FA)
        kul = rt.f_kul(hname, w.z(creds.fields["auth"][0]), E.e) if hashname else None
        if minimal:
            # what a conformant peer sends at the user's level: flags of the level, the user's name, digest over the
            # message exactly as sent (minimal BER) with the digest field zeroed
            want_flags = (2 if use_priv else 0) + (1 if hashname else 0)
            ctx.assume(And(flags.eq(want_flags), interp.eq(user, own_user), Not(es.eq(0)) if with_error else es.eq(0)))
            if use_priv != self.encrypted:
                return "n/a"
            if hashname:
                F0 = rfc.Forms("min")
                as_sent_zeroed = incoming(b"\x00" * 12, F0)
                ctx.assume(interp.eq(authp, SBytes(rt.f_prefix(rt.f_hmac(hname, kul, w.z(as_sent_zeroed)), z3.IntVal(12)))))
        rt.call_hooks["Opaque"] = self.x.h_opaque_call
        mk = get_func(rt, interp, "puresnmp.plugins.mpm:create")
        handler = Opaque("handler")
        if self.after_discovery:
            # an earlier exchange on this message processor: discovery (same engine, OTHER boots/time) and one request
            B0, T0 = ctx.fresh_int("discovered_boots"), ctx.fresh_int("discovered_time")
            cnt = self.xv.fresh(ctx, "counter")
            ctx.assume(lift_bool(rt.xtruth(cnt.e)))
            stats = Obj(get_cls(rt, interp, "x690.types:ObjectIdentifier"), {"pyvalue": USM_STATS_UNKNOWN_ENGINE, "_raw_bytes": b""})
            FD = rfc.Forms("min")

            def handler_fn(i, a, k):
                return rfc.v3_message(self.clock_vals[-1], 65507, 0, 3, rfc.usm_params(E, B0, T0, b"", b"", b"", FD),
                                      rfc.scoped_pdu(E, b"", rfc.pdu(rfc.REPORT, 0, 0, 0, [(SOid(rt.oid.lit(interp, stats)), WVal(cnt))], FD), FD), FD)
            handler = Builtin("transport_handler", handler_fn)
        mproc = interp.call(mk, [3, handler, PDict()], {})
        if self.after_discovery:
            req = Obj(get_cls(rt, interp, "puresnmp.pdu:GetRequest"),
                      {"pyvalue": Obj(get_cls(rt, interp, "puresnmp.pdu:PDUContent"),
                                      {"request_id": rid, "varbinds": [], "error_status": 0, "error_index": 0}), "_raw_bytes": b""})
            interp.call(rt.getattr(interp, mproc, "encode"), [rid, creds, b"", b"", req], {})
            self.priv_calls = []
        exc = pdu = content = None
        before = dict(mproc.fields)
        try:
            pdu = interp.call(rt.getattr(interp, mproc, "decode"), [raw, creds], {})
            content = rt.getattr(interp, pdu, "value")
        except PyExc as pe:
            exc = pe.obj
        T = self.target
        if "C20" in self.props:
            self.frame_c20(interp, mproc, before, T)
        USM = "puresnmp_plugins.security.usm:UserSecurityModel.process_incoming_message"
        P = self.props

        def chk(props, func, kind, label, cond, **kw):
            for p in props:
                if p in P:
                    ctx.check(oname(p, func, kind, label), cond, **kw)
        # the serialisation the client authenticates: outer TLVs re-encoded by x690, decoded objects keep their octets
        # (msgFlags: the three defined bits; the five reserved bits are not covered - and not used)
        FR = RecordingForms()

        def mac_input():
            sp = rfc.t_seq([_tlv_rec(rfc.OCTETS, E, FR), _tlv_rec(rfc.INT, WInt(B), FR), _tlv_rec(rfc.INT, WInt(Tm), FR),
                            _tlv_rec(rfc.OCTETS, user, FR), _tlv_rec(rfc.OCTETS, b"\x00" * 12, FR), _tlv_rec(rfc.OCTETS, privp, FR)], FR)
            FR.contents.append(sp.content)
            hdr = _tlv_rec(rfc.SEQ, WCat([_tlv_rec(rfc.INT, WInt(msgid), FR), _tlv_rec(rfc.INT, WInt(maxsize), FR),
                                          _tlv_rec(rfc.OCTETS, WByte(SInt(flags.e % 8)), FR), _tlv_rec(rfc.INT, WInt(3), FR)]), FR)
            if self.encrypted:
                pl = _tlv_rec(rfc.OCTETS, payload_in.content, FR)
            else:
                pl = _tlv_rec(rfc.SEQ, WCat([_tlv_rec(rfc.OCTETS, ce, FR), _tlv_rec(rfc.OCTETS, cn, FR),
                                             _tlv_rec(pdu_in.ident, pdu_in.content, FR)]), FR)
            return _tlv_rec(rfc.SEQ, WCat([_tlv_rec(rfc.INT, WInt(3), FR), hdr, _tlv_rec(rfc.OCTETS, sp, FR), pl]), FR)
        auth_bit = lift_bool((flags.e % 2) == 1)
        if minimal:
            # ---------------- C10: authentic minimal-BER responses are accepted and decoded
            lens127 = None
            if hashname:
                mi = mac_input()
                lens127 = Or(*[SInt(rt.f_blen(w.z(c))).eq(127) for c in FR.contents])
                n = z3.Int("n")
                rt.theory.add_once("x690.encode_length-is-minimal-except-127", lambda: z3.ForAll(
                    [n], z3.Implies(z3.And(n >= 0, n != 127), w.f_len_x690(n) == w.f_len_min(n))))
                rt.theory.note("x690.util.encode_length(n) is the minimal BER length for every n >= 0 except n == 127 "
                               "(verified from the x690 source by the EncodeLength unit; 127 is finding D9)")
            if with_error:
                # C08 for SNMPv3: the agent's error status in an AUTHENTIC response of the user's level surfaces as the
                # documented exception carrying that status (which class belongs to which status: the table units) - not as
                # data, and not folded into another error. (A TLV of content length 127 is finding D9, C10's: excluded here.)
                if lens127 is not None:
                    ctx.assume(Not(lens127))
                err = get_cls(rt, interp, "puresnmp.exc:ErrorResponse")
                ok = exc is not None and exc_is(exc, err)
                chk(("C08",), T, "raises", "an-authentic-response-with-an-error-status-surfaces-as-ErrorResponse-carrying-it",
                    ok and interp.eq(exc.fields.get("error_status"), es))
                return "raises" if exc is not None else "accepted"
            chk(("C10", "C06"), T, "ensures", "an-authentic-minimal-BER-response-of-the-users-level-is-accepted", exc is None,
                known=lens127, finding="D9")
            if use_priv and not (hashname and lens127 is not None and False):
                # C11: ... and the encrypted response round-trips (padding behind the scoped PDU is ignored, RFC 3414 8.1.1.2)
                chk(("C11",), T, "ensures", "an-authentic-encrypted-response-is-decrypted-and-accepted", exc is None or exc.cls.name == "AuthenticationError")
            if exc is None:
                vbs = content.fields.get("varbinds") if isinstance(content, Obj) else None
                chk(("C10", "C11", "C06"), T, "ensures", "and-decoded-to-the-bindings-sent",
                    isinstance(vbs, list) and len(vbs) == self.k and And(
                        *[And(interp.eq(vbs[i][0], oids[i]), interp.eq(vbs[i][1], vals[i])) for i in range(len(vbs))]))
            if use_priv:
                decs = [c for c in self.priv_calls if c[0] == "decrypt"]
                if exc is None:
                    ok = len(decs) == 1
                    chk(("C11",), "puresnmp_plugins.security.usm:decrypt_message", "ensures", "plug-in-decrypts-exactly-once", ok)
                    if ok:
                        key, eid, boots, etime, salt, data = decs[0][1]
                        kpriv = rt.f_kul(hname, w.z(creds.fields["priv"][0]), E.e)
                        chk(("C11",), "puresnmp_plugins.security.usm:decrypt_message", "ensures",
                            "decrypts-with-the-key-localised-to-the-messages-engine-and-the-parameters-found-in-the-message",
                            And(interp.eq(key, SBytes(kpriv)), interp.eq(eid, E), interp.eq(boots, B), interp.eq(etime, Tm),
                                interp.eq(salt, privp), interp.eq(data, payload_in.content)))
            return "accepted" if exc is None else "rejected:" + exc.cls.name
        # ---------------- arbitrary incoming message
        err = get_cls(rt, interp, "puresnmp.exc:ErrorResponse")
        if exc is None:
            if hashname:
                mi = mac_input()
                valid = interp.eq(authp, SBytes(rt.f_prefix(rt.f_hmac(hname, kul, w.z(mi)), z3.IntVal(12))))
                chk(("C09",), USM, "ensures", "normal-return-implies-authenticated(auth-flag-set,digest-valid-over-the-whole-message,own-user)",
                    And(auth_bit, valid, interp.eq(user, own_user)))
            if use_priv and self.encrypted:
                decs = [c for c in self.priv_calls if c[0] == "decrypt"]
                ok = len(decs) == 1
                chk(("C11",), "puresnmp_plugins.security.usm:decrypt_message", "ensures", "plug-in-decrypts-exactly-once", ok)
                if ok:
                    key, eid, boots, etime, salt, data = decs[0][1]
                    kpriv = rt.f_kul(hname, w.z(creds.fields["priv"][0]), E.e)
                    chk(("C11",), "puresnmp_plugins.security.usm:decrypt_message", "ensures",
                        "decrypts-with-the-key-localised-to-the-messages-engine-and-the-parameters-found-in-the-message",
                        And(interp.eq(key, SBytes(kpriv)), interp.eq(eid, E), interp.eq(boots, B), interp.eq(etime, Tm),
                            interp.eq(salt, privp), interp.eq(data, payload_in.content)))
            chk(("C08",), T, "ensures", "a-non-zero-error-status-never-returns-data", es.eq(0))
            f = content.fields if isinstance(content, Obj) else {}
            vbs = f.get("varbinds")
            ok = isinstance(vbs, list) and len(vbs) == self.k
            chk(("C06", "C09"), T, "ensures", "returned-PDU-has-the-request-id-error-fields-and-bindings-sent",
                ok and And(interp.eq(f.get("request_id"), rid), interp.eq(f.get("error_index"), ei),
                           *[And(interp.eq(vbs[i][0], oids[i]), interp.eq(vbs[i][1], vals[i])) for i in range(self.k)]))
            return "returns"
        if exc_is(exc, err):
            chk(("C08",), T, "raises", "ErrorResponse-only-for-a-non-zero-status-and-carrying-it",
                And(Not(es.eq(0)), interp.eq(exc.fields.get("error_status"), es)))
            if hashname:
                # an agent error status is CONTENT: acting upon it (a NoSuchOID ends a walk silently) needs an authentic message
                mi = mac_input()
                valid = interp.eq(authp, SBytes(rt.f_prefix(rt.f_hmac(hname, kul, w.z(mi)), z3.IntVal(12))))
                chk(("C09",), USM, "raises", "an-agent-error-status-surfaces-only-from-an-authenticated-message",
                    And(auth_bit, valid, interp.eq(user, own_user)))
            return "raises:ErrorResponse"
        faulty_cls = get_cls(rt, interp, "puresnmp.exc:FaultySNMPImplementation")
        if hashname and exc_is(exc, faulty_cls):
            # the walk loop takes FaultySNMPImplementation (like noSuchName) for the agent's verdict and, in lenient mode, ends
            # normally: raised on behalf of an unauthenticated message it would let a forged datagram truncate a walk silently
            mi = mac_input()
            valid = interp.eq(authp, SBytes(rt.f_prefix(rt.f_hmac(hname, kul, w.z(mi)), z3.IntVal(12))))
            chk(("C09",), USM, "raises", "an-exception-the-walk-loop-swallows-comes-only-from-an-authenticated-message",
                And(auth_bit, valid, interp.eq(user, own_user)))
        # any other exception refuses the message; a status must not be swallowed into another error once the
        # message got through authentication and decryption
        # (the plug-in model decrypts to a well-formed scoped PDU, so a DecryptionError here is not a decryption problem)
        chk(("C08", "C11"), T, "raises", "an-agent-error-is-not-turned-into-a-DecryptionError", exc.cls.name != "DecryptionError")
        return "raises:" + exc.cls.name


class ReencodeV3(V3Unit):
    """C06, second sentence: decoding a scoped PDU, a security-parameter block or a whole SNMPv3 message (every definite
    length form, all leaves symbolic) yields the fields sent, and re-encoding the decoded object yields an encoding of
    the same content (structures the client builds anew get x690's length octets, decoded leaves keep their octets)."""
    props = ("C06",)
    label = "proved-shape-bounded(binding list of the enumerated length; every leaf symbolic; any definite length forms)"

    def __init__(self, what, k=1, encrypted=False):
        self.what, self.k, self.encrypted = what, k, encrypted
        self.target = {"scoped-pdu": "puresnmp.adt:ScopedPDU.decode", "security-parameters":
                       "puresnmp_plugins.security.usm:USMSecurityParameters.decode", "message": "puresnmp.adt:Message.decode"}[what]
        self.functions = (self.target, "puresnmp.adt:ScopedPDU.__bytes__", "puresnmp.adt:ScopedPDU.as_snmp_type",
                          "puresnmp_plugins.security.usm:USMSecurityParameters.from_snmp_type",
                          "puresnmp_plugins.security.usm:USMSecurityParameters.as_snmp_type", "puresnmp.adt:Message.from_sequence",
                          "puresnmp.adt:Message.__bytes__", "puresnmp.adt:HeaderData.as_snmp_type", "puresnmp.adt:V3Flags.decode",
                          "puresnmp.adt:V3Flags.__bytes__", "puresnmp.pdu:PDU.decode_raw")
        self.name = "v3 decode + re-encode[%s%s, %d bindings]" % (what, ", encrypted payload" if encrypted else "", k)

    def run(self, interp):
        ctx, rt = interp.ctx, self.rt
        w = rt.wire
        FA = rfc.Forms("any", ctx)
        FX = rfc.Forms("x690")
        T = self.target
        rid, es, ei = ctx.fresh_int("rid"), ctx.fresh_int("error_status"), ctx.fresh_int("error_index")
        oids = [ctx.fresh_oid("oid%d" % i) for i in range(self.k)]
        vals = [self.xv.fresh(ctx, "val%d" % i) for i in range(self.k)]
        ce, cn = ctx.fresh_bytes("ctx_engine"), ctx.fresh_bytes("ctx_name")
        ctx.assume(es.eq(0))          # (agent error statuses are C08's)
        pdu_in = rfc.pdu(rfc.RESPONSE, rid, es, ei, [(o, WVal(v)) for o, v in zip(oids, vals)], FA)
        scoped_in = rfc.scoped_pdu(ce, cn, pdu_in, FA)
        E, B, Tm = ctx.fresh_bytes("engine_id"), ctx.fresh_int("boots"), ctx.fresh_int("time")
        user, authp, privp = ctx.fresh_bytes("user"), ctx.fresh_bytes("auth_params"), ctx.fresh_bytes("priv_params")
        sp_in = rfc.usm_params(E, B, Tm, user, authp, privp, FA)

        def call(fn_spec, *args):
            try:
                return interp.call(get_func(rt, interp, fn_spec), list(args), {}), None
            except PyExc as pe:
                return None, pe.obj

        def same(a, b):
            return interp.eq(a, b)
        if self.what == "scoped-pdu":
            obj, exc = call(T, scoped_in)
            ctx.check(oname("C06", T, "ensures", "a-well-formed-scoped-PDU-is-decoded"), exc is None)
            if exc is not None:
                return "raises"
            f = obj.fields
            ctx.check(oname("C06", T, "ensures", "context-engine-id-and-context-name-as-sent"),
                      And(same(rt.getattr(interp, f["context_engine_id"], "value"), ce), same(rt.getattr(interp, f["context_name"], "value"), cn)))
            content = rt.getattr(interp, f["data"], "value")
            vbs = content.fields.get("varbinds")
            ok = isinstance(vbs, list) and len(vbs) == self.k
            ctx.check(oname("C06", T, "ensures", "pdu-fields-and-bindings-as-sent"),
                      ok and And(same(content.fields.get("request_id"), rid),
                                 *[And(same(vbs[i][0], oids[i]), same(vbs[i][1], vals[i])) for i in range(self.k)]))
            out = interp.call(rt.getattr(interp, obj, "__bytes__"), [], {})
            want = rfc.tlv(rfc.SEQ, WCat([rfc.t_octets(ce, FX), rfc.t_octets(cn, FX), rfc.tlv(pdu_in.ident, pdu_in.content, FX)]), FX)
            ctx.check(oname("C06", "puresnmp.adt:ScopedPDU.__bytes__", "ensures", "re-encoding-keeps-the-content"),
                      lift_bool(w.z(out) == w.z(want)))
            return "returns"
        if self.what == "security-parameters":
            obj, exc = call(T, sp_in)
            ctx.check(oname("C06", T, "ensures", "a-well-formed-block-is-decoded"), exc is None)
            if exc is not None:
                return "raises"
            f = obj.fields
            ctx.check(oname("C06", T, "ensures", "six-fields-as-sent"),
                      And(same(f["authoritative_engine_id"], E), same(f["authoritative_engine_boots"], B),
                          same(f["authoritative_engine_time"], Tm), same(f["user_name"], user), same(f["auth_params"], authp),
                          same(f["priv_params"], privp)))
            out = interp.call(rt.getattr(interp, obj, "__bytes__"), [], {})
            ctx.check(oname("C06", "puresnmp_plugins.security.usm:USMSecurityParameters.__bytes__", "ensures", "re-encoding-keeps-the-content"),
                      lift_bool(w.z(out) == w.z(rfc.usm_params(E, B, Tm, user, authp, privp, FX))))
            return "returns"
        # whole message
        msgid, maxsize, flags = ctx.fresh_int("msg_id"), ctx.fresh_int("max_size"), ctx.fresh_int("msg_flags")
        ctx.assume(And(flags >= 0, flags < 8))
        # well-formed: the privacy flag says whether the payload is the encrypted octet string (RFC 3412 6.4)
        ctx.assume(lift_bool((((flags.e / 2) % 2) == 1) == z3.BoolVal(self.encrypted)))
        if self.encrypted:
            ct = ctx.fresh_bytes("ciphertext")
            payload_in = rfc.t_octets(ct, FA)
        else:
            payload_in = scoped_in
        raw = rfc.v3_message(msgid, maxsize, flags, 3, sp_in, payload_in, FA)
        obj, exc = call(T, raw)
        ctx.check(oname("C06", T, "ensures", "a-well-formed-message-is-decoded"), exc is None)
        if exc is not None:
            return "raises"
        ctx.check(oname("C06", T, "ensures", "plain-or-encrypted-class-by-the-payload"),
                  obj.cls.name == ("EncryptedMessage" if self.encrypted else "PlainMessage"))
        hdr = obj.fields["header"].fields
        fl = hdr["flags"].fields
        ctx.check(oname("C06", T, "ensures", "header-fields-as-sent"),
                  And(same(hdr["message_id"], msgid), same(hdr["message_max_size"], maxsize), same(hdr["security_model"], 3),
                      interp.truth_sym(fl["auth"]) == lift_bool((flags.e % 2) == 1) if False else True))
        ctx.check(oname("C06", T, "ensures", "flags-as-sent"),
                  And(_iff(interp, fl["auth"], lift_bool((flags.e % 2) == 1)), _iff(interp, fl["priv"], lift_bool(((flags.e / 2) % 2) == 1)),
                      _iff(interp, fl["reportable"], lift_bool(((flags.e / 4) % 2) == 1))))
        ctx.check(oname("C06", T, "ensures", "security-parameters-octets-as-sent"), same(obj.fields["security_parameters"], sp_in))
        out = interp.call(rt.getattr(interp, obj, "__bytes__"), [], {})
        if self.encrypted:
            pl = rfc.t_octets(ct, FX)
        else:
            pl = rfc.tlv(rfc.SEQ, WCat([rfc.t_octets(ce, FX), rfc.t_octets(cn, FX), rfc.tlv(pdu_in.ident, pdu_in.content, FX)]), FX)
        want = rfc.tlv(rfc.SEQ, WCat([rfc.t_int(3, FX), rfc.t_seq([rfc.t_int(msgid, FX), rfc.t_int(maxsize, FX),
                                                                   rfc.t_octets(WByte(flags), FX), rfc.t_int(3, FX)], FX),
                                      rfc.t_octets(sp_in, FX), pl]), FX)
        ctx.check(oname("C06", "puresnmp.adt:Message.__bytes__", "ensures", "re-encoding-keeps-the-content"),
                  lift_bool(w.z(out) == w.z(want)))
        return "returns"


def _iff(interp, a, b):
    a = interp.truth_sym(a)
    return And(Or(Not(a), b), Or(Not(b), a))


def units_reencode(tier):
    ks = (0, 1, 2) if tier == "quick" else (0, 1, 2, 3)
    out = [ReencodeV3("security-parameters")]
    for k in ks:
        out.append(ReencodeV3("scoped-pdu", k))
    out += [ReencodeV3("message", 1), ReencodeV3("message", 1, encrypted=True), ReencodeV3("message", 2)]
    return out


class EncodeLength(VU):
    """x690.util.encode_length verified from the site-packages source (width-bounded unrolling, n < 2^32)."""
    props = ("C10",)
    label = "proved(for 0 <= n < 2^32, loop unrolled to the operand width)"
    target = "x690.util:encode_length"
    functions = (target,)
    name = "x690.util.encode_length[0 <= n < 2^32]"

    def setup(self, rt, interp):
        self.rt = rt
        wire.install(rt)

    def run(self, interp):
        ctx, rt = interp.ctx, self.rt
        n = ctx.fresh_int("n")
        ctx.assume(And(n >= 0, n < 2 ** 32))
        fn = get_func(rt, interp, self.target)
        out = interp.call(fn, [n], {})
        parts = wire.parts_of(out) if wire.is_wire(out) else None
        octs = []
        ok = parts is not None
        if ok:
            for p in parts:
                if isinstance(p, WByte):
                    octs.append(p.v)
                elif isinstance(p, WLit):
                    octs.extend(p.b)
                else:
                    ok = False
        ctx.check(oname("C10", self.target, "ensures", "result-is-a-sequence-of-octets"), ok)
        if not ok:
            return "?"
        # X.690 8.1.3: minimal definite form
        k = len(octs)
        conds = []
        short = And(n < 128, k == 1 and interp.eq(octs[0], n))
        kk = k - 1
        if kk >= 1:
            body = [interp.eq(octs[1 + i], SInt((n.e / (256 ** (kk - 1 - i))) % 256)) for i in range(kk)]
            long_ = And(n >= 128, interp.eq(octs[0], 0x80 + kk), n >= 256 ** (kk - 1), n < 256 ** kk, *body)
        else:
            long_ = False
        ctx.check(oname("C10", self.target, "ensures", "minimal-length-octets"), Or(short, long_), known=n.eq(127), finding="D9")
        # and in any case a valid definite form for n (what C05 needs)
        if kk >= 1:
            valid_long = And(interp.eq(octs[0], 0x80 + kk), *[interp.eq(octs[1 + i], SInt((n.e / (256 ** (kk - 1 - i))) % 256)) for i in range(kk)])
        else:
            valid_long = False
        ctx.check(oname("C10", self.target, "ensures", "valid-definite-length-octets"), Or(short, And(valid_long, n < 256 ** max(kk, 1))))
        return "returns"


def units_rx(tier):
    us = [EncodeLength()]
    for lv in LEVELS:
        hashname, priv = LEVELS[lv]
        for enc in (False, True):
            us.append(ReceiveV3(lv, enc, 1, "any"))
        us.append(ReceiveV3(lv, priv, 1, "authentic-minimal"))
        us.append(ReceiveV3(lv, priv, 1, "authentic-minimal-error"))
    us.append(ReceiveV3("authPriv-md5", True, 2, "any"))
    us.append(ReceiveV3("authPriv-sha1", True, 1, "authentic-minimal", padded=True))
    us.append(ReceiveV3("authNoPriv-sha1", False, 0, "any"))
    us.append(ReceiveV3("noAuthNoPriv", False, 1, "any-error"))
    us.append(ReceiveV3("authNoPriv-md5", False, 1, "any-error"))
    us.append(ReceiveV3("authPriv-sha1", True, 1, "any-error"))
    us.append(ReceiveV3("authPriv-md5", False, 0, "any-error"))
    # Reports (the only content a client may act upon without authentication - and only as an error)
    for lv in ("authNoPriv-md5", "authPriv-sha1", "noAuthNoPriv"):
        us.append(ReceiveV3(lv, False, 1, "any", pdu_tag=rfc.REPORT))
    us.append(ReceiveV3("authPriv-md5", True, 1, "any", pdu_tag=rfc.REPORT))
    # responses arriving at a message processor that already holds discovery state with other boots/time
    us.append(ReceiveV3("authPriv-md5", True, 1, "authentic-minimal", after_discovery=True))
    us.append(ReceiveV3("authPriv-sha1", True, 1, "any", after_discovery=True))
    return us
