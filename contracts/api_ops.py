"""
Contracts of the one-shot operations of ``puresnmp.api.raw.Client`` (C04, C07; reused by C14).

Postconditions are transcribed from the property statements:
  * the PDU handed to ``_send`` is the intended request (class, id, zero error fields or the
    non-repeaters / max-repetitions given, the caller's OIDs in order bound to NULL or to the
    caller's typed values);
  * the result is, position by position, what the environment answered;
  * binding-count mismatches are refused with SnmpError, missing objects with NoSuchOID.
The environment answers with ARBITRARY bindings (any OIDs, any value classes, any count in the
enumerated shapes), which covers every conformant and every faulty agent.
"""
import z3

from pyvc import core
from pyvc.core import And, Or, Not, Implies, lift_bool, Undecided, SInt
from pyvc.objects import Obj, NT, PyExc, PDict
from .common import (ApiUnit, SendSeam, oname, get_cls, bare_client, varbind, is_null_obj, pdu_request_id,
                     pdu_varbinds, exc_is)

PROPS = ("C04", "C07", "C14")


LARGE_QUICK, LARGE_THOROUGH, LARGE_GETNEXT = 70, 300, 12


class OpUnit(ApiUnit):
    props = PROPS
    k = 1          # number of requested OIDs
    kr = 1         # number of response bindings
    label = "proved-shape-bounded(request and response lists of the enumerated lengths; OIDs, values and ids symbolic)"

    def fresh_response(self, interp, n):
        out = []
        for j in range(n):
            o = interp.ctx.fresh_oid("resp_oid%d" % j)
            v = self.xv.fresh(interp.ctx, "resp_val%d" % j)
            out.append(varbind(self.rt, interp, o, v))
        if getattr(self, "distinct_response", False):
            # LARGE shapes: the answer's OIDs are pairwise distinct from the start (otherwise every insertion into a dict keyed
            # by OID forks on every earlier key)
            for i in range(n):
                for j in range(i + 1, n):
                    interp.ctx.assume(Not(interp.eq(out[i][0], out[j][0])))
        return out

    def fresh_oids(self, interp, n, name="oid%d"):
        oids = [interp.ctx.fresh_oid(name % i) for i in range(n)]
        if getattr(self, "distinct_response", False):
            # LARGE shapes: pairwise distinct requested OIDs as well (code that keys a dictionary by them forks on every pair
            # otherwise; repeated OIDs are covered by the small shapes)
            for i in range(n):
                for j in range(i + 1, n):
                    interp.ctx.assume(Not(interp.eq(oids[i], oids[j])))
        return oids

    def check_common_request(self, interp, seam, cls_name, oids, values=None):
        """The single PDU that reached the seam is the intended request."""
        ctx = interp.ctx
        P = lambda lab: [oname(p, self.target, "ensures", lab) for p in ("C04",)]
        ok_count = len(seam.sent) == 1
        for n in P("exactly-one-request"):
            ctx.check(n, ok_count)
        if not ok_count:
            return
        pdu, rid = seam.sent[0]
        for n in P("request-class"):
            ctx.check(n, pdu.cls.name == cls_name)
        vbs = pdu_varbinds(interp, pdu)
        ok_len = isinstance(vbs, list) and len(vbs) == len(oids)
        for n in P("request-bindings-count"):
            ctx.check(n, ok_len)
        if ok_len:
            conds = []
            for i, vb in enumerate(vbs):
                conds.append(interp.eq(vb[0], oids[i]))
                if values is None:
                    conds.append(is_null_obj(vb[1]))
                else:
                    conds.append(vb[1] is values[i])
            for n in P("request-bindings-in-order"):
                ctx.check(n, And(*conds))
        if pdu.cls.name != "BulkGetRequest":
            content = pdu.fields.get("pyvalue")
            es = content.fields.get("error_status") if isinstance(content, Obj) else None
            ei = content.fields.get("error_index") if isinstance(content, Obj) else None
            for n in P("request-error-fields-zero"):
                ctx.check(n, And(interp.eq(es, 0), interp.eq(ei, 0)))

    def expect_exception(self, interp, exc, cls_spec, label):
        cls = get_cls(self.rt, interp, cls_spec)
        interp.ctx.check(oname("C04", self.target, "raises", label), exc is not None and exc_is(exc, cls))

    def run_call(self, interp, *args, **kwargs):
        client = bare_client(self.rt, interp)
        try:
            return self.call_target(interp, client, *args, **kwargs), None
        except PyExc as pe:
            return None, pe.obj


class MultiGet(OpUnit):
    target = "puresnmp.api.raw:Client.multiget"
    functions = ("puresnmp.api.raw:Client.multiget",)

    def __init__(self, k, kr):
        self.k, self.kr = k, kr
        self.name = "Client.multiget[k=%d,resp=%d]" % (k, kr)

    def run(self, interp):
        ctx = interp.ctx
        seam = SendSeam(self, lambda i, pdu, n: self.fresh_response(i, self.kr))
        seam.install(self.rt, interp)
        oids = self.fresh_oids(interp, self.k)
        result, exc = self.run_call(interp, list(oids))
        self.check_common_request(interp, seam, "GetRequest", oids)
        if self.kr != self.k:
            self.expect_exception(interp, exc, "puresnmp.exc:SnmpError", "count-mismatch-refused")
            return "raises"
        ctx.check(oname("C04", self.target, "ensures", "accepts-matching-count"), exc is None)
        if exc is None:
            resp = seam.responses[0]
            ok = isinstance(result, list) and len(result) == self.k
            ctx.check(oname("C04", self.target, "ensures", "result-length"), ok)
            if ok:
                ctx.check(oname("C04", self.target, "ensures", "positional-values"),
                          And(*[interp.eq(result[i], resp[i][1]) for i in range(self.k)]))
        return "returns" if exc is None else "raises"


class Get(OpUnit):
    target = "puresnmp.api.raw:Client.get"
    functions = ("puresnmp.api.raw:Client.get", "puresnmp.api.raw:Client.multiget")

    def __init__(self, kr):
        self.k, self.kr = 1, kr
        self.name = "Client.get[resp=%d]" % kr

    def run(self, interp):
        ctx = interp.ctx
        seam = SendSeam(self, lambda i, pdu, n: self.fresh_response(i, self.kr))
        seam.install(self.rt, interp)
        oid = ctx.fresh_oid("oid")
        result, exc = self.run_call(interp, oid)
        self.check_common_request(interp, seam, "GetRequest", [oid])
        if self.kr != 1:
            self.expect_exception(interp, exc, "puresnmp.exc:SnmpError", "count-mismatch-refused")
            return "raises"
        v = seam.responses[0][0][1]
        nso = get_cls(self.rt, interp, "puresnmp.pdu:NoSuchObject")
        nsi = get_cls(self.rt, interp, "puresnmp.pdu:NoSuchInstance")
        missing = Or(self.xv.isinstance(v, nso), self.xv.isinstance(v, nsi))
        nsoid = get_cls(self.rt, interp, "puresnmp.exc:NoSuchOID")
        if exc is not None:
            ctx.check(oname("C04", self.target, "raises", "only-NoSuchOID-and-only-for-a-missing-object"),
                      And(exc_is(exc, nsoid), missing))
            if exc_is(exc, nsoid):
                ctx.check(oname("C04", self.target, "raises", "NoSuchOID-names-the-requested-oid"),
                          interp.eq(exc.fields.get("offending_oid"), oid))
            return "raises"
        ctx.check(oname("C04", self.target, "ensures", "no-placeholder-returned"), Not(missing))
        ctx.check(oname("C04", self.target, "ensures", "value-is-the-agents"), interp.eq(result, v))
        return "returns"


class MultiGetNext(OpUnit):
    target = "puresnmp.api.raw:Client.multigetnext"
    functions = ("puresnmp.api.raw:Client.multigetnext",)

    def __init__(self, k, kr):
        self.k, self.kr = k, kr
        self.name = "Client.multigetnext[k=%d,resp=%d]" % (k, kr)

    def run(self, interp):
        ctx = interp.ctx
        seam = SendSeam(self, lambda i, pdu, n: self.fresh_response(i, self.kr))
        seam.install(self.rt, interp)
        oids = [ctx.fresh_oid("oid%d" % i) for i in range(self.k)]
        result, exc = self.run_call(interp, list(oids))
        self.check_common_request(interp, seam, "GetNextRequest", oids)
        if self.kr != self.k:
            self.expect_exception(interp, exc, "puresnmp.exc:SnmpError", "count-mismatch-refused")
            return "raises"
        resp = seam.responses[0]
        eom = get_cls(self.rt, interp, "puresnmp.pdu:EndOfMibView")
        ends = [self.xv.isinstance(vb[1], eom) for vb in resp]
        # D1: an endOfMibView answer followed by a live answer
        k_d1 = Or(*[And(ends[i], Not(ends[j])) for i in range(self.k) for j in range(i + 1, self.k)])
        faulty = get_cls(self.rt, interp, "puresnmp.exc:FaultySNMPImplementation")
        # the documented refusal: some live answer does not advance beyond the request
        not_adv = Or(*[And(Not(ends[i]), Not(self.rt.oid.lt_sym(interp, oids[i], resp[i][0]))) for i in range(self.k)])
        if exc is not None:
            ctx.check(oname("C04", self.target, "raises", "only-FaultySNMPImplementation-for-a-non-successor"),
                      And(exc_is(exc, faulty), not_adv), known=k_d1, finding="D1")
            return "raises"
        ok = isinstance(result, list)
        ctx.check(oname("C04", self.target, "ensures", "result-is-a-list"), ok)
        if not ok:
            return "returns"
        ctx.check(oname("C04", self.target, "ensures", "non-successor-refused"), Not(not_adv), known=k_d1, finding="D1")
        # every live position is answered at that position (positions are what walks regroup by)
        conds = []
        for i in range(self.k):
            if i < len(result):
                here = And(interp.eq(result[i][0], resp[i][0]), interp.eq(result[i][1], resp[i][1]))
            else:
                here = False
            conds.append(Implies(Not(ends[i]), here))
        ctx.check(oname("C04", self.target, "ensures", "every-live-position-answered-in-place"), And(*conds),
                  known=k_d1, finding="D1")
        # nothing invented: each returned binding is a live binding of the response
        inv = []
        for r in result:
            inv.append(Or(*[And(Not(ends[i]), interp.eq(r[0], resp[i][0]), interp.eq(r[1], resp[i][1]))
                            for i in range(self.k)]))
        ctx.check(oname("C04", self.target, "ensures", "nothing-invented"), And(*inv))
        # never mis-attributed: the binding returned at position i is the response's binding at position i. This also
        # holds in the situations of finding D1 (there the list is cut short, never shifted), so it carries no known pattern
        ctx.check(oname("C04", self.target, "ensures", "position-i-of-the-result-is-position-i-of-the-response(no-shift)"),
                  And(len(result) <= self.k,
                      *[And(interp.eq(r[0], resp[i][0]), interp.eq(r[1], resp[i][1])) for i, r in enumerate(result[:self.k])]))
        return "returns"


class GetNext(OpUnit):
    target = "puresnmp.api.raw:Client.getnext"
    functions = ("puresnmp.api.raw:Client.getnext", "puresnmp.api.raw:Client.multigetnext")

    def __init__(self, kr):
        self.k, self.kr = 1, kr
        self.name = "Client.getnext[resp=%d]" % kr

    def run(self, interp):
        ctx = interp.ctx
        seam = SendSeam(self, lambda i, pdu, n: self.fresh_response(i, self.kr))
        seam.install(self.rt, interp)
        oid = ctx.fresh_oid("oid")
        result, exc = self.run_call(interp, oid)
        self.check_common_request(interp, seam, "GetNextRequest", [oid])
        if self.kr != 1:
            self.expect_exception(interp, exc, "puresnmp.exc:SnmpError", "count-mismatch-refused")
            return "raises"
        ro, rv = seam.responses[0][0]
        eom = get_cls(self.rt, interp, "puresnmp.pdu:EndOfMibView")
        end = self.xv.isinstance(rv, eom)
        adv = self.rt.oid.lt_sym(interp, oid, ro)
        nsoid = get_cls(self.rt, interp, "puresnmp.exc:NoSuchOID")
        faulty = get_cls(self.rt, interp, "puresnmp.exc:FaultySNMPImplementation")
        if exc is not None:
            documented = exc_is(exc, nsoid) or exc_is(exc, faulty)
            ctx.check(oname("C04", self.target, "raises", "documented-exception-only(no-IndexError)"), documented)
            if exc_is(exc, nsoid):
                ctx.check(oname("C04", self.target, "raises", "NoSuchOID-only-at-end-of-view"), end)
            elif exc_is(exc, faulty):
                ctx.check(oname("C04", self.target, "raises", "Faulty-only-for-non-successor"), And(Not(end), Not(adv)))
            return "raises"
        ctx.check(oname("C04", self.target, "ensures", "missing-successor-raises"), Not(end))
        ok = isinstance(result, NT) and len(result) == 2
        ctx.check(oname("C04", self.target, "ensures", "result-is-a-varbind"), ok)
        if ok:
            ctx.check(oname("C04", self.target, "ensures", "successor-is-the-agents"),
                      And(interp.eq(result[0], ro), interp.eq(result[1], rv), adv))
        return "returns"


class MultiSet(OpUnit):
    target = "puresnmp.api.raw:Client.multiset"
    functions = ("puresnmp.api.raw:Client.multiset",)

    def __init__(self, k, kr, untyped=None, dup_resp=False):
        self.k, self.kr, self.untyped, self.dup_resp = k, kr, untyped, dup_resp
        if untyped is not None:
            self.props = ("C04",)      # nothing is sent: no obligation at the seam
        self.name = "Client.multiset[k=%d,resp=%d%s%s]" % (k, kr, ",untyped@%d" % untyped if untyped is not None else "",
                                                           ",resp-oids-may-repeat" if dup_resp else "")

    def run(self, interp):
        ctx = interp.ctx
        seam = SendSeam(self, lambda i, pdu, n: self.fresh_response(i, self.kr))
        seam.install(self.rt, interp)
        oids = [ctx.fresh_oid("oid%d" % i) for i in range(self.k)]
        # keys of a dict are pairwise distinct
        for i in range(self.k):
            for j in range(i + 1, self.k):
                ctx.assume(Not(interp.eq(oids[i], oids[j])))
        int_cls = get_cls(self.rt, interp, "x690.types:Integer")
        values = []
        for i in range(self.k):
            if self.untyped == i:
                values.append(ctx.fresh_int("plain_python_value"))
            else:
                values.append(Obj(int_cls, {"pyvalue": ctx.fresh_int("set_val%d" % i), "_raw_bytes": b""}))
        mapping = PDict(list(zip(oids, values)))
        result, exc = self.run_call(interp, mapping)
        if self.untyped is not None:
            te = self.rt.builtin_class("TypeError")
            ctx.check(oname("C04", self.target, "raises", "untyped-value-refused-with-TypeError"),
                      exc is not None and exc_is(exc, te))
            ctx.check(oname("C04", self.target, "raises", "nothing-sent-for-untyped-value"), len(seam.sent) == 0)
            return "raises"
        self.check_common_request(interp, seam, "SetRequest", oids, values)
        resp = seam.responses[0] if seam.responses else []
        distinct = And(*[Not(interp.eq(resp[i][0], resp[j][0])) for i in range(len(resp)) for j in range(i + 1, len(resp))])
        if not self.dup_resp:
            ctx.assume(distinct)
        if self.kr != self.k:
            self.expect_exception(interp, exc, "puresnmp.exc:SnmpError", "count-mismatch-refused")
            return "raises"
        if exc is not None:
            snmp = get_cls(self.rt, interp, "puresnmp.exc:SnmpError")
            ctx.check(oname("C04", self.target, "raises", "only-SnmpError-and-only-for-repeated-oids"),
                      And(exc_is(exc, snmp), Not(distinct)))
            return "raises"
        ok = isinstance(result, PDict)
        ctx.check(oname("C04", self.target, "ensures", "result-is-a-dict"), ok)
        if ok:
            conds = [len(result.pairs) == self.k]
            for (o, v) in resp:
                conds.append(Or(*[And(interp.eq(o, ko), interp.eq(v, kv)) for ko, kv in result.pairs]))
            for ko, kv in result.pairs:
                conds.append(Or(*[And(interp.eq(o, ko), interp.eq(v, kv)) for (o, v) in resp]))
            ctx.check(oname("C04", self.target, "ensures", "result-is-what-the-agent-confirmed"), And(*conds))
        return "returns"


class Set(OpUnit):
    target = "puresnmp.api.raw:Client.set"
    functions = ("puresnmp.api.raw:Client.set", "puresnmp.api.raw:Client.multiset")

    def __init__(self, kr):
        self.k, self.kr = 1, kr
        self.name = "Client.set[resp=%d]" % kr

    def run(self, interp):
        ctx = interp.ctx
        seam = SendSeam(self, lambda i, pdu, n: self.fresh_response(i, self.kr))
        seam.install(self.rt, interp)
        oid = ctx.fresh_oid("oid")
        int_cls = get_cls(self.rt, interp, "x690.types:Integer")
        value = Obj(int_cls, {"pyvalue": ctx.fresh_int("set_val"), "_raw_bytes": b""})
        result, exc = self.run_call(interp, oid, value)
        self.check_common_request(interp, seam, "SetRequest", [oid], [value])
        resp = seam.responses[0] if seam.responses else []
        # the quantifier: "the agent adds a binding for a FURTHER oid or drops one"
        ctx.assume(And(*[Not(interp.eq(resp[i][0], resp[j][0])) for i in range(len(resp)) for j in range(i + 1, len(resp))]))
        if self.kr != 1:
            self.expect_exception(interp, exc, "puresnmp.exc:SnmpError", "count-mismatch-refused")
            return "raises"
        ro, rv = seam.responses[0][0]
        same = interp.eq(ro, oid)
        if exc is not None:
            # the agent confirmed a different OID than the one set: nothing to return for `oid`
            ke = self.rt.builtin_class("KeyError")
            ctx.check(oname("C04", self.target, "raises", "only-when-agent-confirms-another-oid"),
                      And(exc_is(exc, ke), Not(same)))
            return "raises"
        ctx.check(oname("C04", self.target, "ensures", "returns-what-the-agent-confirmed-for-the-oid"),
                  And(same, interp.eq(result, rv)))
        return "returns"


class BulkGet(OpUnit):
    target = "puresnmp.api.raw:Client.bulkget"
    functions = ("puresnmp.api.raw:Client.bulkget", "puresnmp.pdu:BulkGetRequest.__init__")

    def __init__(self, ns, nr, m, kr):
        self.ns, self.nr, self.m, self.kr = ns, nr, m, kr
        self.name = "Client.bulkget[scalars=%d,repeaters=%d,max=%d,resp=%d]" % (ns, nr, m, kr)

    def run(self, interp):
        ctx = interp.ctx
        seam = SendSeam(self, lambda i, pdu, n: self.fresh_response(i, self.kr))
        seam.install(self.rt, interp)
        sc = [ctx.fresh_oid("scalar%d" % i) for i in range(self.ns)]
        rp = [ctx.fresh_oid("repeater%d" % i) for i in range(self.nr)]
        result, exc = self.run_call(interp, list(sc), list(rp), max_list_size=self.m)
        self.check_common_request(interp, seam, "BulkGetRequest", sc + rp)
        if seam.sent:
            pdu = seam.sent[0][0]
            ctx.check(oname("C04", self.target, "ensures", "non-repeaters-and-max-repetitions-as-given"),
                      And(interp.eq(pdu.fields.get("non_repeaters"), self.ns), interp.eq(pdu.fields.get("max_repeaters"), self.m)))
        limit = self.ns + self.m * self.nr
        if self.kr > limit:
            self.expect_exception(interp, exc, "puresnmp.exc:SnmpError", "oversized-response-refused")
            return "raises"
        ctx.check(oname("C04", self.target, "ensures", "accepts-conformant-size"), exc is None)
        if exc is not None:
            return "raises"
        resp = seam.responses[0]
        scal = result.fields.get("scalars")
        lst = result.fields.get("listing")
        ok = isinstance(scal, PDict) and isinstance(lst, PDict)
        ctx.check(oname("C04", self.target, "ensures", "result-shape"), ok)
        if not ok:
            return "returns"
        head, tail = resp[:self.ns], resp[self.ns:]
        # scalars: exactly the first |scalar_oids| bindings (later duplicates of an OID win, as in a dict)
        conds = []
        for ko, kv in scal.pairs:
            conds.append(Or(*[And(interp.eq(ko, o), interp.eq(kv, v)) for o, v in head]))
        for idx, (o, v) in enumerate(head):
            later_same = Or(*[interp.eq(o, o2) for o2, _ in head[idx + 1:]])
            conds.append(Or(later_same, Or(*[And(interp.eq(ko, o), interp.eq(kv, v)) for ko, kv in scal.pairs])))
        ctx.check(oname("C04", self.target, "ensures", "scalars-are-the-non-repeater-bindings"), And(*conds))
        # listing: the repeater bindings before the first endOfMibView, order preserved, nothing invented
        eom = get_cls(self.rt, interp, "puresnmp.pdu:EndOfMibView")
        ends = [self.xv.isinstance(v, eom) for _, v in tail]
        conds = []
        for ko, kv in lst.pairs:
            conds.append(Or(*[And(interp.eq(ko, o), interp.eq(kv, v), Not(Or(*ends[:j + 1])))
                              for j, (o, v) in enumerate(tail)]))
        for j, (o, v) in enumerate(tail):
            before_end = Not(Or(*ends[:j + 1]))
            later_same = Or(*[And(interp.eq(o, o2), Not(Or(*ends[:j2 + 1])))
                              for j2, (o2, _) in enumerate(tail) if j2 > j])
            present = Or(*[And(interp.eq(ko, o), interp.eq(kv, v)) for ko, kv in lst.pairs])
            conds.append(Implies(before_end, Or(present, later_same)))
        ctx.check(oname("C04", self.target, "ensures", "listing-is-the-repeater-bindings-before-endOfMibView"), And(*conds))
        # order: keys appear in response order (first occurrence)
        order_ok = []
        for a in range(len(lst.pairs)):
            for b in range(a + 1, len(lst.pairs)):
                ka, kb = lst.pairs[a][0], lst.pairs[b][0]
                first = lambda key: [And(interp.eq(key, o), Not(Or(*[interp.eq(key, o2) for o2, _ in tail[:j]])))
                                     for j, (o, _) in enumerate(tail)]
                fa, fb = first(ka), first(kb)
                order_ok.append(Or(*[And(fa[i], fb[j]) for i in range(len(tail)) for j in range(i + 1, len(tail))]))
        ctx.check(oname("C04", self.target, "ensures", "listing-keeps-response-order"), And(*order_ok))
        return "returns"


def units(tier):
    us = []
    kmax = 3 if tier == "thorough" else 2
    for k in range(1, kmax + 1):
        for kr in (k - 1, k, k + 1):
            us.append(MultiGet(k, kr))
            us.append(MultiGetNext(k, kr))
            us.append(MultiSet(k, kr))
        us.append(MultiSet(k, k, untyped=k - 1))
        us.append(MultiSet(k, k, dup_resp=True))
    for kr in (0, 1, 2):
        us.append(Get(kr))
        us.append(GetNext(kr))
        us.append(Set(kr))
    shapes = [(0, 1, 1), (1, 1, 1), (1, 1, 2), (0, 2, 1), (2, 0, 1), (0, 1, 0), (1, 2, 0)]      # (non-repeaters, repeaters, max-repetitions)
    if tier == "thorough":
        shapes += [(0, 2, 2), (1, 2, 2), (0, 3, 1), (2, 1, 2), (0, 1, 3)]
    for ns, nr, m in shapes:
        limit = ns + m * nr
        for kr in sorted({0, max(limit - 1, 0), limit, limit + 1}):
            us.append(BulkGet(ns, nr, m, kr))
    # LARGE shapes: one request well above any size the small shapes reach (a chunk size, a cap, a threshold that only acts on
    # long lists changes the behaviour of these and of nothing above)
    big = LARGE_THOROUGH if tier == "thorough" else LARGE_QUICK
    for u in (MultiGet(big, big), MultiGet(big, big - 1)):
        u.distinct_response = True
        u.name = u.name[:-1] + ",request and answer OIDs pairwise distinct]"
        us.append(u)
    us.append(MultiGetNext(LARGE_GETNEXT, LARGE_GETNEXT))
    ld = 26 if tier == "thorough" else 12
    for u in (MultiSet(26, 26), BulkGet(2, ld // 2 - 1, 2, ld), BulkGet(0, ld, 1, ld)):
        u.distinct_response = True
        u.name = u.name[:-1] + ",answer OIDs pairwise distinct]"
        us.append(u)
    return us
