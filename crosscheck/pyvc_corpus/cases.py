"""
Conformance corpus for the symbolic interpreter (tools/crosscheck.py): small functions over the Python subset the
verified code uses.  Every function is run natively (CPython 3.12) and by pyvc's interpreter on the same concrete
arguments; the results must agree.  Pure Python, JSON-able arguments and results.
"""
from collections import OrderedDict
from contextlib import contextmanager
from dataclasses import dataclass, replace
from typing import NamedTuple


# ------------------------------------------------------------------ sequences
def stride(v, i, n):
    return v[i::n]


def slices(v, a, b):
    return [v[a:b], v[:a], v[b:], v[-1:], v[:-1], v[a:], v[::2]]


def neg_index(v, i):
    return v[i]


def bytes_ops(b, n):
    return [list(b[:n]), list(b[n:]), len(b), list(b + b"\x00" * 2), list(bytes([1, 2, 255])), b[:n] == b[:n], list(b * 2)[:6]]


def tuple_unpack(pairs):
    out = []
    for a, (b, c) in pairs:
        out.append(a + b * c)
    first, *rest = out
    return [first, rest]


def zip_trunc(a, b):
    return [list(zip(a, b)), [x for x, _ in zip(a, b)], list(enumerate(a, 1))]


def ranges(a, b, s):
    return [list(range(a)), list(range(a, b)), list(range(a, b, s)), list(reversed_list(list(range(a))))]


def reversed_list(v):
    return v[::-1]


def sort_stable(pairs):
    return [sorted(pairs), sorted(pairs, key=lambda p: p[1]), sorted(pairs, key=lambda p: p[1], reverse=True), sorted([p[0] for p in pairs])]


def any_all(v):
    seen = []

    def look(x):
        seen.append(x)
        return x > 2
    return [any(look(x) for x in v), seen, all(x > 0 for x in v), any([]), all([])]


def aliasing(v):
    a = v
    b = list(v)
    a += [99]
    c = a
    c = c + [100]
    return [v, a, b, c, a is v]


def list_methods(v):
    w = list(v)
    w.append(7)
    w.extend([8, 9])
    w.insert(0, -1)
    p = w.pop()
    q = w.pop(0)
    w.reverse()
    return [w, p, q, w.index(7) if 7 in w else -1, w.count(7), len(w)]


# ------------------------------------------------------------------ dicts and sets
def dict_order(pairs):
    d = {}
    for k, v in pairs:
        d[k] = v
    e = dict(pairs)
    return [list(d.items()), list(e.keys()), list(e.values()), len(e), [k for k in d]]


def dict_setdefault(pairs):
    rows = {}
    for k, v in pairs:
        row = rows.setdefault(k, {"0": k})
        row[str(v)] = v
    return [[k, sorted(r.items())] for k, r in rows.items()]


def dict_get_in(pairs, key):
    d = dict(pairs)
    return [d.get(key), d.get(key, "dflt"), key in d, key not in d, d[key] if key in d else None]


def dict_comp(pairs):
    d = {k: v for k, v in pairs if v is not None}
    inv = {v: k for k, v in d.items()}
    return [sorted(d.items()), sorted(inv.items())]


def ordered_dict(pairs):
    d = OrderedDict()
    for k, v in pairs:
        d[k] = v
    return [[k, v] for k, v in d.items()]


def dict_missing(pairs, key):
    d = dict(pairs)
    try:
        return d[key]
    except KeyError as exc:
        return ["KeyError", list(exc.args)]


def set_ops(a, b):
    s = set(a)
    t = set()
    for x in b:
        if x in s or x in t:
            continue
        t.add(x)
    return [sorted(s), sorted(t), len(s), 3 in s]


# ------------------------------------------------------------------ booleans, comparisons, arithmetic
def bool_values(a, b):
    return [a or [], a and b, not a, b or "x", (a or b) is a, bool(a), None or 0, 0 or None]


def chained(a, b, c):
    return [a < b < c, a <= b <= c, 1 <= a <= b, a == b == c, a < b > c]


def int_arith(a, b):
    return [a // b, a % b, -a // b, -a % b, a ** 2, a << 3, a >> 1, a & 0xFF, a | 0x100, a ^ b, -a & 0xFFFFFFFF, abs(-a), int(a / b) if b else None]


def int_bytes(v, n):
    raw = v.to_bytes(n, "big")
    return [list(raw), int.from_bytes(raw, "big"), int.from_bytes(raw, "big", signed=True), list((v % 256).to_bytes(1, "big"))]


def masks(value):
    out = value
    out &= 0xFFFFFFFF if out >= 2 ** 32 else out
    if out <= 0:
        out = 0
    return out


def div_zero(a, b):
    try:
        return a // b
    except ZeroDivisionError:
        return "zero"


def cond_expr(a, b):
    return [a if a > b else b, "big" if a > 10 else "small", (a, b) if a else (b, a)]


# ------------------------------------------------------------------ strings
def fmt(a, b):
    return ["%d of %d" % (a, b), "x=%s" % a, "%r" % (str(b),), f"{a}-{b}", "{}:{}".format(a, b), ".".join([str(n) for n in (a, b, a)])]


def str_ops(s):
    return [s.startswith("ab"), s.endswith("z"), s.upper(), s.split("."), s.encode("ascii") == s.encode("ascii"), len(s), s[1:], s * 2, s.replace("a", "b")]


# ------------------------------------------------------------------ control flow
def loops(v):
    out = []
    for x in v:
        if x == 0:
            continue
        if x < 0:
            break
        out.append(x)
    else:
        out.append("no-break")
    n = 0
    while n < len(v):
        n += 1
        if n == 3:
            break
    else:
        out.append("while-else")
    return [out, n]


def try_order(mode):
    log = []

    def inner():
        try:
            log.append("try")
            if mode == 1:
                raise ValueError("boom")
            if mode == 2:
                return "returned"
            log.append("body-end")
        except ValueError as exc:
            log.append("except:" + str(exc.args[0]))
            if mode == 1:
                return "handled"
        else:
            log.append("else")
        finally:
            log.append("finally")
        return "fell-through"
    r = inner()
    return [r, log]


class MyErr(Exception):
    pass


class Sub(MyErr):
    pass


def reraise(mode):
    log = []
    try:
        try:
            if mode == 0:
                raise Sub("a", 1)
            if mode == 1:
                raise KeyError("k")
            raise TypeError("t")
        except MyErr as exc:
            log.append(["my", list(exc.args)])
            raise
        except (KeyError, IndexError) as exc:
            log.append("lookup")
            raise RuntimeError("wrapped") from exc
        finally:
            log.append("inner-finally")
    except MyErr:
        log.append("outer-my")
    except RuntimeError as exc:
        log.append(["outer-rt", type(exc.__cause__).__name__ if exc.__cause__ is not None else None])
    except Exception as exc:
        log.append(["outer-other", type(exc).__name__])
    return log


def finally_return(x):
    def f():
        try:
            return x
        finally:
            log.append("cleanup")
    log = []
    return [f(), log]


def index_errors(v, i):
    try:
        return v[i]
    except IndexError:
        return "index"
    except TypeError:
        return "type"


# ------------------------------------------------------------------ functions, closures, generators
def defaults(n):
    def acc(x, bucket=[]):
        bucket.append(x)
        return list(bucket)
    return [acc(i) for i in range(n)]


def late_binding(n):
    fs = [lambda: i for i in range(n)]
    gs = [lambda i=i: i for i in range(n)]
    return [[f() for f in fs], [g() for g in gs]]


def star_args(a, b, c):
    def f(x, *rest, key=0, **kw):
        return [x, list(rest), key, sorted(kw.items())]
    args = [a, b]
    kw = {"key": c, "other": a}
    return [f(*args), f(a, b, c), f(a, **kw), f(*args, **kw)]


def gen_basic(v):
    def g():
        for x in v:
            if x < 0:
                return
            yield x
            yield x * 2
    return [list(g()), sum(g()), [y for y in g() if y % 2 == 0]]


def comp_scope(v):
    x = "outer"
    sq = [x * x for x in v]
    nested = [(a, b) for a in v for b in v if a < b]
    return [x, sq, nested]


def closure_counter(n):
    state = {"n": 0}

    def bump():
        state["n"] += 1
        return state["n"]
    return [bump() for _ in range(n)] + [state["n"]]


# ------------------------------------------------------------------ classes
class Base:
    KIND = "base"

    def __init__(self, v):
        self.v = v

    def describe(self):
        return "%s:%s" % (self.KIND, self.v)

    @property
    def double(self):
        return self.v * 2

    @classmethod
    def make(cls, v):
        return cls(v + 1)

    @staticmethod
    def helper(v):
        return v - 1

    def __eq__(self, other):
        return isinstance(other, Base) and self.v == other.v

    def __lt__(self, other):
        return self.v < other.v

    def __len__(self):
        return self.v

    def __contains__(self, item):
        return item < self.v


class Child(Base):
    KIND = "child"

    def __init__(self, v, extra=5):
        super().__init__(v)
        self.extra = extra

    def describe(self):
        return super().describe() + "+" + str(self.extra)


def classes(a, b):
    x, y = Base(a), Child(b)
    z = Child.make(a)
    return [x.describe(), y.describe(), z.describe(), x.double, Base.helper(a), x == Base(a), x == y, x != y, x < y, len(x), 1 in x,
            isinstance(y, Base), isinstance(x, Child), type(z).__name__, [o.v for o in sorted([y, x, z])], bool(Base(0)), bool(Base(1)),
            Child.KIND, y.KIND, hasattr(y, "extra"), hasattr(x, "extra"), getattr(x, "extra", "none")]


@dataclass
class Cfg:
    timeout: int = 6
    retries: int = 10
    name: str = "n"


@dataclass(frozen=True)
class Frozen:
    a: int
    b: int = 2


def dataclasses_(t, r):
    c = Cfg()
    d = replace(c, timeout=t)
    e = replace(d, retries=r, name="x")
    out = [[c.timeout, c.retries, c.name], [d.timeout, d.retries], [e.timeout, e.retries, e.name], c == Cfg(), d == c, e == replace(c, timeout=t, retries=r, name="x")]
    try:
        replace(c, nonsense=1)
    except TypeError:
        out.append("TypeError")
    f = Frozen(t)
    try:
        f.a = 5
    except Exception as exc:
        out.append(type(exc).__name__)
    out.append([f.a, f.b])
    return out


class Pair(NamedTuple):
    oid: int
    value: str


def namedtuples(a, s):
    p = Pair(a, s)
    o, v = p
    q = p._replace(value="z")
    return [o, v, p.oid, p[1], list(q), p == (a, s), len(p), sorted([Pair(2, "b"), Pair(1, "c")]), dict([p, Pair(a + 1, "w")])]


@contextmanager
def managed(log, fail):
    log.append("enter")
    try:
        yield "res"
        log.append("after-yield")
    finally:
        log.append("exit")


def ctx_manager(mode):
    log = []
    try:
        with managed(log, mode) as r:
            log.append("body:" + r)
            if mode == 1:
                raise ValueError("in-body")
            log.append("body-end")
    except ValueError:
        log.append("caught")
    return log


class CtxObj:
    def __init__(self, log, swallow):
        self.log, self.swallow = log, swallow

    def __enter__(self):
        self.log.append("enter")
        return self

    def __exit__(self, et, ev, tb):
        self.log.append("exit:" + (et.__name__ if et else "none"))
        return self.swallow


def ctx_object(mode, swallow):
    log = []
    try:
        with CtxObj(log, swallow):
            if mode:
                raise KeyError("x")
            log.append("ok")
    except KeyError:
        log.append("propagated")
    return log


CASES = [
    ("stride", [[1, 2, 3, 4, 5, 6, 7], 0, 3]), ("stride", [[1, 2, 3, 4, 5, 6, 7], 2, 3]), ("stride", [[1, 2], 1, 2]), ("stride", [[], 0, 1]),
    ("slices", [[1, 2, 3, 4, 5], 1, 3]), ("slices", [[1, 2, 3], 5, 9]), ("slices", [[1, 2, 3, 4], -3, -1]), ("slices", [[], 0, 0]),
    ("neg_index", [[1, 2, 3], -1]), ("neg_index", [[1, 2, 3], -3]),
    ("bytes_ops", [b"\x01\x02\x03\x04", 2]), ("bytes_ops", [b"", 0]), ("bytes_ops", [b"\xff", 5]),
    ("tuple_unpack", [[[1, [2, 3]], [4, [5, 6]], [0, [0, 0]]]]),
    ("zip_trunc", [[1, 2, 3], ["a", "b"]]), ("zip_trunc", [[], [1]]),
    ("ranges", [5, 9, 2]), ("ranges", [0, 3, 1]), ("ranges", [3, 10, 3]),
    ("sort_stable", [[[3, "a"], [1, "b"], [2, "a"], [1, "a"]]]), ("sort_stable", [[]]),
    ("any_all", [[1, 2, 3, 4, 5]]), ("any_all", [[0, 1]]), ("any_all", [[]]),
    ("aliasing", [[1, 2]]), ("list_methods", [[3, 7, 5]]),
    ("dict_order", [[["b", 1], ["a", 2], ["b", 3], ["c", 4]]]), ("dict_setdefault", [[["r1", 1], ["r2", 1], ["r1", 2]]]),
    ("dict_get_in", [[["a", 1], ["b", None]], "b"]), ("dict_get_in", [[["a", 1]], "z"]),
    ("dict_comp", [[["a", 1], ["b", None], ["c", 1]]]), ("ordered_dict", [[["x", 1], ["y", 2], ["x", 3]]]),
    ("dict_missing", [[["a", 1]], "q"]), ("dict_missing", [[["a", 1]], "a"]),
    ("set_ops", [[1, 2, 3], [3, 4, 4, 5, 1]]), ("set_ops", [[], []]),
    ("bool_values", [[], [1]]), ("bool_values", [[0], []]), ("bool_values", [0, 5]), ("bool_values", ["", "s"]),
    ("chained", [1, 2, 3]), ("chained", [2, 2, 2]), ("chained", [3, 1, 2]),
    ("int_arith", [7, 2]), ("int_arith", [-7, 2]), ("int_arith", [7, -2]), ("int_arith", [2 ** 40 + 5, 3]), ("int_arith", [0, 5]),
    ("int_bytes", [258, 2]), ("int_bytes", [255, 1]), ("int_bytes", [2 ** 31, 4]), ("int_bytes", [0, 1]),
    ("masks", [2 ** 32]), ("masks", [2 ** 32 + 5]), ("masks", [-3]), ("masks", [0]), ("masks", [123]), ("masks", [2 ** 40]),
    ("div_zero", [5, 0]), ("div_zero", [5, 2]), ("cond_expr", [3, 11]), ("cond_expr", [0, 1]), ("cond_expr", [12, 1]),
    ("fmt", [3, 14]), ("fmt", [-1, 0]), ("str_ops", ["ab.cd.z"]), ("str_ops", ["zz"]),
    ("loops", [[1, 2, 0, 3]]), ("loops", [[1, -1, 2]]), ("loops", [[]]), ("loops", [[5, 5]]),
    ("try_order", [0]), ("try_order", [1]), ("try_order", [2]),
    ("reraise", [0]), ("reraise", [1]), ("reraise", [2]),
    ("finally_return", [7]), ("index_errors", [[1, 2], 5]), ("index_errors", [[1, 2], 1]), ("index_errors", [[1, 2], "a"]),
    ("defaults", [3]), ("late_binding", [3]), ("star_args", [1, 2, 3]),
    ("gen_basic", [[1, 2, -1, 3]]), ("gen_basic", [[]]), ("comp_scope", [[1, 2, 3]]), ("closure_counter", [3]),
    ("classes", [2, 3]), ("classes", [0, 0]), ("dataclasses_", [9, 1]), ("namedtuples", [4, "v"]),
    ("ctx_manager", [0]), ("ctx_manager", [1]), ("ctx_object", [0, False]), ("ctx_object", [1, False]), ("ctx_object", [1, True]),
]


# ------------------------------------------------------------------ generators seen from the consumer
def gen_exc(v):
    log = []

    def g():
        for x in v:
            if x < 0:
                raise ValueError("neg")
            log.append("produce:%d" % x)
            yield x
    try:
        for y in g():
            log.append("consume:%d" % y)
    except ValueError:
        log.append("error")
    return log


def gen_break(v):
    log = []

    def g():
        for x in v:
            yield x
            log.append("after:%d" % x)
    for y in g():
        log.append("got:%d" % y)
        if y == v[0]:
            break
    return log


def rebinding_during_iteration(pairs, roots):
    results = dict(pairs)
    new_results = {}
    for key, value in results.items():
        hit = [r for r in roots if key.startswith(r)]
        if not hit:
            continue
        new_results[hit[0]] = value
        results = new_results
    return [sorted(results.items()), sorted(new_results.items())]


def sorted_items_objects(pairs):
    class_rows = {k: Pair(v, k) for k, v in pairs}
    return [[k, list(r)] for k, r in sorted(class_rows.items())]


def type_compare(a, b):
    x, y = (Base(1) if a else Child(1)), (Base(2) if b else Child(2))
    return [type(x) != type(y), type(x) == type(y), type(x) is Base, isinstance(x, (Child, int)), type(x).__name__]


def class_attrs():
    a, b = Base(1), Base(2)
    Base.KIND = "changed"
    r = [a.KIND, b.KIND, Child.KIND]
    a.KIND = "own"
    r += [a.KIND, b.KIND]
    Base.KIND = "base"
    return r


def exc_var_scope(mode):
    out = []
    try:
        if mode:
            raise KeyError("k")
        out.append("no-exc")
    except KeyError as exc:
        out.append(type(exc).__name__)
    try:
        exc
        out.append("still-bound")
    except NameError:
        out.append("unbound")
    return out


def exc_in_finally(mode):
    log = []
    try:
        try:
            raise ValueError("first")
        finally:
            log.append("fin")
            if mode:
                raise KeyError("second")
    except ValueError:
        log.append("value")
    except KeyError:
        log.append("key")
    return log


def nested_funcs_defaults(a):
    def outer(x, y=a * 2):
        def inner(z=y + 1):
            return [x, y, z]
        return inner
    return [outer(1)(), outer(1, 5)(), outer(2)(9)]


def dict_of_lists(pairs):
    d = {}
    for k, v in pairs:
        d.setdefault(k, []).append(v)
    first = {k: vs[0] for k, vs in d.items()}
    last = {k: vs[-1] for k, vs in d.items() if vs}
    return [sorted(d.items()), sorted(first.items()), sorted(last.items())]


def string_bytes(s):
    b = s.encode("ascii")
    return [list(b), b.decode("ascii"), list(b[:2] + b[-1:]), len(b), b == s.encode("ascii"), list(bytes(3)), "%s" % s, str(len(s)) + s]


def int_parse(s):
    try:
        return int(s)
    except ValueError:
        return "bad"


def minmax(v, w):
    return [min(v), max(v), min(len(v), w), max(len(v) - w, 0), sum(v), min(v + [w]), max([w] + v)]


# ------------------------------------------------------------------ coroutines (driven by asyncio natively, eagerly by pyvc)
async def _leaf(log, x):
    log.append("leaf:%d" % x)
    if x < 0:
        raise ValueError("neg")
    return x * 2


async def _mid(log, v):
    out = []
    for x in v:
        out.append(await _leaf(log, x))
        log.append("mid-after:%d" % x)
    return out


async def _agen(log, v):
    for x in v:
        y = await _leaf(log, x)
        yield y
        log.append("agen-after:%d" % x)


async def co_chain(v):
    log = []
    try:
        r = await _mid(log, v)
    except ValueError:
        r = "error"
    return [r, log]


async def co_agen(v):
    log = []
    got = []
    async for y in _agen(log, v):
        got.append(y)
    return [got, log]


async def co_stored(v):
    log = []
    c = _leaf(log, v)          # created, not started
    log.append("before-await")
    r = await c
    return [r, log]


def list_sort(pairs):
    a = list(pairs)
    alias = a
    a.sort(key=lambda p: p[1])
    b = list(pairs)
    b.sort(reverse=True)
    rows = [{"0": str(i)} for i in (1, 10, 2, 11)]
    rows.sort(key=lambda r: r["0"])
    return [a, alias is a, b, [r["0"] for r in rows]]


def nonlocal_counter(n):
    total = 0
    cache = None

    def add(x):
        nonlocal total, cache
        if cache is None:
            cache = []
        cache.append(x)
        total += x
        return total
    return [[add(i) for i in range(n)], total, cache]


def bit_lengths(v):
    return [v.bit_length(), v.bit_length() > 32, (-v).bit_length(), (v + 1).bit_length() >= 33]


CORO_CASES = [("co_chain", [[1, 2]]), ("co_chain", [[1, -1, 2]]), ("co_agen", [[1, 2]]), ("co_agen", [[]]), ("co_stored", [3])]

CASES += [
    ("gen_exc", [[1, 2, -1, 3]]), ("gen_exc", [[1]]), ("gen_break", [[1, 2, 3]]),
    ("rebinding_during_iteration", [[["1.3.1.5", "a"], ["1.3.2.7", "b"], ["9.9", "c"]], ["1.3.1", "1.3.2"]]),
    ("sorted_items_objects", [[["b", 2], ["a", 1], ["c", 0]]]),
    ("type_compare", [True, True]), ("type_compare", [True, False]), ("type_compare", [False, False]),
    ("class_attrs", []), ("exc_var_scope", [1]), ("exc_var_scope", [0]), ("exc_in_finally", [0]), ("exc_in_finally", [1]),
    ("nested_funcs_defaults", [3]), ("dict_of_lists", [[["a", 1], ["b", 2], ["a", 3]]]),
    ("string_bytes", ["abc"]), ("string_bytes", ["z"]), ("int_parse", ["12"]), ("int_parse", ["x1"]), ("int_parse", ["-7"]),
    ("minmax", [[3, 1, 2], 2]), ("minmax", [[5], 9]),
    ("list_sort", [[[3, "a"], [1, "b"], [2, "a"], [1, "a"]]]), ("nonlocal_counter", [3]), ("nonlocal_counter", [0]), ("bit_lengths", [0]), ("bit_lengths", [2 ** 32 - 1]), ("bit_lengths", [2 ** 32]),
    ("bit_lengths", [-(2 ** 32) - 1]), ("bit_lengths", [255]),
]


# ---- iterators are single-pass; itertools (round 8 / benign round)
import itertools as _it
from itertools import takewhile as _takewhile, islice as _islice, chain as _chain, dropwhile as _dropwhile


def gen_twice(v):
    g = (x * 2 for x in v)
    a = list(g)
    b = list(g)          # exhausted
    return [a, b]


def genfunc_twice(v):
    def produce():
        for x in v:
            yield x + 1
    g = produce()
    first = [x for x in g]
    second = [x for x in g]
    return [first, second, sum(produce())]


def map_filter_twice(v):
    m = map(lambda x: x + 1, v)
    f = filter(lambda x: x % 2, v)
    z = zip(v, v[1:])
    e = enumerate(v)
    r = reversed(v)
    out = [list(m), list(m), list(f), list(f), list(z), list(z), list(e), list(e), list(r), list(r)]
    return out


def next_default(v):
    it = iter(v)
    a = next(it, "none")
    b = next(it, "none")
    rest = list(it)
    return [a, b, rest, next(iter([]), None), next((x for x in v if x > 1), -1)]


def it_takewhile(v, lim):
    log = []

    def small(x):
        log.append(x)
        return x < lim
    out = list(_takewhile(small, v))
    return [out, log, list(_dropwhile(lambda x: x < lim, v)), list(_it.takewhile(lambda x: x < lim, iter(v)))]


def it_islice(v, a, b):
    return [list(_islice(v, a)), list(_islice(v, a, b)), list(_islice(v, a, None)), list(_it.islice(v, a, b, 2)),
            next(_islice(v, a, None), "none")]


def it_islice_neg(v):
    return list(_islice(v, -1, None))


def it_chain(a, b):
    c = _chain(a, b)
    first = next(c, None)
    return [first, list(c), list(c), list(_it.chain.from_iterable([a, b, a])), list(_chain())]


def it_shared_iterator(v, n):
    it = iter(v)
    head = list(_islice(it, n))
    tail = list(it)
    return [head, tail]


def it_misc(v):
    return [list(_it.repeat(7, 3)), list(_it.product([1, 2], "ab")), list(_it.starmap(lambda a, b: a * b, [(1, 2), (3, 4)])),
            list(_it.filterfalse(lambda x: x % 2, v)), list(_it.accumulate(v)), list(_it.pairwise(v)) if hasattr(_it, "pairwise") else None,
            list(_it.compress(v, [1, 0, 1, 1]))]


def it_groupby(v):
    return [[k, list(g)] for k, g in _it.groupby(sorted(v), key=lambda x: x % 2)]


def takewhile_then_zip(v, w):
    live = list(_takewhile(lambda x: x is not None, v))
    return [(a, b) for a, b in zip(w, live)], len(live)


CASES += [
    ("gen_twice", [[1, 2, 3]]), ("genfunc_twice", [[1, 2]]), ("map_filter_twice", [[1, 2, 3, 4]]), ("next_default", [[1, 2, 3]]),
    ("next_default", [[]]), ("it_takewhile", [[1, 2, 5, 1], 3]), ("it_takewhile", [[], 3]), ("it_takewhile", [[1, 2], 9]),
    ("it_islice", [[1, 2, 3, 4, 5], 1, 4]), ("it_islice", [[1, 2], 0, 9]), ("it_islice", [[], 2, 3]), ("it_islice_neg", [[1, 2]]),
    ("it_chain", [[1, 2], [3]]), ("it_chain", [[], []]), ("it_shared_iterator", [[1, 2, 3, 4], 2]), ("it_shared_iterator", [[1], 3]),
    ("it_misc", [[1, 2, 3, 4]]), ("it_groupby", [[1, 2, 3]]), ("takewhile_then_zip", [[1, 2, None, 4], ["a", "b", "c", "d"]]),
]


import functools as _ft


def partial_divmod(a, b):
    def f(x, y, z=0):
        return [x, y, z]
    p = _ft.partial(f, 1, z=5)
    q = _ft.partial(f, 1)
    return [p(2), q(2), q(2, z=3), divmod(a, b), divmod(-a, b), divmod(a, -b)]


CASES += [("partial_divmod", [7, 3]), ("partial_divmod", [0, 5])]


# ---- modern idioms (benign round 2)
import operator as _op
import contextlib as _cl
from dataclasses import dataclass, fields as _dcfields, asdict as _asdict, astuple as _astuple
from typing import Final as _Final
from collections import defaultdict as _defaultdict, Counter as _Counter, deque as _deque

_LIMIT: _Final = 1 << 4


@dataclass
class _Pt:
    x: int
    y: int = 0


class _Shape:
    __match_args__ = ("kind", "size")

    def __init__(self, kind, size):
        self.kind, self.size = kind, size


def walrus_ops(v):
    out = []
    if (n := len(v)) > 2:
        out.append(n)
    while (x := (v.pop() if v else None)) is not None:
        out.append(x)
    return out + [y for z in (1, 2, 3) if (y := z * 2) > 2]


def match_values(x):
    match x:
        case 0:
            return "zero"
        case 1 | 2:
            return "small"
        case int() if x < 0:
            return "negative"
        case int():
            return "int"
        case str() as s:
            return "str:" + s
        case None:
            return "none"
        case [a]:
            return ["one", a]
        case [a, b, *rest]:
            return ["many", a, b, rest]
        case []:
            return "empty"
        case {"k": v, **others}:
            return ["map", v, sorted(others)]
        case _:
            return "other"


def match_classes(kind, size):
    s = _Shape(kind, size)
    match s:
        case _Shape("sq", n) if n > 2:
            r = ["big square", n]
        case _Shape(kind="sq", size=n):
            r = ["square", n]
        case _Shape(k, _):
            r = ["shape", k]
    p = _Pt(size)
    match p:
        case _Pt(x=0):
            r.append("origin-x")
        case _Pt(x, y):
            r.append([x, y])
    return r


def match_tail(v):
    match v:
        case [*_, last]:
            return last
        case _:
            return "nothing"


def star_unpack(v):
    first, *rest = v
    *init, last = v
    (a, b), *others = [(1, 2), (3, 4), (5, 6)]
    return [first, rest, init, last, a, b, others, [*v, *rest], {**{"a": 1}, "b": 2}]


def dict_union(a, b):
    d = dict(a) | dict(b)
    e = dict(a)
    e |= {"z": 26}
    return [list(d.items()), list(e.items()), list(({"q": 1} | {"q": 2}).items())]


def operator_getters(v):
    p = _Pt(3, 4)
    ag = _op.attrgetter("x", "y")
    one = _op.attrgetter("y")
    ig = _op.itemgetter(1)
    ig2 = _op.itemgetter(0, 2)
    return [list(ag(p)), one(p), ig(v), list(ig2(v)), sorted([[2, "b"], [1, "a"]], key=_op.itemgetter(0)), _op.or_(4, 1), _op.add(2, 3),
            _ft.reduce(_op.or_, [1, 2, 4], 0), _ft.reduce(lambda a, b: a * b, [2, 3, 4])]


def ctx_managers(flag):
    log = []
    with _cl.suppress(KeyError):
        log.append("in")
        if flag:
            raise KeyError("x")
        log.append("after")
    with _cl.ExitStack() as stack:
        stack.callback(log.append, "cb1")
        stack.callback(lambda: log.append("cb2"))
        log.append("body")
    try:
        with _cl.ExitStack() as stack:
            stack.callback(log.append, "cleanup")
            if flag:
                raise ValueError("boom")
    except ValueError:
        log.append("caught")
    return log


def zip_strict(a, b):
    try:
        return [list(p) for p in zip(a, b, strict=True)]
    except ValueError:
        return "ValueError"


def str_methods(s):
    # (f-strings are an abstraction in the engine - some string: they only build messages in the verified code)
    return [s.removeprefix("ab"), s.removesuffix("yz"), "%s:%d" % (s, 3), s.startswith(("a", "x")), s.partition("c")[2], s.zfill(8)]


def collections_ops(v):
    dd = _defaultdict(list)
    for i, x in enumerate(v, start=1):
        dd[x % 2].append(i)
    c = _Counter(v)
    dq = _deque(v, maxlen=3)
    dq.append(99)
    return [sorted(dd.items()), sorted(c.items()), list(dq), dq[0], len(dq), c[12345]]


def dataclass_tools(a, b):
    p = _Pt(a, b)
    return [[f.name for f in _dcfields(p)], _asdict(p), list(_astuple(p)), _LIMIT, p == _Pt(a, b)]


def key_functions(v):
    return [sorted(v, key=lambda x: -x), min(v, key=lambda x: abs(x - 3)), max(v, key=abs), sum(x for x in v if x > 1), any(x > 3 for x in v),
            all(x > 0 for x in v), 1 < len(v) <= 5, "yes" if v else "no", max(v, default=0), min([], default="d")]


class _Lazy:
    def __init__(self, n):
        self.n = n
        self.calls = 0

    @_ft.cached_property
    def doubled(self):
        self.calls += 1
        return self.n * 2


def cached_things(n):
    o = _Lazy(n)
    a, b = o.doubled, o.doubled

    @_ft.cache
    def sq(x):
        return x * x
    return [a, b, o.calls, sq(3), sq(3)]


def int_bytes(n):
    b = n.to_bytes(length=4, byteorder="big")
    return [b, int.from_bytes(b, byteorder="big"), int.from_bytes(bytes=b, byteorder="little"), b.hex(), n.to_bytes(2, "little", signed=False)]


CASES += [
    ("walrus_ops", [[1, 2, 3]]), ("walrus_ops", [[]]),
    ("match_values", [0]), ("match_values", [2]), ("match_values", [-5]), ("match_values", [7]), ("match_values", ["s"]), ("match_values", [None]),
    ("match_values", [[9]]), ("match_values", [[1, 2, 3, 4]]), ("match_values", [[]]), ("match_values", [{"k": 1, "z": 2}]), ("match_values", [1.5]),
    ("match_classes", ["sq", 3]), ("match_classes", ["sq", 1]), ("match_classes", ["tri", 0]), ("match_tail", [[1, 2, 3]]), ("match_tail", [[]]),
    ("star_unpack", [[1, 2, 3]]), ("star_unpack", [[7]]), ("dict_union", [[["a", 1]], [["a", 2], ["b", 3]]]),
    ("operator_getters", [[10, 20, 30]]), ("ctx_managers", [True]), ("ctx_managers", [False]), ("zip_strict", [[1, 2], [3, 4]]), ("zip_strict", [[1], [3, 4]]),
    ("str_methods", ["abcxyz"]), ("str_methods", ["q"]), ("collections_ops", [[1, 2, 3, 4, 5]]), ("dataclass_tools", [1, 2]),
    ("key_functions", [[1, 5, 2]]), ("cached_things", [4]), ("int_bytes", [258]),
]


def _make_hasher(k):
    @_ft.lru_cache(maxsize=None)
    def hasher(a, b):
        return a * k + b
    return hasher


@_ft.lru_cache(maxsize=8)
def _parsed(x):
    return [x, x + 1]


def lru_aliasing(n):
    h = _make_hasher(3)
    first = _parsed(n)
    first.append("mark")
    second = _parsed(n)           # the cached list, already modified
    other = _parsed(n + 1)
    return [h(1, 2), h(1, 2), h(n, 0), first is second, second, other, first is other]


CASES += [("lru_aliasing", [4]), ("lru_aliasing", [0])]
