#!/venv/bin/python
"""
Bounded stand-ins and replay driver: runs the REAL puresnmp (under /venv/bin/python) against the independent
reference agent / codec on an enumerated finite domain and evaluates the property natively.

Never counted as proved.  Roles:  (i) find a concrete failing input for an obligation the verifier refuted or
left undecided (replay);  (ii) cover the parts of a property that lie outside the assumed contracts of the
dependency (one-arc OIDs, arc-2 OIDs);  (iii) validate the assumed contracts (x690, stdlib) on their domain.

usage:  native.py <suite> <tier> <seed>          prints one JSON object
        native.py --replay <scenario.json>       re-runs one recorded scenario, exit 1 if it still fails
"""
import asyncio
import itertools
import json
import os
import random
import resource
import signal
import sys
import time

HERE = os.path.dirname(os.path.dirname(os.path.abspath(__file__)))
sys.path.insert(0, HERE)
from refagent import ber, agent  # noqa: E402

import logging  # noqa: E402
import warnings  # noqa: E402
logging.disable(logging.CRITICAL)
warnings.simplefilter("ignore")
from puresnmp import Client, V1, V2C, V3, Auth, Priv, PyWrapper  # noqa: E402
from puresnmp.exc import SnmpError, NoSuchOID, FaultySNMPImplementation  # noqa: E402
from x690.types import ObjectIdentifier as OID, Integer, OctetString  # noqa: E402


def run(coro):
    return asyncio.new_event_loop().run_until_complete(coro)


def otext(t):
    return ".".join(map(str, t))


class Out:
    def __init__(self, suite):
        self.suite, self.evaluations, self.cases, self.failures, self.t0 = suite, 0, set(), [], time.time()

    def case(self, key):
        self.evaluations += 1
        self.cases.add(key)

    def fail(self, scenario, observed, required, finding=None):
        # (capped per finding id: failures that match an open finding must not crowd out one that matches none)
        if len([f for f in self.failures if f["finding"] == finding]) < (40 if finding is None else 8):
            self.failures.append({"finding": finding, "scenario": scenario, "observed": observed, "required": required})

    def dump(self, error=None):
        print(json.dumps({"suite": self.suite, "evaluations": self.evaluations, "distinct": len(self.cases),
                          "failures": self.failures, "error": error, "seconds": round(time.time() - self.t0, 2)}, default=str))


# ============================================================================ walks (C01 C02 C03 C16)

def walk_patterns(log_pdus, responses):
    """classify a run by the recorded findings' patterns (D1, D2, D18)"""
    found = set()
    for nreq, (req, resp) in enumerate(zip(log_pdus, responses)):
        k = len(req["varbinds"])
        vbs = resp
        ends = [v == agent.END for _, v in vbs]
        # (a GETNEXT walk asks in ascending root order after its first request, where an exhausted column cannot precede a
        #  live one: the situation of D1 arises in the first request only, which goes out in listing order)
        if any(ends[i] and not all(ends[i:]) for i in range(len(ends))) and (req["tag"] == ber.GETBULK or nreq == 0):
            found.add("D1")
        oids = [o for o, v in vbs if v != agent.END]
        if len(set(oids)) != len(oids):
            found.add("D2")
        if req["tag"] == ber.GETBULK and len(vbs) < k:
            found.add("D18")
    return found


class RecordingAgent(agent.CommunityAgent):
    def handle_pdu(self, pdu, version):
        node = super().handle_pdu(pdu, version)
        self.responses = getattr(self, "responses", [])
        self.responses.append([(tuple(vb[2][0][1]), vb[2][1]) for vb in node[2][3][2]])
        return node


def walk_case(db, roots, bulk, truncate=None, max_requests=400):
    ag = RecordingAgent(db, truncate=truncate)
    c = Client("127.0.0.1", V2C("public"), sender=ag)

    async def go():
        out = []
        it = c.bulkwalk([OID(otext(r)) for r in roots], bulk_size=bulk) if bulk else c.multiwalk([OID(otext(r)) for r in roots])
        async for vb in it:
            out.append(tuple(vb.oid.nodes))
            if len(ag.log) > max_requests:
                raise RuntimeError("runaway")
        return out
    try:
        got = run(go())
        exc = None
    except Exception as e:  # noqa
        got, exc = None, "%s: %s" % (type(e).__name__, e)
    want = sorted(o for o, _ in db if any(o[:len(r)] == r and o != r for r in roots))
    optional = set(r for r in roots)
    pats = walk_patterns(ag.log, getattr(ag, "responses", []))
    ok = exc is None and sorted(set(got) - optional) == want and len(got) == len(set(got)) and \
        (len(roots) > 1 or bulk or got == sorted(got))
    return ok, got, exc, want, pats


def suite_walks(out, tier, seed, only=None):
    """only: 'getnext' (C01), 'bulk' (C02) or None (both)"""
    rnd = random.Random(seed)
    arcs = [(1, 3, a, b) for a in (1, 2, 3, 4) for b in (1, 2, 3)] + [(1, 3, a, b, 1) for a in (2, 3) for b in (1, 2)]
    n = 400 if tier == "quick" else 4000
    for _ in range(n):
        db = [(o, ("int", ber.INT, i)) for i, o in enumerate(sorted(rnd.sample(arcs, rnd.randint(0, 9))))]
        k = rnd.choice([1, 1, 2, 2, 3])
        roots = rnd.sample([(1, 3, 1), (1, 3, 2), (1, 3, 3), (1, 3, 4), (1, 3, 9), (1, 3, 2, 1)], k)
        roots = [r for r in roots if not any(r != q and r[:len(q)] == q for q in roots)]
        bulk = rnd.choice([None, None, 1, 2, 3, 5])
        if only == "getnext":
            bulk = None
        elif only == "bulk" and bulk is None:
            bulk = rnd.choice([1, 2, 3, 5])
        cut = rnd.choice([None, None, 1, 2, 3]) if bulk else None
        trunc = (lambda vbs, nn, m, r, c=cut: c) if cut else None
        key = (tuple(o for o, _ in db), tuple(roots), bulk, cut)
        out.case(key)
        ok, got, exc, want, pats = walk_case(db, roots, bulk, trunc)
        if not ok:
            scen = {"kind": "walk", "db": [list(o) for o, _ in db], "roots": [list(r) for r in roots], "bulk": bulk, "cut": cut}
            finding = sorted(pats)[0] if pats else None
            out.fail(scen, {"got": got, "exception": exc}, {"instances_below_roots": want}, finding=finding)
    large_walks(out, only)


def large_walks(out, only):
    """LARGE: many roots (spaced, so that no column overruns into another requested subtree) and long adjacent columns"""
    cases = []
    for nroots in (7, 12):
        db, roots = [], []
        for i in range(nroots):
            r = (1, 3, 10 + 2 * i)
            roots.append(r)
            db += [(r + (j,), ("int", ber.INT, j)) for j in range(1, 24 + i % 3)]
            db += [((1, 3, 11 + 2 * i, j), ("int", ber.INT, j)) for j in range(1, 26)]      # not requested
        db += [((1, 3, 90, j), ("int", ber.INT, j)) for j in range(1, 40)]      # (no end of the MIB view in sight)
        for bulk in (None, 10, 20):
            cases.append((db, list(reversed(roots)), bulk))
    cols = [(1, 3, 50, c) for c in (1, 2, 3)]
    db = [(c + (j,), ("int", ber.INT, j)) for c in cols for j in range(1, 601)] + [((1, 3, 51, j), ("int", ber.INT, 0)) for j in range(1, 40)]
    for bulk in (None, 10):
        cases.append((db, cols, bulk))
    for db, roots, bulk in cases:
        if (only == "getnext" and bulk) or (only == "bulk" and not bulk):
            continue
        out.case(("large-walk", len(roots), len(db), bulk))
        ok, got, exc, want, pats = walk_case(db, roots, bulk, None, max_requests=5000)
        if not ok:
            scen = {"kind": "large-walk", "roots": len(roots), "instances": len(db), "bulk": bulk}
            obs = exc or "%d delivered (%d distinct) of %d" % (len(got), len(set(got)), len(want))
            out.fail(scen, obs, "%d instances, each exactly once" % len(want), finding=sorted(pats)[0] if pats else None)


def replay_walk(s):
    db = [(tuple(o), ("int", ber.INT, i)) for i, o in enumerate(s["db"])]
    trunc = (lambda vbs, nn, m, r, c=s.get("cut"): c) if s.get("cut") else None
    ok, got, exc, want, pats = walk_case(db, [tuple(r) for r in s["roots"]], s.get("bulk"), trunc)
    return ok, {"got": got, "exception": exc, "want": want, "patterns": sorted(pats)}


# ============================================================================ wire (C05 C06): D16, D17 and codec validation

def suite_wire(out, tier, seed, part=None):
    rnd = random.Random(seed)
    sent = []

    class Capture(agent.CommunityAgent):
        async def __call__(self, endpoint, data, timeout=1, loop=None, retries=10):
            sent.append(bytes(data))
            return await super().__call__(endpoint, data, timeout=timeout, loop=loop, retries=retries)
    oids = [(1,), (0, 0), (1, 3), (2, 5), (1, 3, 6, 1, 2, 1, 1, 1, 0), (1, 3, 127, 128, 16383, 16384, 2 ** 32 - 1), (2, 39, 1),
            tuple([1, 3] + [7] * 126)]
    for o in (oids if part in (None, "emit") else []):
        ag = Capture([(o, ("int", ber.INT, 1))] if len(o) >= 2 else [])
        c = Client("127.0.0.1", V2C("public"), sender=ag)
        out.case(("emit", o))
        try:
            run(c.get(OID(otext(o))))
        except Exception:
            pass
        try:
            msg = ber.parse_community_message(sent[-1])
            read = msg["pdu"]["varbinds"][0][0]
        except Exception as e:  # noqa
            read = "undecodable: %s" % e
        if read != o:
            out.fail({"kind": "emit-oid", "oid": list(o)}, {"independent_decoder_reads": list(read) if isinstance(read, tuple) else read},
                     {"oid": list(o)}, finding="D16" if len(o) == 1 else None)
    # LARGE: long OID lists and many walk roots reach the wire as ONE request carrying all of them, in order, with the caller's
    # max-repetitions
    if part in (None, "emit"):
        for k in (11, 17, 49, 70, 130, 300):
            want = [(1, 3, 6, 1, 4, 1, 100 + i, i * 97 % 70000) for i in range(k)]
            for op in ("multiget", "multigetnext", "multiset"):
                ag = Capture([])
                c = Client("127.0.0.1", V2C("public"), sender=ag)
                n0 = len(sent)
                out.case(("emit-large", op, k))
                try:
                    if op == "multiset":
                        run(c.multiset({OID(otext(o)): Integer(i) for i, o in enumerate(want)}))
                    else:
                        run(getattr(c, op)([OID(otext(o)) for o in want]))
                except Exception:
                    pass
                try:
                    msgs = [ber.parse_community_message(d) for d in sent[n0:]]
                    read = [[vb[0] for vb in m["pdu"]["varbinds"]] for m in msgs]
                except Exception as e:  # noqa
                    read = "undecodable: %s" % e
                if read != [want]:
                    out.fail({"kind": "emit-list", "op": op, "k": k}, {"datagrams": len(sent) - n0, "oids_per_datagram": [len(r) for r in read] if isinstance(read, list) else read},
                             "one datagram with the caller's %d OIDs in order" % k)
        for nroots, size in ((3, 10), (6, 10), (7, 10), (12, 10), (4, 20), (12, 1), (30, 60), (2, 200)):
            roots = [(1, 3, 6, 1, 4, 1, 200 + i) for i in range(nroots)]
            ag = Capture([(r + (1,), ("int", ber.INT, 1)) for r in roots])
            c = Client("127.0.0.1", V2C("public"), sender=ag)
            n0 = len(sent)
            out.case(("emit-bulkwalk", nroots, size))
            try:
                run(collect(c.bulkwalk([OID(otext(o)) for o in roots], bulk_size=size)))
            except Exception:
                pass
            try:
                first = ber.parse_community_message(sent[n0])["pdu"]
                obs = {"oids": [vb[0] for vb in first["varbinds"]], "non_repeaters": first["f1"], "max_repetitions": first["f2"]}
            except Exception as e:  # noqa
                obs = {"undecodable": str(e)}
            if obs != {"oids": roots, "non_repeaters": 0, "max_repetitions": size}:
                out.fail({"kind": "emit-bulkwalk", "roots": nroots, "bulk_size": size},
                         {k_: (len(v) if isinstance(v, list) else v) for k_, v in obs.items()},
                         "first GETBULK: the %d roots in order, no non-repeaters, max-repetitions %d" % (nroots, size))
    # responses: every value type x boundary values x definite length forms, read back through multiget
    values = []
    for v in (0, 1, -1, 127, 128, -128, -129, 255, 256, 2 ** 31 - 1, -2 ** 31, 2 ** 32 - 1, 2 ** 63, 2 ** 64 - 1):
        values.append(("int", ber.INT, v))
        for tag in (ber.COUNTER32, ber.GAUGE32, ber.TIMETICKS, ber.COUNTER64):
            if 0 <= v < (2 ** 64 if tag == ber.COUNTER64 else 2 ** 32):
                values.append(("int", tag, v))
    for ln in (0, 1, 126, 127, 128, 255, 256, 1000):
        values.append(("bytes", ber.OCTETS, bytes((i * 7) & 255 for i in range(ln))))
        values.append(("bytes", ber.OPAQUE, bytes(ln)))
    values.append(("bytes", ber.IPADDR, bytes([192, 0, 2, 1])))
    values += [("null", ber.NULL), ("null", ber.NOSUCHOBJECT), ("null", ber.NOSUCHINSTANCE), ("null", ber.ENDOFMIBVIEW)]
    for o in ((0, 0), (1, 3, 6), (1, 39, 2 ** 32 - 1), (2, 5, 3), (2, 39, 1), (2, 40, 1), (2, 100, 3), (2, 999, 3)):
        values.append(("oid", o))
    if part == "emit":
        return
    forms = ["min", 1, 2, 4] if tier == "quick" else ["min", 1, 2, 3, 4]
    for val in values:
        for form in forms:
            if form != "min" and val[0] == "bytes" and len(val[2]) + 64 >= 256 ** form:
                continue            # the enclosing TLVs must fit the forced length form too
            out.case(("value", repr(val)[:40], form))
            ag = agent.CommunityAgent([((1, 3, 1), val)], form=form)
            c = Client("127.0.0.1", V2C("public"), sender=ag)
            try:
                got = run(c.multiget([OID("1.3.1")]))[0]
                obs = describe(got)
            except Exception as e:  # noqa
                obs = "exception %s: %s" % (type(e).__name__, e)
            want = describe_node(val)
            if obs != want:
                fid = "D17" if val[0] == "oid" and val[1][0] == 2 and val[1][1] >= 40 else None
                out.fail({"kind": "value", "value": [val[0], list(val[1]) if val[0] == "oid" else val[1],
                                                      (val[2].hex() if isinstance(val[2], bytes) else val[2]) if len(val) > 2 else None],
                          "form": form}, obs, want, finding=fid)


TAGNAME = {ber.INT: "Integer", ber.COUNTER32: "Counter", ber.GAUGE32: "Gauge", ber.TIMETICKS: "TimeTicks", ber.COUNTER64: "Counter64",
           ber.OCTETS: "OctetString", ber.OPAQUE: "Opaque", ber.IPADDR: "IpAddress", ber.NULL: "Null",
           ber.NOSUCHOBJECT: "NoSuchObject", ber.NOSUCHINSTANCE: "NoSuchInstance", ber.ENDOFMIBVIEW: "EndOfMibView"}


def describe_node(node):
    if node[0] == "oid":
        return "ObjectIdentifier:" + otext(node[1])
    if node[0] == "null":
        return TAGNAME[node[1]] + ":None"
    if node[0] == "int":
        return "%s:%d" % (TAGNAME[node[1]], node[2])
    if node[1] == ber.IPADDR:
        return "IpAddress:" + ".".join(str(b) for b in node[2])
    return "%s:%s" % (TAGNAME[node[1]], node[2].hex())


def describe(x):
    name = type(x).__name__
    v = x.value
    if name == "ObjectIdentifier":
        return "ObjectIdentifier:" + str(v)
    if name == "IpAddress":
        return "IpAddress:" + str(v)
    if isinstance(v, bytes):
        return "%s:%s" % (name, v.hex())
    return "%s:%s" % (name, v)


# ============================================================================ usm (C09): forged / altered responses

def suite_usm(out, tier, seed):
    rnd = random.Random(seed)
    db = [((1, 3, 6, 1, 2, 1, 1, 5, 0), ("bytes", ber.OCTETS, b"authentic-value"))]
    for hashname in ("md5", "sha1"):
        ag = agent.V3Agent(db, auth=(hashname, b"authpass1"))
        state = {"mode": None}

        async def mitm(endpoint, data, timeout=1, loop=None, retries=10, ag=ag, state=state):
            reply = await ag(endpoint, data)
            msg = ber.parse_v3_message(data)
            if msg["user"] == b"" or state["mode"] is None:
                return reply
            return forge(reply, state["mode"], ag)
        creds = V3("user", Auth(b"authpass1", hashname))
        authentic = run(Client("127.0.0.1", creds, sender=ag).get(OID("1.3.6.1.2.1.1.5.0")))
        modes = [("flags", f) for f in (0, 4)] + [("digest", d) for d in ("empty", "short", "zero", "flip")] + \
                [("user", b"intruder"), ("value", b"forged-value"), ("report-plain", None), ("engine", b"other-engine")]
        nflip = 12 if tier == "quick" else 400
        for mode in modes + [("bit", rnd.randrange(0, 8 * 120)) for _ in range(nflip)]:
            out.case((hashname,) + tuple(map(str, mode)))
            state["mode"] = mode
            c = Client("127.0.0.1", creds, sender=mitm)
            arm(2)
            try:
                got = run(c.get(OID("1.3.6.1.2.1.1.5.0")))
                ok = type(got) is type(authentic) and got.value == authentic.value
                obs = describe(got)
            except TimeoutError:
                ok, obs = True, "hang (x690 indefinite length: finding D15, reported under C20)"
            except Exception as e:  # noqa
                ok, obs = True, "exception %s" % type(e).__name__
            finally:
                disarm()
            if not ok:
                out.fail({"kind": "forgery", "hash": hashname, "mode": [str(m) for m in mode]}, obs,
                         "an exception or exactly " + describe(authentic))
        # ---- the same during a WALK: a forged or damaged answer to a later request must end the walk with an exception or leave
        #      the result complete - an error status taken from an unauthenticated message (noSuchName) would end it silently
        wdb = [((1, 3, 6, 1, 2, 1, 1, i, 0), ("int", ber.INT, i)) for i in range(1, 6)]
        wag = agent.V3Agent(wdb, auth=(hashname, b"authpass1"))
        full = None
        wmodes = [None, ("status-unauth", 2), ("status-unauth", 2.0), ("status-unauth", 5), ("report-status", 2), ("report-status", 5),
                  ("status-keepdigest", 2), ("flags", 0), ("report-plain", None), ("report-plain", 0)] + \
                 [("bit", rnd.randrange(0, 8 * 110)) for _ in range(nflip)]
        for mode in wmodes:
            cnt = {"n": 0}

            async def wmitm(endpoint, data, timeout=1, loop=None, retries=10, wag=wag, mode=mode, cnt=cnt):
                reply = await wag(endpoint, data)
                if ber.parse_v3_message(data)["user"] == b"" or mode is None:
                    return reply
                cnt["n"] += 1
                if cnt["n"] != 3:
                    return reply
                return forge(reply, mode, wag)

            lenient = mode is not None and (wmodes.index(mode) % 2 == 1)

            async def walk_all(c, lenient=lenient):
                return [(str(vb.oid), vb.value.value) async for vb in c.walk(OID("1.3.6.1.2.1.1"), errors="warn" if lenient else "strict")]
            out.case((hashname, "walk", "lenient" if lenient else "strict") + tuple(map(str, mode or ("clean",))))
            c = Client("127.0.0.1", creds, sender=wmitm)
            if mode is not None and full is None:
                continue          # (the clean walk itself failed and was reported: nothing to compare with)
            arm(3 if mode is not None else 20)
            try:
                got = run(walk_all(c))
                if mode is None:
                    full = got
                ok, obs = got == full, "walk ended normally with %d of %d instances" % (len(got), len(full or got))
            except TimeoutError:
                ok, obs = True, "hang (D15, reported under C20)"
            except Exception as e:  # noqa
                ok, obs = True, "exception %s" % type(e).__name__
            finally:
                disarm()
            if mode is None and full is None:
                out.fail({"kind": "forgery-in-walk", "hash": hashname, "mode": ["none (the clean walk itself)"]}, obs, "the walk of the five instances")
            elif not ok:
                out.fail({"kind": "forgery-in-walk", "hash": hashname, "mode": [str(m) for m in mode]}, obs,
                         "an exception or the complete walk (%d instances)" % len(full))
        # ---- LARGE: long messages, repeated request ids, many requests in flight (state kept per message prefix, per request
        #      id or per recent request shows only here)
        import puresnmp.api.raw as raw
        ldb = [((1, 3, 6, 1, 2, 1, 1, 5, 0), ("bytes", ber.OCTETS, bytes(range(256)) * 3))]
        lag = agent.V3Agent(ldb, auth=(hashname, b"authpass1"))
        lstate = {"first": None, "alter": None}

        async def lmitm(endpoint, data, timeout=1, loop=None, retries=10, lag=lag, lstate=lstate):
            reply = await lag(endpoint, data)
            if ber.parse_v3_message(data)["user"] == b"":
                return reply
            if lstate["first"] is None:
                lstate["first"] = reply
                return reply
            if lstate["alter"] is None:
                return reply
            b = bytearray(lstate["first"])          # the earlier authentic answer, its tail altered, its digest kept
            b[lstate["alter"]] ^= 0x20
            return bytes(b)
        saved = raw.get_request_id
        raw.get_request_id = lambda: 424242          # two requests within one second
        try:
            c = Client("127.0.0.1", creds, sender=lmitm)
            long_authentic = run(c.get(OID("1.3.6.1.2.1.1.5.0")))
            n1 = len(lstate["first"])
            for pos in (n1 - 1, n1 - 17, n1 - 300, 300, 257):
                lstate["alter"] = pos
                out.case((hashname, "replayed-long-answer-altered-at", pos))
                arm(2)
                try:
                    got = run(c.get(OID("1.3.6.1.2.1.1.5.0")))
                    ok, obs = got.value == long_authentic.value, "a value altered at octet %d of %d was returned" % (pos, n1)
                except TimeoutError:
                    ok, obs = True, "hang"
                except Exception as e:  # noqa
                    ok, obs = True, "exception %s" % type(e).__name__
                finally:
                    disarm()
                if not ok:
                    out.fail({"kind": "forgery-long-replay", "hash": hashname, "altered_octet": pos, "message_octets": n1}, obs,
                             "an exception or exactly the authentic value")
        finally:
            raw.get_request_id = saved
        for inflight in (3, 6, 9):
            cnt = {"n": 0}

            async def cmitm(endpoint, data, timeout=1, loop=None, retries=10, ag=ag, cnt=cnt, inflight=inflight):
                reply = await ag(endpoint, data)
                if ber.parse_v3_message(data)["user"] == b"":
                    return reply
                cnt["n"] += 1
                mine = cnt["n"]
                await asyncio.sleep(0.02)              # every request of the batch is out before the first answer is processed
                return forge(reply, ("flags", 0), ag) if mine >= inflight - 1 else reply

            async def batch(c, inflight=inflight):
                await c.get(OID("1.3.6.1.2.1.1.5.0"))          # (discovery done)
                cnt["n"] = 0
                return await asyncio.gather(*[c.get(OID("1.3.6.1.2.1.1.5.0")) for _ in range(inflight)], return_exceptions=True)
            out.case((hashname, "in-flight", inflight))
            arm(5)
            try:
                res = run(batch(Client("127.0.0.1", creds, sender=cmitm)))
            except TimeoutError:
                res = []
            finally:
                disarm()
            bad = [describe(r) for r in res if not isinstance(r, Exception) and r.value != authentic.value]
            if bad:
                out.fail({"kind": "forgery-in-flight", "hash": hashname, "requests_in_flight": inflight}, bad[0],
                         "an exception or exactly " + describe(authentic))


def forge(reply, mode, ag):
    kind, arg = mode
    if kind == "bit":
        b = bytearray(reply)
        pos = arg % (8 * len(b))
        b[pos // 8] ^= 1 << (pos % 8)
        return bytes(b)
    m = ber.parse_v3_message(reply)
    pdu = m["scoped"]["pdu"]
    vbs = [(o, v) for o, v in pdu["varbinds"]]
    flags, user, authp, eng, tag = m["flags"], m["user"], m["auth_params"], m["engine_id"], pdu["tag"]
    if kind == "flags":
        flags, authp = arg, b""
        vbs = [(o, ("bytes", ber.OCTETS, b"forged-value")) for o, _ in vbs]
    elif kind == "digest":
        authp = {"empty": b"", "short": authp[:6], "zero": b"\x00" * 12, "flip": bytes([authp[0] ^ 1]) + authp[1:]}[arg]
        vbs = [(o, ("bytes", ber.OCTETS, b"forged-value")) for o, _ in vbs]
    elif kind == "user":
        user = arg
    elif kind == "value":
        vbs = [(o, ("bytes", ber.OCTETS, arg)) for o, _ in vbs]
    elif kind == "report-plain":
        flags, authp, tag = 0, b"", ber.REPORT
        vbs = [(o, ("bytes", ber.OCTETS, b"forged-value")) for o, _ in vbs]
    elif kind == "engine":
        eng = arg
    f1 = pdu["f1"]
    if kind == "status-unauth":
        flags, authp, f1 = 0, b"", int(arg)      # unauthenticated, carrying an agent error status
    elif kind == "report-status":
        flags, authp, f1, tag = 0, b"", int(arg), ber.REPORT      # an unauthenticated Report carrying an error status
    elif kind == "status-keepdigest":
        f1 = arg                                  # error status changed, the (now wrong) digest kept
    node = ber.build_pdu(tag, pdu["request_id"], f1, pdu["f2"], vbs)
    return ber.build_v3_message(m["msg_id"], m["max_size"], flags, eng, m["boots"], m["time"], user, authp, m["priv_params"],
                                ber.build_scoped(m["scoped"]["context_engine_id"], m["scoped"]["context_name"], node))


def _alarm(signum, frame):
    raise TimeoutError("alarm")


def arm(cpu_seconds):
    """A budget for the code that follows, independent of the load of the machine: `cpu_seconds` of PROCESS CPU time (a spinning
    hang), and a generous wall-clock bound for a hang that blocks without using the CPU (a leaked semaphore, a lost wake-up)."""
    signal.setitimer(signal.ITIMER_PROF, cpu_seconds)
    signal.alarm(max(30, 10 * cpu_seconds))


def disarm():
    signal.setitimer(signal.ITIMER_PROF, 0)
    signal.alarm(0)


SUITES = {"walks": suite_walks, "walks-getnext": lambda o, t, s: suite_walks(o, t, s, "getnext"),
          "walks-bulk": lambda o, t, s: suite_walks(o, t, s, "bulk"), "wire": suite_wire, "wire-emit": lambda o, t, s: suite_wire(o, t, s, "emit"),
          "wire-values": lambda o, t, s: suite_wire(o, t, s, "values"), "usm": suite_usm}
def err_case(status, index, op, k):
    """one agent error answer (status, index) to an operation on k OIDs: the documented exception class carrying the raw
    status and naming the binding error-index selects"""
    import puresnmp.exc as E
    from puresnmp.exc import ErrorResponse
    table = {getattr(E, n).IDENTIFIER: getattr(E, n) for n in dir(E) if isinstance(getattr(E, n), type)
             and issubclass(getattr(E, n), ErrorResponse) and getattr(E, n) is not ErrorResponse}
    ag = Scripted(OPS_DB, {"status": status, "index": index})
    c = Client("127.0.0.1", V2C("public"), sender=ag)

    def attempt(coro):
        try:
            return run(coro), None
        except Exception as e:  # noqa
            return None, e
    oids = [(1, 3, 1, i + 1, 0) for i in range(k)]
    coro = {"multiget": lambda: c.multiget([OID(otext(o)) for o in oids]),
            "multiset": lambda: c.multiset({OID(otext(o)): Integer(1) for o in oids}),
            "bulkget": lambda: c.bulkget([], [OID(otext(o)) for o in oids], 1)}[op]()
    res, exc = attempt(coro)
    want_cls = table.get(status, ErrorResponse)
    ok = type(exc) is want_cls and exc.error_status == status
    want_oid = otext(oids[index - 1]) if 1 <= index <= k and op != "bulkget" else None
    if ok and op != "bulkget":
        got_oid = str(exc.offending_oid) if exc.offending_oid else ""
        if (got_oid or None) != want_oid:
            ok = False
    return ok, {"got": repr(res or exc) + (" offending_oid=%s" % getattr(exc, "offending_oid", None) if exc is not None else ""),
                "required": "%s with status %d naming %s" % (want_cls.__name__, status, want_oid)}


def replay_err(s):
    return err_case(s["status"], s["index"], s.get("op", "multiget"), max(1, s.get("k", 1)))


def replay_pycall(s):
    """{"kind": "pycall", "setup": <python statements>, "expr": <expression>, "expected": <expression of the required value>}
    evaluated against the real library: reproduced when the value differs from the required one (or an exception leaves)"""
    env = {}
    exec(s.get("setup", ""), env)
    try:
        got = eval(s["expr"], env)
        exc = None
    except Exception as e:  # noqa
        got, exc = None, "%s: %s" % (type(e).__name__, e)
    want = eval(s["expected"], env)
    ok = exc is None and got == want
    return ok, {"expr": s["expr"], "got": repr(got), "exception": exc, "required": repr(want)}


REPLAY = {"walk": replay_walk, "pycall": replay_pycall, "err": replay_err}


def main(argv):
    signal.signal(signal.SIGALRM, _alarm)
    signal.signal(signal.SIGPROF, _alarm)
    try:
        resource.setrlimit(resource.RLIMIT_AS, (3 * 2 ** 30, 3 * 2 ** 30))
    except Exception:
        pass
    if argv and argv[0] == "--replay":
        s = json.load(open(argv[1]))
        scen = s.get("scenario") or s
        fn = REPLAY.get(scen.get("kind"))
        if fn is None:
            print(json.dumps({"reproduced": None, "note": "no native replay for scenarios of kind %r" % scen.get("kind")}))
            return 2
        ok, detail = fn(scen)
        print(json.dumps({"reproduced": not ok, "detail": detail}, default=str))
        return 0 if ok else 1
    suite, tier, seed = argv[0], argv[1], int(argv[2])
    out = Out(suite)
    try:
        SUITES[suite](out, tier, seed)
        out.dump()
    except Exception as e:  # noqa
        import traceback
        out.dump(error=traceback.format_exc()[-1500:])
    return 0



# ============================================================================ ops (C04 C07 C08 C15)

class Scripted(agent.CommunityAgent):
    """community agent with a scripted deviation"""

    def __init__(self, db, dev=None, **kw):
        super().__init__(db, **kw)
        self.dev = dev or {}

    def handle_pdu(self, pdu, version):
        node = super().handle_pdu(pdu, version)
        vbl = node[2][3][2]
        if self.dev.get("drop") and vbl:
            vbl.pop()
        if self.dev.get("add"):
            vbl.append(("seq", ber.SEQ, [("oid", (1, 3, 99, 1)), ("int", ber.INT, 7)]))
        if "status" in self.dev:
            node[2][1] = ("int", ber.INT, self.dev["status"])
            node[2][2] = ("int", ber.INT, self.dev.get("index", 0))
        return node


OPS_DB = [((1, 3, 1, 1, 0), ("int", ber.INT, 11)), ((1, 3, 1, 2, 0), ("bytes", ber.OCTETS, b"two")),
          ((1, 3, 1, 3, 0), ("int", ber.TIMETICKS, 290)), ((1, 3, 1, 4, 0), ("bytes", ber.IPADDR, bytes([10, 0, 0, 1]))),
          ((1, 3, 1, 5, 0), ("int", ber.COUNTER64, 2 ** 63)), ((1, 3, 1, 6, 0), ("oid", (1, 3, 6, 1))), ((1, 3, 1, 7, 0), ("null", ber.NULL))]


def suite_ops(out, tier, seed, part=None):
    from puresnmp.exc import ErrorResponse, InvalidResponseId
    import puresnmp.exc as E
    rnd = random.Random(seed)
    present = [o for o, _ in OPS_DB]

    def client(ag):
        return Client("127.0.0.1", V2C("public"), sender=ag)

    def attempt(coro):
        try:
            return run(coro), None
        except Exception as e:  # noqa
            return None, e
    # ---- C04: results are the agent's answers, in order; count mismatches refused
    if part in (None, "C04"):
        for _ in range(60 if tier == "quick" else 600):
            k = rnd.randint(1, 4)
            oids = [rnd.choice(present + [(1, 3, 1, 9, 0), (1, 3, 2, 1)]) for _ in range(k)]
            dev = rnd.choice([{}, {}, {"drop": 1}, {"add": 1}])
            ag = Scripted(OPS_DB, dev)
            out.case(("multiget", tuple(oids), tuple(dev)))
            res, exc = attempt(client(ag).multiget([OID(otext(o)) for o in oids]))
            if dev:
                if not isinstance(exc, SnmpError):
                    out.fail({"kind": "op", "op": "multiget", "oids": oids, "dev": dev}, repr(res or exc), "SnmpError (binding count differs)")
            else:
                want = [describe_node(ag.db.get(o) or (agent.NSI if any(x[:len(o) - 1] == tuple(o)[:len(o) - 1] for x in ag.db.oids) else agent.NSO)) for o in oids]
                if exc is not None or [describe(v) for v in res] != want:
                    out.fail({"kind": "op", "op": "multiget", "oids": oids}, repr(res or exc), want)
            # getnext of each
            o = rnd.choice(present + [(1, 3, 0), (1, 3, 1, 7, 0), (1, 3, 9)])
            ag = Scripted(OPS_DB)
            out.case(("getnext", o))
            res, exc = attempt(client(ag).getnext(OID(otext(o))))
            s = ag.db.succ(o)
            if s is None:
                if not isinstance(exc, NoSuchOID):
                    out.fail({"kind": "op", "op": "getnext", "oid": o}, repr(res or exc), "NoSuchOID (end of the MIB view)")
            elif exc is not None or tuple(res.oid.nodes) != s or describe(res.value) != describe_node(ag.db.get(s)):
                out.fail({"kind": "op", "op": "getnext", "oid": o}, repr(res or exc), [s, describe_node(ag.db.get(s))])
            # set
            ag = Scripted(OPS_DB, rnd.choice([{}, {"add": 1}, {"drop": 1}]))
            val = rnd.choice([Integer(rnd.randint(-5, 5)), OctetString(b"x" * rnd.randint(0, 3))])
            out.case(("set", o, tuple(ag.dev)))
            res, exc = attempt(client(ag).set(OID(otext(o)), val))
            if ag.dev:
                if not isinstance(exc, SnmpError):
                    out.fail({"kind": "op", "op": "set", "oid": o, "dev": ag.dev}, repr(res or exc), "SnmpError")
            elif exc is not None or describe(res) != describe(val):
                out.fail({"kind": "op", "op": "set", "oid": o}, repr(res or exc), describe(val))
        # ---- LARGE: long OID lists (chunking, caps and thresholds act only there)
        for k in (11, 17, 49, 70, 130, 300):
            oids = [present[(5 * i + k) % len(present)] for i in range(k)]
            ag = Scripted(OPS_DB)
            out.case(("multiget-large", k))
            res, exc = attempt(client(ag).multiget([OID(otext(o)) for o in oids]))
            want = [describe_node(ag.db.get(o)) for o in oids]
            nreq = len([1 for x in ag.log]) if hasattr(ag, "log") else None
            if exc is not None or [describe(v) for v in res] != want:
                out.fail({"kind": "op", "op": "multiget", "oids": oids}, repr(exc) if exc else "%d values, first difference at position %s" % (
                    len(res), next((i for i, (a, b) in enumerate(zip([describe(v) for v in res], want)) if a != b), min(len(res), len(want)))),
                    "the %d values of the agent in request order" % k)
            ag = Scripted(OPS_DB)
            out.case(("multigetnext-large", k))
            oids = [present[:-1][(5 * i + k) % (len(present) - 1)] for i in range(k)]
            res, exc = attempt(client(ag).multigetnext([OID(otext(o)) for o in oids]))
            succs = [ag.db.succ(o) for o in oids]
            if all(x is not None for x in succs):
                if exc is not None or [tuple(vb.oid.nodes) for vb in res] != succs:
                    out.fail({"kind": "op", "op": "multigetnext", "oids": oids}, repr(exc) if exc else "%d bindings" % len(res),
                             "the successor of each of the %d OIDs in request order" % k)
            ag = Scripted(OPS_DB)
            uniq = sorted(set(oids))
            out.case(("multiset-large", len(uniq)))
            res, exc = attempt(client(ag).multiset({OID(otext(o)): Integer(i) for i, o in enumerate(uniq)}))
            if exc is not None or {tuple(kk.nodes): vv.value for kk, vv in res.items()} != {tuple(o): i for i, o in enumerate(uniq)}:
                out.fail({"kind": "op", "op": "multiset", "oids": uniq}, repr(exc) if exc else "%d confirmed" % len(res),
                         "what the agent confirmed for each of the %d OIDs" % len(uniq))
        for nrep, m in ((4, 5), (12, 6), (30, 3)):
            reps = [present[(3 * i) % len(present)][:-1] for i in range(nrep)]
            reps = sorted(set(reps))
            ag = Scripted(OPS_DB)
            out.case(("bulkget-large", len(reps), m))
            res, exc = attempt(client(ag).bulkget([], [OID(otext(o)) for o in reps], m))
            if exc is not None:
                out.fail({"kind": "op", "op": "bulkget", "repeaters": reps, "max": m}, repr(exc), "a conformant GETBULK answer is accepted")
            else:
                # what a conformant agent sends: m rows of successors, interleaved
                rows, cur = [], list(reps)
                for _ in range(m):
                    cur = [ag.db.succ(o) if o is not None else None for o in cur]
                    rows.extend(cur)
                live = []
                for o in rows:
                    if o is None:
                        break
                    live.append(o)
                got = [tuple(kk.nodes) for kk in res.listing]
                wantl = list(dict.fromkeys(live))
                if got != wantl and len(set(live)) == len(live):
                    out.fail({"kind": "op", "op": "bulkget", "repeaters": reps, "max": m}, "%d listed" % len(got), "%d repeater bindings in the agent's order" % len(wantl))
    # ---- C07: request-id echo / perturbation with a stepping clock
    if part in (None, "C07"):
        import puresnmp.api.raw as raw
        import puresnmp.util as util
        tick = itertools.count(1000)
        saved = raw.get_request_id
        raw.get_request_id = lambda: next(tick)
        try:
            for op in ("get", "getnext", "set", "bulkget", "walk"):
                # (LARGE: offsets that keep the low 31 / 32 bits - ids of five and more octets)
                for off in (0, 1, -1, 12345, 2 ** 31, 2 ** 32, -2 ** 32, 3 * 2 ** 32, 2 ** 40):
                    ag = Scripted(OPS_DB, rid_offset=off)
                    c = client(ag)
                    out.case(("rid", op, off))
                    o = OID("1.3.1.1.0")
                    coro = {"get": lambda: c.get(o), "getnext": lambda: c.getnext(o), "set": lambda: c.set(o, Integer(1)),
                            "bulkget": lambda: c.bulkget([], [o], 2), "walk": lambda: collect(c.walk(OID("1.3.1")))}[op]()
                    res, exc = attempt(coro)
                    if off == 0 and exc is not None:
                        out.fail({"kind": "rid", "op": op, "offset": off}, repr(exc), "accepted (the agent echoed the id it was sent)")
                    if off != 0 and not isinstance(exc, InvalidResponseId):
                        out.fail({"kind": "rid", "op": op, "offset": off}, repr(res or exc), "InvalidResponseId")
        finally:
            raw.get_request_id = saved
        # ---- community and version of the response: anything but the client's own is refused
        class Answers(agent.CommunityAgent):
            """conformant agent whose REPLY carries another community string / version field"""
            reply_community, reply_version = None, None

            def respond(self, data):
                good = super().respond(data)
                msg = ber.decode_all(good)
                ver, comm, pdu = msg[2]
                if self.reply_community is not None:
                    comm = ("bytes", ber.OCTETS, self.reply_community)
                if self.reply_version is not None:
                    ver = ("int", ber.INT, self.reply_version)
                return ber.encode(("seq", ber.SEQ, [ver, comm, pdu]))
        for creds_cls, version in ((V2C, 1), (V1, 0)):
            for comm in (b"other", b"public\xff", b"\x80public", b"pub\xfflic", b"publi", b"publicc", b"", b"PUBLIC", b"public\x00"):
                ag = Answers(OPS_DB, version=version)
                ag.reply_community = comm
                out.case(("community", version, comm))
                res, exc = attempt(Client("127.0.0.1", creds_cls("public"), sender=ag).get(OID("1.3.1.1.0")))
                if exc is None:
                    out.fail({"kind": "community", "version": version, "reply_community": comm.hex()}, repr(res), "refused (another community string)")
            for other in (1 - version, 2, 3):
                ag = Answers(OPS_DB, version=version)
                ag.reply_version = other
                out.case(("version", version, other))
                res, exc = attempt(Client("127.0.0.1", creds_cls("public"), sender=ag).get(OID("1.3.1.1.0")))
                if exc is None:
                    out.fail({"kind": "version", "client": version, "reply_version": other}, repr(res), "refused (another protocol version)")
    # ---- C08: error-status x error-index
    if part in (None, "C08"):
        table = {getattr(E, n).IDENTIFIER: getattr(E, n) for n in dir(E) if isinstance(getattr(E, n), type)
                 and issubclass(getattr(E, n), ErrorResponse) and getattr(E, n) is not ErrorResponse}
        for status in list(range(1, 20)) + [255, 65536, -1, -128]:
            for index in (0, 1, 2, 3, 7, -1):
                for op in ("multiget", "multiset", "bulkget"):
                    out.case(("err", status, index, op))
                    ok, detail = err_case(status, index, op, 2)
                    if not ok:
                        out.fail({"kind": "err", "status": status, "index": index, "op": op, "k": 2}, detail["got"], detail["required"])
    # ---- C15: pythonic wrapper
    if part in (None, "C15"):
        from datetime import timedelta
        from ipaddress import IPv4Address
        from puresnmp.util import BulkResult

        def builtin(v):
            if v is None or type(v) in (str, int, bytes, timedelta, IPv4Address, bool):
                return True
            if isinstance(v, (list, tuple)):
                return all(builtin(x) for x in v)
            if isinstance(v, dict):
                return all(builtin(k) and builtin(x) for k, x in v.items())
            if isinstance(v, BulkResult):
                return builtin(v.scalars) and builtin(v.listing)
            return False
        ag = Scripted(OPS_DB)
        w = PyWrapper(client(ag))
        o = "1.3.1.1.0"
        calls = {"get": lambda: w.get(o), "getnext": lambda: w.getnext(o), "multiget": lambda: w.multiget([o, "1.3.1.3.0", "1.3.1.4.0"]),
                 "set": lambda: w.set(o, Integer(3)), "multiset": lambda: w.multiset({o: Integer(3)}),
                 "walk": lambda: collect(w.walk("1.3.1")), "multiwalk": lambda: collect(w.multiwalk(["1.3.1"])),
                 "bulkwalk": lambda: collect(w.bulkwalk(["1.3.1"], 3)), "bulkget": lambda: w.bulkget(["1.3.1.1"], ["1.3.1.2"], 3),
                 "table": lambda: w.table("1.3.1"), "bulktable": lambda: w.bulktable("1.3")}
        # LARGE: long lists, walks and tables past ten rows and past the two-digit index boundary
        big = [otext(present[(5 * i) % len(present)]) for i in range(40)]
        calls.update({"multiget-40": lambda: w.multiget(big), "multiget-11": lambda: w.multiget(big[:11]),
                      "multiset-12": lambda: w.multiset({o_: Integer(1) for o_ in big[:12]})})
        for name, mk in calls.items():
            out.case(("py", name))
            res, exc = attempt(mk())
            if exc is not None or not builtin(res):
                out.fail({"kind": "pythonic", "op": name}, repr(res or exc), "only built-in types (dictionary keys included)")


async def collect(agen):
    return [x async for x in agen]


# ============================================================================ types (C17)

def suite_types(out, tier, seed):
    from datetime import timedelta
    from ipaddress import IPv4Address
    from puresnmp.types import Counter, Counter64, TimeTicks, IpAddress, Gauge
    from x690 import decode
    rnd = random.Random(seed)
    for bits, cls in ((32, Counter), (64, Counter64)):
        for v in [0, 1, -1, -2 ** 70, -2 ** bits, -2 ** bits - 1, -2 ** bits + 1, -2 ** (bits + 1), 2 ** bits - 1, 2 ** bits, 2 ** bits + 5,
                  2 ** (bits + 32) + 2 ** 32 + 5] + [rnd.randint(-2 ** 70, 2 ** 140) for _ in range(200)]:
            out.case((cls.__name__, v))
            want = 0 if v <= 0 else v % 2 ** bits
            if cls(v).value != want:
                out.fail({"kind": "counter", "cls": cls.__name__, "v": v}, cls(v).value, want)
    n_dense = 20000 if tier == "quick" else 400000
    for n in itertools.chain(range(n_dense), (rnd.randrange(2 ** 32) for _ in range(2000)), [2 ** 32 - 1]):
        out.case(("ticks", n))
        if TimeTicks(timedelta(microseconds=n * 10000)).value != n:
            out.fail({"kind": "ticks-from-timedelta", "n": n}, TimeTicks(timedelta(microseconds=n * 10000)).value, n)
            break
        if TimeTicks(n).pythonize() != timedelta(microseconds=n * 10000):
            out.fail({"kind": "ticks-to-timedelta", "n": n}, str(TimeTicks(n).pythonize()), str(timedelta(microseconds=n * 10000)))
            break
    for cls in (Counter, Gauge, TimeTicks, Counter64, Integer):
        top = 2 ** 64 if cls is Counter64 else 2 ** 32
        vals = [0, 1, 127, 128, 255, 256, 2 ** 31 - 1, 2 ** 31, top - 1] + ([-1, -128, -129, -2 ** 31] if cls is Integer else [])
        for v in vals:
            out.case(("roundtrip", cls.__name__, v))
            back, _ = decode(bytes(cls(v)))
            if type(back) is not cls or back.value != v:
                out.fail({"kind": "roundtrip", "cls": cls.__name__, "v": v}, repr(back), v)
    for ip in [0, 1, 2 ** 32 - 1, 0xC0000201] + [rnd.randrange(2 ** 32) for _ in range(300)]:
        out.case(("ip", ip))
        back, _ = decode(bytes(IpAddress(IPv4Address(ip))))
        if back.value != IPv4Address(ip):
            out.fail({"kind": "ip", "ip": ip}, str(back.value), str(IPv4Address(ip)))


SUITES.update({"ops": suite_ops, "ops-C04": lambda o, t, s: suite_ops(o, t, s, "C04"), "ops-C07": lambda o, t, s: suite_ops(o, t, s, "C07"),
               "ops-C08": lambda o, t, s: suite_ops(o, t, s, "C08"), "ops-C15": lambda o, t, s: suite_ops(o, t, s, "C15"),
               "types": suite_types})



# ============================================================================ malformed (C20): mutation sweep with a resource budget

def suite_malformed(out, tier, seed):
    """Every truncation, single-bit flips and byte substitutions at TLV header positions of valid v2c/v3 responses and
    discovery replies: processing must end (result or exception) within a CPU/memory budget, and the SAME client must
    then complete a valid request."""
    rnd = random.Random(seed)
    db = [((1, 3, 1, i, 0), ("int", ber.INT, i)) for i in range(1, 4)]

    def header_positions(data):
        pos, out_ = [], []
        stack = [(0, len(data))]
        while stack:
            a, b = stack.pop()
            p = a
            while p < b:
                try:
                    tag = data[p]
                    ln, start = ber.dec_len(data, p + 1)
                except Exception:
                    break
                out_.extend(range(p, start))
                if tag & 0x20 or (tag == 0x04 and ln >= 2 and data[start:start + 1] == b"\x30"):
                    # constructed values, and octet strings that wrap a sequence (the USM security parameters)
                    stack.append((start, min(start + ln, b)))
                p = start + ln
        return sorted(set(out_))

    def mutants(data):
        hp = header_positions(data)
        ms = []
        for cut in range(0, len(data)):
            ms.append(("truncate", cut, data[:cut]))
        for p in hp:
            for val in (0x80, 0x81, 0x82, 0x84, 0xff, 0x00, 0x7f, 0x30, 0x04):
                ms.append(("subst", (p, val), data[:p] + bytes([val]) + data[p + 1:]))
            for bit in range(8):
                ms.append(("flip", (p, bit), data[:p] + bytes([data[p] ^ (1 << bit)]) + data[p + 1:]))
        for _ in range(20):
            ms.append(("random", None, bytes(rnd.randrange(256) for _ in range(rnd.randint(0, 60)))))
        # type confusion: an INTEGER sent where an OCTET STRING belongs and the other way round (a datagram that still decodes)
        confusion = [("subst", (p, v), data[:p] + bytes([v]) + data[p + 1:])
                     for p in hp if data[p] in (0x02, 0x04) for v in ({0x02: (0x04, 0x43, 0x41), 0x04: (0x02, 0x44)}[data[p]])]
        if tier == "quick":
            rnd.shuffle(ms)
            ms = ms[:40] + confusion
        return ms

    def d15_pattern(data, a=0, b=None, depth=0):
        """x690's walk meets a length octet 0x80 with no 00 00 at or after the value's index (finding D15)"""
        b = len(data) if b is None else b
        p = a
        while p + 1 < b and depth < 8:
            tag, l0 = data[p], data[p + 1]
            if l0 == 0x80:
                return data.find(b"\x00\x00", p) == -1 or True
            if l0 < 0x80:
                ln, start = l0, p + 2
            else:
                k = l0 & 0x7F
                ln, start = int.from_bytes(data[p + 2:p + 2 + k], "big"), p + 2 + k
            if (tag & 0x20 or tag == 0x04) and d15_pattern(data, start, min(start + ln, b), depth + 1):
                return True
            if start + ln <= p:
                return False
            p = start + ln
        return False
    configs = [("v2c", None), ("v3", None), ("v3", ("md5", b"authpass1")), ("v3-discovery", None)]
    for cfg, auth in configs:
        if cfg == "v2c":
            base_agent = agent.CommunityAgent(db)
            creds = V2C("public")
        else:
            base_agent = agent.V3Agent(db, auth=auth)
            creds = V3("user", Auth(auth[1], auth[0]) if auth else None)
        # one authentic exchange to obtain the bytes to mutate
        cap = {}

        async def tap(endpoint, data, timeout=1, loop=None, retries=10):
            reply = await base_agent(endpoint, data)
            is_disco = cfg.startswith("v3") and ber.parse_v3_message(data)["user"] == b""
            cap.setdefault("discovery" if is_disco else "response", reply)
            return reply
        try:
            run(Client("127.0.0.1", creds, sender=tap).get(OID("1.3.1.1.0")))
        except Exception as e:  # noqa
            out.fail({"kind": "malformed", "config": cfg, "auth": bool(auth), "mutation": "none (the authentic exchange itself)"},
                     "a valid request fails: %s: %s" % (type(e).__name__, e), "the agent's answer")
            continue
        target = "discovery" if cfg == "v3-discovery" else "response"
        for kind, where, mutated in mutants(cap[target]):
            state = {"armed": True}

            async def sender(endpoint, data, timeout=1, loop=None, retries=10, mutated=mutated, state=state):
                reply = await base_agent(endpoint, data)
                is_disco = cfg.startswith("v3") and ber.parse_v3_message(data)["user"] == b""
                if state["armed"] and (("discovery" if is_disco else "response") == target):
                    state["armed"] = False
                    return mutated
                return reply
            c = Client("127.0.0.1", creds, sender=sender)
            out.case((cfg, kind, str(where)))
            scen = {"kind": "malformed", "config": cfg, "auth": bool(auth), "mutation": kind, "where": where, "datagram": mutated.hex()}
            indefinite = d15_pattern(mutated)
            t0 = time.process_time()
            arm(2)
            try:
                try:
                    run(c.get(OID("1.3.1.1.0")))
                except TimeoutError:
                    out.fail(scen, "no end within 2 s of CPU/wall time", "a result or an exception within the budget",
                             finding="D15" if indefinite else None)
                    continue
                except MemoryError:
                    out.fail(scen, "memory budget exceeded", "bounded memory", finding="D15" if indefinite else None)
                    continue
                except Exception:
                    pass
            finally:
                disarm()
            if time.process_time() - t0 > 1.0:
                out.fail(scen, "%.1f s CPU" % (time.process_time() - t0), "time bounded by a small multiple of the datagram size")
            # the same client must be usable for the next (valid) request
            arm(2)
            try:
                got = run(c.get(OID("1.3.1.2.0")))
                if got.value != 2:
                    out.fail(scen, "follow-up request returned %r" % (got,), "Integer(2)")
            except TimeoutError:
                out.fail(scen, "follow-up request hangs", "the client is usable for the next request", finding="D15" if indefinite else None)
            except Exception as e:  # noqa
                out.fail(scen, "follow-up request failed: %s: %s" % (type(e).__name__, e), "the client is usable for the next request")
            finally:
                disarm()


        # ---- LARGE: a run of bad datagrams on ONE client (a resource taken per exchange and given back only on success runs
        #      out after a few), then a valid exchange
        for nbad in (5, 12, 40):
            ms = [m for m in mutants(cap[target]) if m[0] in ("truncate", "subst")]
            rnd.shuffle(ms)
            queue = [m[2] for m in ms[:nbad]]
            state = {"left": list(queue)}

            async def sender_run(endpoint, data, timeout=1, loop=None, retries=10, state=state):
                reply = await base_agent(endpoint, data)
                is_disco = cfg.startswith("v3") and ber.parse_v3_message(data)["user"] == b""
                if state["left"] and (("discovery" if is_disco else "response") == target):
                    return state["left"].pop()
                return reply
            c = Client("127.0.0.1", creds, sender=sender_run)
            out.case((cfg, "run-of-bad-datagrams", nbad))
            scen = {"kind": "malformed-run", "config": cfg, "auth": bool(auth), "bad_datagrams": nbad}
            hung = False
            for _i in range(nbad):
                nxt = state["left"][-1] if state["left"] else b""
                arm(2)
                try:
                    run(c.get(OID("1.3.1.1.0")))
                except TimeoutError:
                    hung = True
                    if not d15_pattern(nxt):          # (a single datagram that hangs by itself is reported by the sweep above)
                        out.fail(scen, "the request after %d refused datagrams hangs" % _i, "the client is usable for the next request")
                    break
                except Exception:
                    pass
                finally:
                    disarm()
            if hung:
                continue
            state["left"] = []
            arm(3)
            try:
                got = run(c.get(OID("1.3.1.2.0")))
                if got.value != 2:
                    out.fail(scen, "follow-up request returned %r" % (got,), "Integer(2)")
            except TimeoutError:
                out.fail(scen, "the request after %d refused datagrams hangs" % nbad, "the client is usable for the next request")
            except Exception as e:  # noqa
                out.fail(scen, "the request after %d refused datagrams failed: %s: %s" % (nbad, type(e).__name__, e),
                         "the client is usable for the next request")
            finally:
                disarm()
    # ---- LARGE: valid datagrams with many bindings: time stays proportional to the size
    for nvb in (50, 400, 1500):
        bigdb = [((1, 3, 7, i), ("int", ber.INT, i)) for i in range(1, nvb + 1)]
        ag = agent.CommunityAgent(bigdb)
        c = Client("127.0.0.1", V2C("public"), sender=ag)
        out.case(("many-bindings", nvb))
        t0 = time.process_time()
        arm(6)
        try:
            res = run(c.multiget([OID(otext(o)) for o, _ in bigdb]))
            cpu = time.process_time() - t0
            if [v.value for v in res] != list(range(1, nvb + 1)):
                out.fail({"kind": "many-bindings", "bindings": nvb}, "wrong values", "the agent's values")
            elif cpu > 0.001 * nvb + 0.3:
                out.fail({"kind": "many-bindings", "bindings": nvb}, "%.2f s CPU" % cpu, "time bounded by a small multiple of the datagram size")
        except TimeoutError:
            out.fail({"kind": "many-bindings", "bindings": nvb}, "no end within 6 s", "time bounded by a small multiple of the datagram size")
        except Exception as e:  # noqa
            out.fail({"kind": "many-bindings", "bindings": nvb}, "%s: %s" % (type(e).__name__, e), "the agent's values")
        finally:
            disarm()


SUITES["malformed"] = suite_malformed



# ============================================================================ faulty walks (C03)

def suite_faulty(out, tier, seed):
    rnd = random.Random(seed)
    universe = [(1, 3, a, b) for a in (1, 2, 3) for b in (1, 2, 3, 4)]
    n = 150 if tier == "quick" else 3000
    for _ in range(n):
        behaviour = {q: rnd.choice(universe + [None]) for q in universe + [(1, 3, 1), (1, 3, 2), (1, 3, 3)]}
        kind = rnd.choice(["random", "echo", "smaller", "cycle"])
        roots = rnd.sample([(1, 3, 1), (1, 3, 2), (1, 3, 3)], rnd.choice([1, 1, 2]))
        bulk = rnd.choice([None, 1, 2, 3])
        errors = rnd.choice(["strict", "warn"])
        requested, revealed, reqs = [], set(), [0]

        def misbehave(pdu, vbs, behaviour=behaviour, kind=kind):
            reqs[0] += 1
            if reqs[0] > 300:
                raise RuntimeError("runaway: more than 300 requests")
            qs = [tuple(o) for o, _ in pdu["varbinds"]]
            requested.append(qs)
            m = max(pdu["f2"], 1) if pdu["tag"] == ber.GETBULK else 1
            outv = []
            cur = list(qs)
            for j in range(m):
                for i, q in enumerate(cur):
                    if kind == "echo":
                        nx = q
                    elif kind == "smaller":
                        nx = (1, 3, 0, 1) if rnd.random() < 0.5 else q[:3] + (max(q[3] - 1, 0),) if len(q) > 3 else q
                    elif kind == "cycle":
                        nx = universe[(universe.index(q) + 1) % 3] if q in universe else universe[0]
                    else:
                        nx = behaviour.get(q, None)
                    if nx is None:
                        outv.append((q, agent.END))
                    else:
                        outv.append((nx, ("int", ber.INT, 1)))
                        revealed.add(nx)
                        cur[i] = nx
            return outv
        ag = agent.CommunityAgent([], misbehave=misbehave)
        c = Client("127.0.0.1", V2C("public"), sender=ag)

        async def go():
            res = []
            fetcher = c._bulkwalk_fetcher(bulk) if bulk else None
            async for vb in c.multiwalk([OID(otext(r)) for r in roots], fetcher=fetcher, errors=errors):
                res.append(vb)
            return res
        out.case((kind, tuple(roots), bulk, errors, tuple(sorted((k, v) for k, v in behaviour.items() if v))[:6]))
        scen = {"kind": "faulty-walk", "agent": kind, "roots": roots, "bulk": bulk, "errors": errors,
                "behaviour": [[list(k), list(v) if v else None] for k, v in behaviour.items()]}
        try:
            run(go())
            exc = None
        except Exception as e:  # noqa
            exc = e
        cont = [q for qs in requested[1:] for q in qs]
        if isinstance(exc, RuntimeError) and "runaway" in str(exc):
            out.fail(scen, "still requesting after 300 requests", "bounded number of requests")
        elif len(cont) != len(set(cont)) or any(q in requested[0] for q in cont):
            out.fail(scen, "asked again for an OID it had continued from: %r" % (requested,), "never re-requests")
        elif reqs[0] > 1 + len(revealed):
            out.fail(scen, "%d requests for %d revealed instances" % (reqs[0], len(revealed)), "requests <= 1 + revealed instances")
        elif errors == "warn" and isinstance(exc, FaultySNMPImplementation):
            out.fail(scen, "lenient mode raised FaultySNMPImplementation", "ends normally in lenient mode")


    # ---- LARGE: sub-identifiers across the boundaries of their base-128 encoding; an agent stepping BACK across one
    for hi in (128, 16384, 2 ** 21, 2 ** 28, 2 ** 32 - 1, 300):
        for bulk in (None, 1, 2):
            for errors in ("strict", "warn"):
                reqs = []

                def back(pdu, vbs, hi=hi):
                    qs = [tuple(o) for o, _ in pdu["varbinds"]]
                    reqs.append(qs)
                    q = qs[0]
                    m = max(pdu["f2"], 1) if pdu["tag"] == ber.GETBULK else 1
                    if q == (1, 3, 9):
                        nx = (1, 3, 9, hi)          # a first instance
                    else:
                        nx = (1, 3, 9, q[3] - 1)    # ... then backwards
                    return [(nx, ("int", ber.INT, 1))] * 1 + [((1, 3, 9, nx[3] - 1 - j), ("int", ber.INT, 1)) for j in range(m - 1)]
                ag = agent.CommunityAgent([], misbehave=back)
                c = Client("127.0.0.1", V2C("public"), sender=ag)

                async def go2(c=c, bulk=bulk, errors=errors):
                    fetcher = c._bulkwalk_fetcher(bulk) if bulk else None
                    return [vb async for vb in c.multiwalk([OID("1.3.9")], fetcher=fetcher, errors=errors)]
                out.case(("backwards", hi, bulk, errors))
                scen = {"kind": "faulty-walk-backwards", "first_instance_arc": hi, "bulk": bulk, "errors": errors}
                arm(5)
                try:
                    run(go2())
                    exc = None
                except TimeoutError:
                    out.fail(scen, "no end within 5 s", "the walk ends")
                    continue
                except Exception as e:  # noqa
                    exc = e
                finally:
                    disarm()
                # the answer to the second request does not advance beyond the OID the walk continued from (within one GETBULK
                # column only the OID the walk would continue from is compared: DESIGN 0.8)
                limit = 2
                if len(reqs) > limit:
                    out.fail(scen, "%d requests; the agent stepped back from arc %d" % (len(reqs), hi),
                             "the walk ends with the non-advancing answer (%d requests)" % limit)
                elif errors == "strict" and not isinstance(exc, FaultySNMPImplementation):
                    out.fail(scen, repr(exc), "FaultySNMPImplementation")
                elif errors == "warn" and exc is not None:
                    out.fail(scen, repr(exc), "ends normally in lenient mode")


    # ---- LARGE: many roots; the agent answers the first request properly and then echoes
    for nroots in (4, 5, 8, 12):
        for bulk in (None, 2):
            for errors in ("strict", "warn"):
                reqs = []
                roots = [(1, 3, 20 + i) for i in range(nroots)]

                def echo_later(pdu, vbs):
                    qs = [tuple(o) for o, _ in pdu["varbinds"]]
                    reqs.append(qs)
                    m = max(pdu["f2"], 1) if pdu["tag"] == ber.GETBULK else 1
                    if len(reqs) > 50:
                        raise RuntimeError("runaway")
                    return [((q + (1,)) if len(q) == 3 else q, ("int", ber.INT, 1)) for _ in range(m) for q in qs]
                ag = agent.CommunityAgent([], misbehave=echo_later)
                c = Client("127.0.0.1", V2C("public"), sender=ag)

                async def go3(c=c, bulk=bulk, errors=errors, roots=roots):
                    fetcher = c._bulkwalk_fetcher(bulk) if bulk else None
                    return [vb async for vb in c.multiwalk([OID(otext(r)) for r in roots], fetcher=fetcher, errors=errors)]
                out.case(("many-roots-echo", nroots, bulk, errors))
                scen = {"kind": "faulty-walk-many-roots", "roots": nroots, "bulk": bulk, "errors": errors}
                try:
                    got = run(go3())
                    exc = None
                except Exception as e:  # noqa
                    got, exc = None, e
                if errors == "strict" and not isinstance(exc, FaultySNMPImplementation):
                    out.fail(scen, repr(exc) if exc else "ended normally with %d instances" % len(got), "FaultySNMPImplementation")
                elif errors == "warn" and exc is not None:
                    out.fail(scen, repr(exc), "ends normally in lenient mode")
                elif len(reqs) > 2 * nroots:
                    out.fail(scen, "%d requests" % len(reqs), "bounded by the instances revealed")


# ============================================================================ interop (C10 C11 C12)

def suite_interop(out, tier, seed, part=None):
    sys.path.insert(0, os.path.join(HERE, "standins", "plugins"))
    import puresnmp_plugins.priv.refstream as refstream
    rnd = random.Random(seed)
    combos = [("md5", None), ("sha1", None), ("md5", b"privpass1"), ("sha1", b"privpass22"), (None, None)]
    sizes = list(range(60, 160, 7)) + [79, 80, 98, 99, 100] if tier == "quick" else list(range(1, 320))
    for hashname, privpw in combos:
        for plen in ([8, 299] if tier == "quick" else [1, 2, 3, 5, 7, 8, 9, 13, 64, 255, 256, 299, 300]):
            if hashname is None and plen != 8:
                continue
            pw = bytes((i * 31 + 7) % 251 + 1 for i in range(plen))
            eid = bytes(rnd.randrange(256) for _ in range(rnd.randint(5, 32)))
            if plen == 8:
                # engine ids as RFC 3411 builds them from addresses or padded text: long runs of zero octets
                eid = bytes([0x80, 0x00, 0x1f, 0x88, 0x02]) + bytes(16)
            clock = {"t": 1000}
            payload_size = rnd.choice(sizes)
            if plen == 299:
                # LARGE: the longest engine id RFC 3411 allows, a scoped PDU beyond the one-octet and the 0x81 length forms
                eid = bytes([0x80, 0x00, 0x1f, 0x88, 0x05]) + bytes((7 * i + 3) % 256 for i in range(27))
                payload_size = rnd.choice([200, 300, 700, 1400])
            db = [((1, 3, 6, 1, 2, 1, 1, 1, 0), ("bytes", ber.OCTETS, bytes(payload_size))), ((1, 3, 6, 1, 2, 1, 1, 2, 0), ("int", ber.INT, 5))]
            ag = agent.V3Agent(db, auth=(hashname, pw) if hashname else None, priv=privpw, engine_id=eid, clock=lambda: clock["t"])
            creds = V3("user", Auth(pw, hashname) if hashname else None, Priv(privpw, "refstream") if privpw else None)
            c = Client("127.0.0.1", creds, sender=ag)
            out.case((hashname, bool(privpw), plen, payload_size))
            scen = {"kind": "interop", "hash": hashname, "priv": bool(privpw), "password_len": plen, "engine_id": eid.hex(),
                    "payload_size": payload_size}
            ops = [("get", lambda: c.get(OID("1.3.6.1.2.1.1.1.0"))), ("getnext", lambda: c.getnext(OID("1.3.6.1.2.1.1.1.0"))),
                   ("set", lambda: c.set(OID("1.3.6.1.2.1.1.2.0"), Integer(9))), ("bulkget", lambda: c.bulkget([], [OID("1.3.6.1.2.1.1")], 2))]
            for name, mk in ops:
                before = dict(ag.stats)
                n_before = len(ag.parsed)
                try:
                    run(mk())
                    exc = None
                except Exception as e:  # noqa
                    exc = e
                reqs = [p for p in ag.parsed[n_before:] if p["user"] != b""]
                probes = len([p for p in ag.parsed[n_before:] if p["user"] == b""])
                # (a discovery probe is answered with an unknownEngineIDs report: that one is not a refusal)
                bad_stats = {k: v - before[k] for k, v in ag.stats.items()
                             if v != before[k] and not (k == "unknownEngineIDs" and v - before[k] <= probes)}
                want_flags = 4 | (2 if privpw else 0) | (1 if hashname else 0)
                if part in (None, "C10", "C05"):
                    if bad_stats:
                        out.fail(dict(scen, op=name), "agent refused the request: %r" % bad_stats, "accepted by an independent RFC 3414 engine")
                    elif any(p["flags"] != want_flags for p in reqs):
                        out.fail(dict(scen, op=name), "msgFlags %r" % [p["flags"] for p in reqs], "msgFlags %d" % want_flags)
                    elif exc is not None and part != "C05":
                        # (C05 speaks about the datagrams the client EMITS: what it does with the answer is C10 / C06)
                        # authentic minimal-BER response rejected: the known pattern is a re-encoded length of exactly 127
                        fid = "D9" if type(exc).__name__ == "AuthenticationError" else None
                        out.fail(dict(scen, op=name), "response rejected: %s: %s" % (type(exc).__name__, exc),
                                 "authentic response accepted", finding=fid)
                if part in (None, "C11") and privpw and not bad_stats and exc is not None and type(exc).__name__ != "AuthenticationError":
                    # the answer of a peer that encrypts with the same plug-in and key must be read back (an authentication
                    # failure is C10's and C06's subject: finding D9)
                    out.fail(dict(scen, op=name), "encrypted response not read back: %s: %s" % (type(exc).__name__, exc),
                             "the peer's encrypted response is decrypted and returned")
                if part in (None, "C11") and privpw and bad_stats:
                    out.fail(dict(scen, op=name), "the peer could not read the encrypted request: %r" % bad_stats,
                             "decryptable with the privacy key localised for the peer's engine")
                if part in (None, "C11") and privpw and reqs:
                    clear = ber.encode(("bytes", ber.OCTETS, bytes(payload_size))) if False else None
                    raw = ag.datagrams[-1]
                    if b"\x2b\x06\x01\x02\x01\x01" in raw:
                        out.fail(dict(scen, op=name), "an OID of the scoped PDU is visible in the datagram", "only ciphertext travels")
            if part in (None, "C10", "C05") and hashname:
                # the same user and passwords at ANOTHER engine, in the same process (keys are localised per engine)
                eid2 = bytes([0x80, 0x00, 0x1f, 0x88, 0x04]) + b"second-engine-%d" % plen
                ag2 = agent.V3Agent(db, auth=(hashname, pw), priv=privpw, engine_id=eid2, clock=lambda: 77)
                c2 = Client("127.0.0.1", creds, sender=ag2)
                out.case((hashname, bool(privpw), plen, "second engine"))
                try:
                    run(c2.get(OID("1.3.6.1.2.1.1.2.0")))
                    exc2 = None
                except Exception as e:  # noqa
                    exc2 = e
                bad2 = {k: v for k, v in ag2.stats.items() if v and not (k == "unknownEngineIDs" and v <= 1)}
                if bad2:
                    out.fail(dict(scen, op="get at a second engine", engine_id=eid2.hex()), "agent refused the request: %r" % bad2,
                             "accepted by an independent RFC 3414 engine")
                elif exc2 is not None and part != "C05":
                    out.fail(dict(scen, op="get at a second engine", engine_id=eid2.hex()), "response rejected: %s: %s" % (type(exc2).__name__, exc2),
                             "authentic response accepted", finding="D9" if type(exc2).__name__ == "AuthenticationError" else None)
            if part in (None, "C12") and hashname:
                # agent time advances: a request that succeeded right after discovery must succeed any time later
                for adv in (10, 149, 151, 100000):
                    clock["t"] = 1000 + adv
                    out.case((hashname, "advance", adv))
                    try:
                        run(c.get(OID("1.3.6.1.2.1.1.2.0")))
                    except Exception as e:  # noqa
                        out.fail(dict(scen, advance=adv), "%s: %s" % (type(e).__name__, e), "request accepted (engine time within the window)",
                                 finding="D10" if adv > 150 else None)
                        break


SUITES.update({"faulty": suite_faulty, "interop": suite_interop, "interop-C10": lambda o, t, s: suite_interop(o, t, s, "C10"),
               "interop-C05": lambda o, t, s: suite_interop(o, t, s, "C05"),
               "interop-C11": lambda o, t, s: suite_interop(o, t, s, "C11"), "interop-C12": lambda o, t, s: suite_interop(o, t, s, "C12")})



# ============================================================================ udp (C13): real loopback sockets

def suite_udp(out, tier, seed):
    import socket
    from puresnmp.transport import send_udp, Endpoint
    from puresnmp.exc import Timeout
    from ipaddress import ip_address
    rnd = random.Random(seed)

    def nfd():
        return len(os.listdir("/proc/self/fd"))
    outcomes = ["reply", "drop", "late", "double", "empty"]
    plans = [p for r in (1, 2, 3) for p in itertools.product(outcomes, repeat=r)]
    if tier == "quick":
        rnd.shuffle(plans)
        plans = plans[:10] + [("empty",), ("drop", "empty")]
    T = 0.3

    async def one(plan, retries, closed_port=False):
        loop = asyncio.get_running_loop()
        got = []

        class Server(asyncio.DatagramProtocol):
            def connection_made(self, tr):
                self.tr = tr

            def datagram_received(self, data, addr):
                got.append(data)
                k = len(got) - 1
                what = plan[k] if k < len(plan) else "drop"
                if what == "reply":
                    self.tr.sendto(b"reply-%d" % k, addr)
                elif what == "empty":
                    # a zero-length datagram is a reply too (asyncio's sendto() drops empty payloads: use the socket)
                    self.tr._sock.sendto(b"", addr)
                elif what == "double":
                    self.tr.sendto(b"reply-%d" % k, addr)
                    self.tr.sendto(b"second-%d" % k, addr)
                elif what == "late":
                    loop.call_later(T * 1.6, lambda: self.tr.sendto(b"late-%d" % k, addr) if not self.tr.is_closing() else None)
        if closed_port:
            s = socket.socket(socket.AF_INET, socket.SOCK_DGRAM)
            s.bind(("127.0.0.1", 0))
            port = s.getsockname()[1]
            s.close()
            srv = None
        else:
            srv, _ = await loop.create_datagram_endpoint(Server, local_addr=("127.0.0.1", 0))
            port = srv.get_extra_info("sockname")[1]
        base = nfd()
        t0 = loop.time()
        try:
            res = await send_udp(Endpoint(ip_address("127.0.0.1"), port), b"request-bytes", timeout=T, retries=retries)
            exc = None
        except (Exception, asyncio.CancelledError) as e:  # noqa  (a cancelled future leaks out as CancelledError)
            res, exc = None, e
        elapsed = loop.time() - t0
        await asyncio.sleep(T * 2)
        leaked = nfd() - base
        if srv:
            srv.close()
        return res, exc, elapsed, got, leaked
    for plan in plans:
        retries = len(plan)
        out.case(("udp", plan, retries))
        res, exc, elapsed, got, leaked = run(one(plan, retries))
        scen = {"kind": "udp", "plan": list(plan), "retries": retries, "timeout": T}
        first = next((i for i, w in enumerate(plan) if w in ("reply", "double", "empty")), None)
        if leaked > 0:
            out.fail(scen, "%d descriptor(s) still open" % leaked, "no socket left open")
        if any(d != b"request-bytes" for d in got) or len(got) > retries:
            out.fail(scen, "datagrams sent: %r" % got, "at most `retries` identical requests")
        if first is not None:
            if exc is not None or res != (b"" if plan[first] == "empty" else b"reply-%d" % first):
                out.fail(scen, repr(res or exc), "the first reply's bytes (attempt %d)" % first)
        else:
            if not isinstance(exc, Timeout) or len(got) != retries or not (retries * T * 0.9 <= elapsed <= retries * T * 3 + 1.0):
                out.fail(scen, "%r after %.2fs and %d datagrams" % (exc, elapsed, len(got)), "Timeout after exactly %d attempts of %.2fs" % (retries, T))
    out.case(("udp", "icmp"))
    res, exc, elapsed, got, leaked = run(one((), 2, closed_port=True))
    if leaked > 0:
        out.fail({"kind": "udp", "plan": ["icmp"], "retries": 2}, "%d descriptor(s) still open after %r" % (leaked, exc), "no socket left open")
    if isinstance(exc, Timeout) and elapsed < 2 * T * 0.9:
        # a rejected datagram is not an unanswered attempt: Timeout means `retries` attempts of `timeout` seconds each
        out.fail({"kind": "udp", "plan": ["icmp"], "retries": 2}, "Timeout after %.2fs" % elapsed,
                 "the OS error of the attempt, or Timeout only after 2 x %.2fs" % T)


    # ---- LARGE / exact: the same under VIRTUAL time (an event loop whose clock jumps to the next timer) with a scripted endpoint
    #      handed to send_udp as its `loop` argument: the time-out instants are compared exactly, for retries up to 6
    import heapq

    class VLoop(asyncio.SelectorEventLoop):
        def __init__(self):
            super().__init__()
            self._vt = 0.0

        def time(self):
            return self._vt

        def _run_once(self):
            while self._scheduled and self._scheduled[0]._cancelled:
                h = heapq.heappop(self._scheduled)
                h._scheduled = False
            if not self._ready and self._scheduled and self._scheduled[0]._when > self._vt:
                self._vt = self._scheduled[0]._when
            super()._run_once()

    class FakeTransport:
        def __init__(self):
            self.sent, self.closed = [], False

        def sendto(self, data, addr=None):
            self.sent.append(bytes(data))

        def close(self):
            self.closed = True

        def abort(self):
            self.closed = True

        def is_closing(self):
            return self.closed

        def get_extra_info(self, name, default=None):
            return default

    def virtual(plan, retries, timeout):
        vloop = VLoop()
        transports = []

        class Proxy:
            async def create_datagram_endpoint(self, factory, remote_addr=None, **kw):
                k = len(transports)
                tr = FakeTransport()
                transports.append(tr)
                proto = factory()
                proto.connection_made(tr)
                what = plan[k] if k < len(plan) else "drop"
                addr = ("127.0.0.1", 161)
                deliver = lambda payload: (None if tr.closed else proto.datagram_received(payload, addr))      # noqa: E731
                if what == "reply":
                    vloop.call_later(timeout / 4, deliver, b"reply-%d" % k)
                elif what == "double":
                    vloop.call_later(timeout / 4, deliver, b"reply-%d" % k)
                    vloop.call_later(timeout / 3, deliver, b"second-%d" % k)
                elif what == "late":
                    vloop.call_later(timeout * 1.5, deliver, b"late-%d" % k)
                elif what == "icmp":
                    vloop.call_later(timeout / 4, lambda: None if tr.closed else proto.error_received(ConnectionRefusedError("icmp")))
                elif what == "lost":
                    vloop.call_later(timeout / 4, lambda: None if tr.closed else proto.connection_lost(OSError("lost")))
                return tr, proto

        async def go():
            t0 = vloop.time()
            try:
                res, exc = await send_udp(Endpoint(ip_address("127.0.0.1"), 161), b"request-bytes", timeout=timeout, loop=Proxy(), retries=retries), None
            except (Exception, asyncio.CancelledError) as e:  # noqa
                res, exc = None, e
            t1 = vloop.time()
            await asyncio.sleep(timeout * 3)
            return res, exc, t1 - t0
        try:
            asyncio.set_event_loop(vloop)
            return vloop.run_until_complete(go()) + (transports,)
        finally:
            asyncio.set_event_loop(None)
            vloop.close()
    vplans = [tuple(["drop"] * r) for r in range(1, 7)]
    vplans += [p for r in (1, 2, 3, 4) for p in itertools.product(["reply", "drop", "late", "double", "icmp", "lost"], repeat=r)
               if tier != "quick" or rnd.random() < 0.04]
    vplans += [("drop", "drop", "drop", "reply"), ("late", "late", "late", "late"), ("drop", "late", "drop", "drop", "drop", "reply")]
    for plan in vplans:
        for timeout in ((1, 0.25) if tier == "quick" else (1, 0.25, 6, 3)):
            retries = len(plan)
            out.case(("udp-virtual", plan, timeout))
            res, exc, elapsed, transports = virtual(plan, retries, timeout)
            scen = {"kind": "udp-virtual", "plan": list(plan), "retries": retries, "timeout": timeout}
            first = next((i for i, w in enumerate(plan) if w in ("reply", "double", "icmp", "lost")), None)
            sent = [d for t in transports for d in t.sent]
            if any(not t.closed for t in transports):
                out.fail(scen, "%d of %d endpoints never closed" % (len([t for t in transports if not t.closed]), len(transports)), "no socket left open")
            if any(d != b"request-bytes" for d in sent) or len(sent) > retries or any(len(t.sent) != 1 for t in transports):
                out.fail(scen, "datagrams sent: %r" % sent, "at most `retries` identical requests, one per attempt")
            if first is not None and plan[first] in ("reply", "double"):
                want_t = first * timeout + timeout / 4
                if exc is not None or res != b"reply-%d" % first or abs(elapsed - want_t) > 1e-6:
                    out.fail(scen, "%r after %.3f s" % (res or exc, elapsed), "the first reply's bytes (attempt %d) %.3f s after the call" % (first, want_t))
            elif first is not None:
                # an OS error of an attempt: the error itself, at once - or the attempt counts as unanswered for its whole time-out
                if isinstance(exc, Timeout):
                    if abs(elapsed - retries * timeout) > 1e-6 or len(sent) != retries:
                        out.fail(scen, "Timeout after %.3f s and %d datagrams" % (elapsed, len(sent)),
                                 "the OS error of the attempt, or Timeout after exactly %d x %s s" % (retries, timeout))
                elif not isinstance(exc, OSError):
                    out.fail(scen, repr(res or exc), "the OS error of the attempt or Timeout")
            else:
                if not isinstance(exc, Timeout) or len(sent) != retries or abs(elapsed - retries * timeout) > 1e-6:
                    out.fail(scen, "%r after %.3f s and %d datagrams" % (exc, elapsed, len(sent)),
                             "Timeout after exactly %d attempts of %s s (%.3f s)" % (retries, timeout, retries * timeout))


# ============================================================================ concurrent (C14)

def suite_concurrent(out, tier, seed):
    rnd = random.Random(seed)
    db = [((1, 3, 1, a, b), ("int", ber.INT, 10 * a + b)) for a in (1, 2, 3) for b in (1, 2, 3)]
    for cfg in ("v2c", "v3"):
        for trial in range(3 if tier == "quick" else 60):
            base = agent.CommunityAgent(db) if cfg == "v2c" else agent.V3Agent(db, auth=("md5", b"authpass1"), priv=None)
            creds = V2C("public") if cfg == "v2c" else V3("user", Auth(b"authpass1", "md5"))
            pending = []

            async def sender(endpoint, data, timeout=1, loop=None, retries=10):
                fut = asyncio.get_running_loop().create_future()
                pending.append((fut, data))
                return await fut

            async def scheduler(order_rnd):
                idle = 0
                while idle < 50:
                    await asyncio.sleep(0)
                    if not pending:
                        idle += 1
                        continue
                    idle = 0
                    fut, data = pending.pop(order_rnd.randrange(len(pending)))
                    fut.set_result(await base(None, data))
            c = Client("127.0.0.1", creds, sender=sender)
            ops = [("get", (1, 3, 1, 1, 1)), ("get", (1, 3, 1, 2, 2)), ("walk", (1, 3, 1, 1)), ("walk", (1, 3, 1)), ("bulk", (1, 3, 1, 2)),
                   ("set", (1, 3, 1, 3, 3))]
            chosen = [rnd.choice(ops) for _ in range(rnd.randint(2, 5))]

            async def do(op, o):
                if op == "get":
                    return (await c.get(OID(otext(o)))).value
                if op == "set":
                    return (await c.set(OID(otext(o)), Integer(33))).value
                if op == "walk":
                    return [tuple(v.oid.nodes) async for v in c.walk(OID(otext(o)))]
                return [tuple(v.oid.nodes) async for v in c.bulkwalk([OID(otext(o))], 2)]

            def alone(op, o):
                if op in ("get",):
                    return dict(db)[o][2]
                if op == "set":
                    return 33
                return sorted(x for x, _ in db if x[:len(o)] == o and x != o)

            async def main_():
                sch = asyncio.ensure_future(scheduler(random.Random(rnd.random())))
                res = await asyncio.gather(*[do(op, o) for op, o in chosen], return_exceptions=True)
                sch.cancel()
                return res
            out.case((cfg, tuple(chosen), trial))
            res = run(main_())
            for (op, o), r in zip(chosen, res):
                want = alone(op, o)
                if isinstance(r, Exception) or (sorted(r) if isinstance(r, list) else r) != want:
                    out.fail({"kind": "concurrent", "config": cfg, "ops": [[a, list(b)] for a, b in chosen]}, repr(r), want)
                    break


        # ---- LARGE: many operations in flight, several of them refused by the agent, long OID lists answered out of order
        holder = {}
        for trial in range(2 if tier == "quick" else 20):
            def refuse_sets(pdu, vbs):
                if pdu["tag"] == ber.SET and pdu["varbinds"][0][0][-1] == 9:
                    for o_, _v in pdu["varbinds"]:                 # (the reference agent has stored it already: undo)
                        if tuple(o_) in holder["agent"].db.vals:
                            del holder["agent"].db.vals[tuple(o_)]
                            holder["agent"].db.oids.remove(tuple(o_))
                    return (17, 1, list(pdu["varbinds"]))          # notWritable
                return vbs
            base = (agent.CommunityAgent(db, misbehave=refuse_sets) if cfg == "v2c"
                    else agent.V3Agent(db, auth=("md5", b"authpass1"), priv=None, misbehave=refuse_sets))
            holder["agent"] = base
            creds = V2C("public") if cfg == "v2c" else V3("user", Auth(b"authpass1", "md5"))
            pending = []

            async def sender2(endpoint, data, timeout=1, loop=None, retries=10, pending=pending):
                fut = asyncio.get_running_loop().create_future()
                pending.append((fut, data))
                return await fut

            c = Client("127.0.0.1", creds, sender=sender2)
            many = [x for x, _ in db] * 3
            rnd.shuffle(many)

            async def do2(op, o, c=c):
                if op == "get":
                    return (await c.get(OID(otext(o)))).value
                if op == "badset":
                    return (await c.set(OID(otext(o)), Integer(1))).value
                if op == "mget":
                    return [v.value for v in await c.multiget([OID(otext(x)) for x in o])]
                if op == "walk":
                    return [tuple(v.oid.nodes) async for v in c.walk(OID(otext(o)))]
                return [tuple(v.oid.nodes) async for v in c.bulkwalk([OID(otext(o))], 2)]
            chosen = [("badset", (1, 3, 1, 1, 9))] * (3 + 3 * trial) + [("get", (1, 3, 1, 1, 1)), ("walk", (1, 3, 1)), ("mget", tuple(many)),
                                                                      ("bulk", (1, 3, 1, 2)), ("get", (1, 3, 1, 3, 3))]
            rnd.shuffle(chosen)

            async def main2(pending=pending, base=base):
                # (no wall clock: the batch is stuck when, with operations unfinished, no request has been pending for 3000 turns
                #  of the event loop - an operation needs a handful of turns between two of its exchanges)
                order_rnd = random.Random(rnd.random())
                batch = asyncio.ensure_future(asyncio.gather(*[do2(op, o) for op, o in chosen], return_exceptions=True))
                idle = 0
                while not batch.done() and idle < 3000:
                    await asyncio.sleep(0)
                    if not pending:
                        idle += 1
                        continue
                    idle = 0
                    fut, data = pending.pop(order_rnd.randrange(len(pending)))
                    if not fut.done():
                        fut.set_result(await base(None, data))
                if not batch.done():
                    batch.cancel()
                    try:
                        await batch
                    except BaseException:  # noqa
                        pass
                    return None
                return batch.result()
            out.case((cfg, "large", trial))
            res = run(main2())
            scen = {"kind": "concurrent-large", "config": cfg, "ops": [a for a, _ in chosen]}
            if res is None:
                out.fail(scen, "operations still unfinished while no request is pending (3000 idle turns of the event loop)",
                         "every operation completes with the result it has alone")
                continue
            for (op, o), r in zip(chosen, res):
                if op == "badset":
                    ok = isinstance(r, Exception) and type(r).__name__ == "NotWritable"
                    want = "NotWritable"
                elif op == "mget":
                    want = [dict(db)[x][2] for x in o]
                    ok = r == want
                else:
                    want = alone(op, o)
                    ok = not isinstance(r, Exception) and (sorted(r) if isinstance(r, list) else r) == want
                if not ok:
                    out.fail(dict(scen, op=op), repr(r)[:200], want if not isinstance(want, list) else "%d values in request order" % len(want))
                    break


# ============================================================================ tables (C16)

def suite_tables(out, tier, seed):
    rnd = random.Random(seed)
    for _ in range(60 if tier == "quick" else 1500):
        ncol, nrow, kidx = rnd.randint(1, 3), rnd.randint(0, 4), rnd.randint(1, 2)
        table = (1, 3, 6, 5, rnd.randint(1, 3))
        entry = table + (1,)
        idxs = sorted({tuple(rnd.randint(1, 3) for _ in range(kidx)) for _ in range(nrow)})
        cells = {}
        for col in range(1, ncol + 1):
            for ix in idxs:
                if rnd.random() < 0.8:
                    cells[entry + (col,) + ix] = ("int", ber.INT, 100 * col + sum(ix))
        neighbours = {(1, 3, 6, 5, 0, 1): ("int", ber.INT, 1), table[:-1] + (table[-1] + 1, 1, 1, 1): ("int", ber.INT, 2),
                      table[:-1] + (table[-1] * 10 + 1, 1, 1): ("int", ber.INT, 3)}
        db = list(cells.items()) + list(neighbours.items())
        want = {}
        for o, v in cells.items():
            ix = ".".join(map(str, o[len(entry) + 1:]))
            want.setdefault(ix, {"0": ix})[str(o[len(entry)])] = v[2]
        for bulk in (None, 1, 3, 10):
            ag = agent.CommunityAgent(db)
            c = Client("127.0.0.1", V2C("public"), sender=ag)
            out.case((tuple(sorted(cells)), bulk))
            try:
                rows = run(c.bulktable(OID(otext(table)), bulk_size=bulk)) if bulk else run(c.table(OID(otext(entry))))
                got = {r["0"]: {k: (v if k == "0" else v.value) for k, v in r.items()} for r in rows}
                ok = got == want and len(rows) == len(want)
            except Exception as e:  # noqa
                got, ok = repr(e), False
            if not ok:
                out.fail({"kind": "table", "cells": [list(o) for o in sorted(cells)], "bulk": bulk, "table": list(table)}, got, want)


    # ---- LARGE: tables of more than a thousand cells, indices crossing the one / two / three digit boundaries
    for ncol, nrow in ((2, 600), (22, 50)) if tier == "quick" else ((2, 600), (22, 50), (3, 1200), (40, 30)):
        table = (1, 3, 6, 5, 2)
        entry = table + (1,)
        cells = {entry + (col, ix): ("int", ber.INT, 1000 * col + ix) for col in range(1, ncol + 1) for ix in range(1, nrow + 1)}
        db = list(cells.items()) + [((1, 3, 6, 5, 1, 1), ("int", ber.INT, 1)), ((1, 3, 6, 5, 20, 1, 1, 1), ("int", ber.INT, 2)),
                                    ((1, 3, 6, 5, 3, 1, 1, 1), ("int", ber.INT, 3))]
        want = {}
        for o, v in cells.items():
            want.setdefault(str(o[-1]), {"0": str(o[-1])})[str(o[len(entry)])] = v[2]
        for bulk in (None, 10, 50):
            ag = agent.CommunityAgent(db)
            c = Client("127.0.0.1", V2C("public"), sender=ag)
            out.case(("large-table", ncol, nrow, bulk))
            arm(60)
            try:
                rows = run(c.bulktable(OID(otext(table)), bulk_size=bulk)) if bulk else run(c.table(OID(otext(entry))))
                got = {r["0"]: {k: (v if k == "0" else v.value) for k, v in r.items()} for r in rows}
                ok = got == want and len(rows) == len(want)
                obs = "%d rows, %d cells" % (len(rows), sum(len(r) - 1 for r in rows))
            except TimeoutError:
                ok, obs = False, "no end within 60 s"
            except Exception as e:  # noqa
                ok, obs = False, repr(e)
            finally:
                disarm()
            if not ok:
                out.fail({"kind": "large-table", "columns": ncol, "rows": nrow, "bulk": bulk}, obs, "%d rows, %d cells" % (nrow, ncol * nrow))


# ============================================================================ config (C18)

def suite_config(out, tier, seed):
    rnd = random.Random(seed)
    db = [((1, 3, 1, 1, 0), ("int", ber.INT, 1))]

    class Multi:
        """speaks v1 and v2c with any community; records what reached the transport"""

        def __init__(self):
            self.seen = []

        async def __call__(self, endpoint, data, timeout=1, loop=None, retries=10):
            msg = ber.parse_community_message(data)
            self.seen.append({"timeout": timeout, "retries": retries, "version": msg["version"], "community": msg["community"]})
            ag = agent.CommunityAgent(db, version=msg["version"], community=msg["community"])
            return ag.respond(data)
    for _ in range(40 if tier == "quick" else 1000):
        tr = Multi()
        c = Client("127.0.0.1", V2C("public"), sender=tr)
        model = [{"timeout": 6, "retries": 10, "version": 1, "community": b"public"}]

        def request():
            run(c.get(OID("1.3.1.1.0")))
            return tr.seen[-1]
        scen_ops = []

        def rand_kw():
            kw = {}
            for k in rnd.sample(["timeout", "retries", "credentials"], rnd.randint(1, 2)):
                kw[k] = rnd.randint(1, 9) if k != "credentials" else rnd.choice([V1("v1comm"), V2C("other"), V2C("third")])
            return kw

        def apply(state, kw):
            s = dict(state)
            for k, v in kw.items():
                if k == "credentials":
                    s["version"], s["community"] = (0 if type(v) is V1 else 1), v.community.encode()
                else:
                    s[k] = v
            return s
        ok = True

        def block(depth):
            nonlocal ok
            for _ in range(rnd.randint(1, 3)):
                act = rnd.choice(["request", "configure", "nest", "bad", "raise"])
                scen_ops.append((depth, act))
                if act == "request":
                    if request() != model[-1]:
                        ok = False
                elif act == "configure":
                    kw = rand_kw()
                    c.configure(**kw)
                    model[-1] = apply(model[-1], kw)
                elif act == "bad":
                    try:
                        c.configure(no_such_setting=1)
                        ok = False
                    except TypeError:
                        pass
                elif act == "nest" and depth < 4:
                    kw = rand_kw()
                    model.append(apply(model[-1], kw))
                    try:
                        with c.reconfigure(**kw):
                            block(depth + 1)
                    except KeyError:
                        pass
                    model.pop()
                elif act == "raise" and depth > 0:
                    raise KeyError("leave the block by an exception")
        out.case(("config", _))
        try:
            block(0)
        except KeyError:
            pass
        if request() != model[0]:
            ok = False
        if not ok:
            out.fail({"kind": "config", "ops": scen_ops}, tr.seen[-3:], model)


# ============================================================================ trap (C19)

def suite_trap(out, tier, seed):
    import puresnmp.api.raw as raw
    from puresnmp.transport import SNMPTrapReceiverProtocol
    from puresnmp.api.pythonic import TrapInfo
    rnd = random.Random(seed)
    got = []

    async def cb(trap):
        got.append(trap)
    cap = {}

    async def fake_listen(addr, port, decode, loop):
        cap["proto"] = SNMPTrapReceiverProtocol(decode)
    saved = raw.listen
    raw.listen = fake_listen
    loop = asyncio.new_event_loop()
    try:
        raw.register_trap_callback(cb, credentials=V2C("trapcomm"), loop=loop)
    finally:
        raw.listen = saved
    proto = cap["proto"]

    class T:
        closed = False

        def close(self):
            self.closed = True
    proto.connection_made(T())

    serial = [0]

    def trap_bytes(comm, n):
        # every notification differs from the one before (uptime, payload values); sizes cross the 127/128 and 255/256
        # length-form boundaries of the outer structures
        serial[0] += 1
        k = serial[0]
        vbs = [((1, 3, 6, 1, 2, 1, 1, 3, 0), ("int", ber.TIMETICKS, 4200 + k)), ((1, 3, 6, 1, 6, 3, 1, 1, 4, 1, 0), ("oid", (1, 3, 6, 1, 4, 1, 9, k)))]
        vbs += [((1, 3, 6, 1, 4, 1, 9, i), ("int", ber.INT, 1000 * k + i)) for i in range(n)]
        return ber.build_community_message(1, comm, ber.build_pdu(ber.TRAP2, 77, 0, 0, vbs)), vbs
    seq = []
    foreign_communities = [b"other", b"trapcomm\xff", b"\x80trapcomm", b"trapcom", b"trapcommm", b"", b"TRAPCOMM"]
    schedule = [(None, None)] * (30 if tier == "quick" else 600)
    # LARGE: long runs of refused datagrams from ONE host, then valid notifications from that host
    for run_len in (5, 12, 40):
        host = ("198.51.100.7", 40000 + run_len)
        schedule += [(("foreign", "truncated", "garbage")[i % 3], host) for i in range(run_len)] + [("valid", host), ("valid", host)]
    for step, (fixed_kind, fixed_addr) in enumerate(schedule):
        kind = fixed_kind or rnd.choice(["valid", "valid", "foreign", "truncated", "garbage", "other-version"])
        if step == 0:
            kind = "other-version"       # the listener's first datagram is a well-formed SNMPv1 message
        data, vbs = trap_bytes(b"trapcomm" if kind != "foreign" else foreign_communities[step % len(foreign_communities)],
                               rnd.choice([0, 1, 2, 3, 3, 6, 9, 14, 25]))
        if kind == "other-version":
            data = ber.build_community_message(0, b"trapcomm", ber.build_pdu(ber.TRAP2, 77, 0, 0, vbs))
        if kind == "truncated":
            data = data[:rnd.randint(1, len(data) - 1)]
        if kind == "garbage":
            data = bytes(rnd.randrange(256) for _ in range(rnd.randint(0, 40)))
        seq.append(kind)
        before = len(got)
        addr = fixed_addr or ("192.0.2.%d" % rnd.randint(1, 200), rnd.randint(1024, 65000))
        out.case(("trap", kind, len(seq)))

        async def inject():
            try:
                proto.datagram_received(data, addr)
            except Exception:
                pass        # the event loop logs exceptions of protocol callbacks
            await asyncio.sleep(0)
        arm(2)
        try:
            loop.run_until_complete(inject())
        except TimeoutError:
            disarm()
            continue        # x690 hang on a garbage datagram: finding D15 (C20)
        finally:
            disarm()
        new = got[before:]
        scen = {"kind": "trap", "sequence": list(seq), "datagram": data.hex()}
        if kind == "valid":
            if len(new) != 1 or new[0].source is None or new[0].source.address != addr[0] or \
               [(tuple(v.oid.nodes), describe(v.value)) for v in new[0].value.varbinds] != [(o, describe_node(v)) for o, v in vbs] or \
               TrapInfo(new[0]).origin != addr[0]:
                out.fail(scen, repr(new), "delivered exactly once with origin %s and the bindings sent" % addr[0])
                break
            info = TrapInfo(new[0])
            want_values = {".".join(map(str, o)): v[2] for o, v in vbs[2:]}
            import datetime as _dt
            view = (info.uptime, info.oid, dict(info.values))
            if (info.uptime, info.oid, dict(info.values)) != view:
                out.fail(scen, "a second read of the pythonic view differs: %r" % ((info.uptime, info.oid, dict(info.values)),), "the same as the first read: %r" % (view,))
                break
            want = (_dt.timedelta(milliseconds=10 * vbs[0][1][2]), ".".join(map(str, vbs[1][1][1])), want_values)
            if view != want:
                out.fail(scen, repr(view), "pythonic view (uptime, oid, values) of THIS notification: %r" % (want,))
                break
        elif kind == "foreign" and new:
            out.fail(scen, repr(new), "a foreign community is never delivered")
            break
        # (kind "other-version": whether a version-0 message carrying a v2 trap PDU is delivered is not claimed either way;
        #  it is sent so that the listener has seen another protocol version before the v2c notifications)
        if proto.transport.closed:
            out.fail(scen, "the listener closed its transport", "later notifications are still delivered")
            break


SUITES.update({"udp": suite_udp, "concurrent": suite_concurrent, "tables": suite_tables, "config": suite_config, "trap": suite_trap})


if __name__ == "__main__":
    sys.exit(main(sys.argv[1:]))
