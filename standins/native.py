#!/venv/bin/python
"""
Bounded stand-ins and replay driver: runs the REAL puresnmp (under /venv/bin/python) against the independent
reference agent / codec on an enumerated finite domain and evaluates the property natively.

Never counted as proved.  Roles:  (i) find a concrete failing input for an obligation the verifier refuted or
left undecided (replay);  (ii) cover the parts of a property that lie outside the assumed contracts of the
dependency (one-arc OIDs, arc-2 OIDs);  (iii) validate the assumed contracts (x690, stdlib) on their domain.

usage:  native.py <suite> <tier> <seed>          prints one JSON object
        native.py --replay <scenario.json>       re-runs one recorded scenario, exit 1 if it still fails
"""
import asyncio
import itertools
import json
import os
import random
import resource
import signal
import sys
import time

HERE = os.path.dirname(os.path.dirname(os.path.abspath(__file__)))
sys.path.insert(0, HERE)
from refagent import ber, agent  # noqa: E402

import warnings  # noqa: E402
warnings.simplefilter("ignore")
from puresnmp import Client, V1, V2C, V3, Auth, Priv, PyWrapper  # noqa: E402
from puresnmp.exc import SnmpError, NoSuchOID, FaultySNMPImplementation  # noqa: E402
from x690.types import ObjectIdentifier as OID, Integer, OctetString  # noqa: E402


def run(coro):
    return asyncio.new_event_loop().run_until_complete(coro)


def otext(t):
    return ".".join(map(str, t))


class Out:
    def __init__(self, suite):
        self.suite, self.evaluations, self.cases, self.failures, self.t0 = suite, 0, set(), [], time.time()

    def case(self, key):
        self.evaluations += 1
        self.cases.add(key)

    def fail(self, scenario, observed, required, finding=None):
        if len(self.failures) < 40:
            self.failures.append({"finding": finding, "scenario": scenario, "observed": observed, "required": required})

    def dump(self, error=None):
        print(json.dumps({"suite": self.suite, "evaluations": self.evaluations, "distinct": len(self.cases),
                          "failures": self.failures, "error": error, "seconds": round(time.time() - self.t0, 2)}, default=str))


# ============================================================================ walks (C01 C02 C03 C16)

def walk_patterns(log_pdus, responses):
    """classify a run by the recorded findings' patterns (D1, D2, D18)"""
    found = set()
    for req, resp in zip(log_pdus, responses):
        k = len(req["varbinds"])
        vbs = resp
        ends = [v == agent.END for _, v in vbs]
        if any(ends[i] and not all(ends[i:]) for i in range(len(ends))):
            found.add("D1")
        oids = [o for o, v in vbs if v != agent.END]
        if len(set(oids)) != len(oids):
            found.add("D2")
        if req["tag"] == ber.GETBULK and len(vbs) < k:
            found.add("D18")
    return found


class RecordingAgent(agent.CommunityAgent):
    def handle_pdu(self, pdu, version):
        node = super().handle_pdu(pdu, version)
        self.responses = getattr(self, "responses", [])
        self.responses.append([(tuple(vb[2][0][1]), vb[2][1]) for vb in node[2][3][2]])
        return node


def walk_case(db, roots, bulk, truncate=None):
    ag = RecordingAgent(db, truncate=truncate)
    c = Client("127.0.0.1", V2C("public"), sender=ag)

    async def go():
        out = []
        it = c.bulkwalk([OID(otext(r)) for r in roots], bulk_size=bulk) if bulk else c.multiwalk([OID(otext(r)) for r in roots])
        async for vb in it:
            out.append(tuple(vb.oid.nodes))
            if len(ag.log) > 400:
                raise RuntimeError("runaway")
        return out
    try:
        got = run(go())
        exc = None
    except Exception as e:  # noqa
        got, exc = None, "%s: %s" % (type(e).__name__, e)
    want = sorted(o for o, _ in db if any(o[:len(r)] == r and o != r for r in roots))
    optional = set(r for r in roots)
    pats = walk_patterns(ag.log, getattr(ag, "responses", []))
    ok = exc is None and sorted(set(got) - optional) == want and len(got) == len(set(got)) and \
        (len(roots) > 1 or bulk or got == sorted(got))
    return ok, got, exc, want, pats


def suite_walks(out, tier, seed, only=None):
    """only: 'getnext' (C01), 'bulk' (C02) or None (both)"""
    rnd = random.Random(seed)
    arcs = [(1, 3, a, b) for a in (1, 2, 3, 4) for b in (1, 2, 3)] + [(1, 3, a, b, 1) for a in (2, 3) for b in (1, 2)]
    n = 400 if tier == "quick" else 4000
    for _ in range(n):
        db = [(o, ("int", ber.INT, i)) for i, o in enumerate(sorted(rnd.sample(arcs, rnd.randint(0, 9))))]
        k = rnd.choice([1, 1, 2, 2, 3])
        roots = rnd.sample([(1, 3, 1), (1, 3, 2), (1, 3, 3), (1, 3, 4), (1, 3, 9), (1, 3, 2, 1)], k)
        roots = [r for r in roots if not any(r != q and r[:len(q)] == q for q in roots)]
        bulk = rnd.choice([None, None, 1, 2, 3, 5])
        if only == "getnext":
            bulk = None
        elif only == "bulk" and bulk is None:
            bulk = rnd.choice([1, 2, 3, 5])
        cut = rnd.choice([None, None, 1, 2, 3]) if bulk else None
        trunc = (lambda vbs, nn, m, r, c=cut: c) if cut else None
        key = (tuple(o for o, _ in db), tuple(roots), bulk, cut)
        out.case(key)
        ok, got, exc, want, pats = walk_case(db, roots, bulk, trunc)
        if not ok:
            scen = {"kind": "walk", "db": [list(o) for o, _ in db], "roots": [list(r) for r in roots], "bulk": bulk, "cut": cut}
            finding = sorted(pats)[0] if pats else None
            out.fail(scen, {"got": got, "exception": exc}, {"instances_below_roots": want}, finding=finding)


def replay_walk(s):
    db = [(tuple(o), ("int", ber.INT, i)) for i, o in enumerate(s["db"])]
    trunc = (lambda vbs, nn, m, r, c=s.get("cut"): c) if s.get("cut") else None
    ok, got, exc, want, pats = walk_case(db, [tuple(r) for r in s["roots"]], s.get("bulk"), trunc)
    return ok, {"got": got, "exception": exc, "want": want, "patterns": sorted(pats)}


# ============================================================================ wire (C05 C06): D16, D17 and codec validation

def suite_wire(out, tier, seed, part=None):
    rnd = random.Random(seed)
    sent = []

    class Capture(agent.CommunityAgent):
        async def __call__(self, endpoint, data, timeout=1, loop=None, retries=10):
            sent.append(bytes(data))
            return await super().__call__(endpoint, data, timeout=timeout, loop=loop, retries=retries)
    oids = [(1,), (0, 0), (1, 3), (2, 5), (1, 3, 6, 1, 2, 1, 1, 1, 0), (1, 3, 127, 128, 16383, 16384, 2 ** 32 - 1), (2, 39, 1),
            tuple([1, 3] + [7] * 126)]
    for o in (oids if part in (None, "emit") else []):
        ag = Capture([(o, ("int", ber.INT, 1))] if len(o) >= 2 else [])
        c = Client("127.0.0.1", V2C("public"), sender=ag)
        out.case(("emit", o))
        try:
            run(c.get(OID(otext(o))))
        except Exception:
            pass
        try:
            msg = ber.parse_community_message(sent[-1])
            read = msg["pdu"]["varbinds"][0][0]
        except Exception as e:  # noqa
            read = "undecodable: %s" % e
        if read != o:
            out.fail({"kind": "emit-oid", "oid": list(o)}, {"independent_decoder_reads": list(read) if isinstance(read, tuple) else read},
                     {"oid": list(o)}, finding="D16" if len(o) == 1 else None)
    # responses: every value type x boundary values x definite length forms, read back through multiget
    values = []
    for v in (0, 1, -1, 127, 128, -128, -129, 255, 256, 2 ** 31 - 1, -2 ** 31, 2 ** 32 - 1, 2 ** 63, 2 ** 64 - 1):
        values.append(("int", ber.INT, v))
        for tag in (ber.COUNTER32, ber.GAUGE32, ber.TIMETICKS, ber.COUNTER64):
            if 0 <= v < (2 ** 64 if tag == ber.COUNTER64 else 2 ** 32):
                values.append(("int", tag, v))
    for ln in (0, 1, 126, 127, 128, 255, 256, 1000):
        values.append(("bytes", ber.OCTETS, bytes((i * 7) & 255 for i in range(ln))))
        values.append(("bytes", ber.OPAQUE, bytes(ln)))
    values.append(("bytes", ber.IPADDR, bytes([192, 0, 2, 1])))
    values += [("null", ber.NULL), ("null", ber.NOSUCHOBJECT), ("null", ber.NOSUCHINSTANCE), ("null", ber.ENDOFMIBVIEW)]
    for o in ((0, 0), (1, 3, 6), (1, 39, 2 ** 32 - 1), (2, 5, 3), (2, 39, 1), (2, 40, 1), (2, 100, 3), (2, 999, 3)):
        values.append(("oid", o))
    if part == "emit":
        return
    forms = ["min", 1, 2, 4] if tier == "quick" else ["min", 1, 2, 3, 4]
    for val in values:
        for form in forms:
            if form != "min" and val[0] == "bytes" and len(val[2]) + 64 >= 256 ** form:
                continue            # the enclosing TLVs must fit the forced length form too
            out.case(("value", repr(val)[:40], form))
            ag = agent.CommunityAgent([((1, 3, 1), val)], form=form)
            c = Client("127.0.0.1", V2C("public"), sender=ag)
            try:
                got = run(c.multiget([OID("1.3.1")]))[0]
                obs = describe(got)
            except Exception as e:  # noqa
                obs = "exception %s: %s" % (type(e).__name__, e)
            want = describe_node(val)
            if obs != want:
                fid = "D17" if val[0] == "oid" and val[1][0] == 2 and val[1][1] >= 40 else None
                out.fail({"kind": "value", "value": [val[0], list(val[1]) if val[0] == "oid" else val[1],
                                                      (val[2].hex() if isinstance(val[2], bytes) else val[2]) if len(val) > 2 else None],
                          "form": form}, obs, want, finding=fid)


TAGNAME = {ber.INT: "Integer", ber.COUNTER32: "Counter", ber.GAUGE32: "Gauge", ber.TIMETICKS: "TimeTicks", ber.COUNTER64: "Counter64",
           ber.OCTETS: "OctetString", ber.OPAQUE: "Opaque", ber.IPADDR: "IpAddress", ber.NULL: "Null",
           ber.NOSUCHOBJECT: "NoSuchObject", ber.NOSUCHINSTANCE: "NoSuchInstance", ber.ENDOFMIBVIEW: "EndOfMibView"}


def describe_node(node):
    if node[0] == "oid":
        return "ObjectIdentifier:" + otext(node[1])
    if node[0] == "null":
        return TAGNAME[node[1]] + ":None"
    if node[0] == "int":
        return "%s:%d" % (TAGNAME[node[1]], node[2])
    if node[1] == ber.IPADDR:
        return "IpAddress:" + ".".join(str(b) for b in node[2])
    return "%s:%s" % (TAGNAME[node[1]], node[2].hex())


def describe(x):
    name = type(x).__name__
    v = x.value
    if name == "ObjectIdentifier":
        return "ObjectIdentifier:" + str(v)
    if name == "IpAddress":
        return "IpAddress:" + str(v)
    if isinstance(v, bytes):
        return "%s:%s" % (name, v.hex())
    return "%s:%s" % (name, v)


# ============================================================================ usm (C09): forged / altered responses

def suite_usm(out, tier, seed):
    rnd = random.Random(seed)
    db = [((1, 3, 6, 1, 2, 1, 1, 5, 0), ("bytes", ber.OCTETS, b"authentic-value"))]
    for hashname in ("md5", "sha1"):
        ag = agent.V3Agent(db, auth=(hashname, b"authpass1"))
        state = {"mode": None}

        async def mitm(endpoint, data, timeout=1, loop=None, retries=10, ag=ag, state=state):
            reply = await ag(endpoint, data)
            msg = ber.parse_v3_message(data)
            if msg["user"] == b"" or state["mode"] is None:
                return reply
            return forge(reply, state["mode"], ag)
        creds = V3("user", Auth(b"authpass1", hashname))
        authentic = run(Client("127.0.0.1", creds, sender=ag).get(OID("1.3.6.1.2.1.1.5.0")))
        modes = [("flags", f) for f in (0, 4)] + [("digest", d) for d in ("empty", "short", "zero", "flip")] + \
                [("user", b"intruder"), ("value", b"forged-value"), ("report-plain", None), ("engine", b"other-engine")]
        nflip = 12 if tier == "quick" else 400
        for mode in modes + [("bit", rnd.randrange(0, 8 * 120)) for _ in range(nflip)]:
            out.case((hashname,) + tuple(map(str, mode)))
            state["mode"] = mode
            c = Client("127.0.0.1", creds, sender=mitm)
            signal.alarm(2)
            try:
                got = run(c.get(OID("1.3.6.1.2.1.1.5.0")))
                ok = type(got) is type(authentic) and got.value == authentic.value
                obs = describe(got)
            except TimeoutError:
                ok, obs = True, "hang (x690 indefinite length: finding D15, reported under C20)"
            except Exception as e:  # noqa
                ok, obs = True, "exception %s" % type(e).__name__
            finally:
                signal.alarm(0)
            if not ok:
                out.fail({"kind": "forgery", "hash": hashname, "mode": [str(m) for m in mode]}, obs,
                         "an exception or exactly " + describe(authentic))


def forge(reply, mode, ag):
    kind, arg = mode
    if kind == "bit":
        b = bytearray(reply)
        pos = arg % (8 * len(b))
        b[pos // 8] ^= 1 << (pos % 8)
        return bytes(b)
    m = ber.parse_v3_message(reply)
    pdu = m["scoped"]["pdu"]
    vbs = [(o, v) for o, v in pdu["varbinds"]]
    flags, user, authp, eng, tag = m["flags"], m["user"], m["auth_params"], m["engine_id"], pdu["tag"]
    if kind == "flags":
        flags, authp = arg, b""
        vbs = [(o, ("bytes", ber.OCTETS, b"forged-value")) for o, _ in vbs]
    elif kind == "digest":
        authp = {"empty": b"", "short": authp[:6], "zero": b"\x00" * 12, "flip": bytes([authp[0] ^ 1]) + authp[1:]}[arg]
        vbs = [(o, ("bytes", ber.OCTETS, b"forged-value")) for o, _ in vbs]
    elif kind == "user":
        user = arg
    elif kind == "value":
        vbs = [(o, ("bytes", ber.OCTETS, arg)) for o, _ in vbs]
    elif kind == "report-plain":
        flags, authp, tag = 0, b"", ber.REPORT
        vbs = [(o, ("bytes", ber.OCTETS, b"forged-value")) for o, _ in vbs]
    elif kind == "engine":
        eng = arg
    node = ber.build_pdu(tag, pdu["request_id"], pdu["f1"], pdu["f2"], vbs)
    return ber.build_v3_message(m["msg_id"], m["max_size"], flags, eng, m["boots"], m["time"], user, authp, m["priv_params"],
                                ber.build_scoped(m["scoped"]["context_engine_id"], m["scoped"]["context_name"], node))


def _alarm(signum, frame):
    raise TimeoutError("alarm")


SUITES = {"walks": suite_walks, "walks-getnext": lambda o, t, s: suite_walks(o, t, s, "getnext"),
          "walks-bulk": lambda o, t, s: suite_walks(o, t, s, "bulk"), "wire": suite_wire, "wire-emit": lambda o, t, s: suite_wire(o, t, s, "emit"),
          "wire-values": lambda o, t, s: suite_wire(o, t, s, "values"), "usm": suite_usm}
REPLAY = {"walk": replay_walk}


def main(argv):
    signal.signal(signal.SIGALRM, _alarm)
    try:
        resource.setrlimit(resource.RLIMIT_AS, (3 * 2 ** 30, 3 * 2 ** 30))
    except Exception:
        pass
    if argv and argv[0] == "--replay":
        s = json.load(open(argv[1]))
        scen = s.get("scenario") or s
        fn = REPLAY.get(scen.get("kind"))
        if fn is None:
            print(json.dumps({"reproduced": None, "note": "no native replay for scenarios of kind %r" % scen.get("kind")}))
            return 2
        ok, detail = fn(scen)
        print(json.dumps({"reproduced": not ok, "detail": detail}, default=str))
        return 0 if ok else 1
    suite, tier, seed = argv[0], argv[1], int(argv[2])
    out = Out(suite)
    try:
        SUITES[suite](out, tier, seed)
        out.dump()
    except Exception as e:  # noqa
        import traceback
        out.dump(error=traceback.format_exc()[-1500:])
    return 0



# ============================================================================ ops (C04 C07 C08 C15)

class Scripted(agent.CommunityAgent):
    """community agent with a scripted deviation"""

    def __init__(self, db, dev=None, **kw):
        super().__init__(db, **kw)
        self.dev = dev or {}

    def handle_pdu(self, pdu, version):
        node = super().handle_pdu(pdu, version)
        vbl = node[2][3][2]
        if self.dev.get("drop") and vbl:
            vbl.pop()
        if self.dev.get("add"):
            vbl.append(("seq", ber.SEQ, [("oid", (1, 3, 99, 1)), ("int", ber.INT, 7)]))
        if "status" in self.dev:
            node[2][1] = ("int", ber.INT, self.dev["status"])
            node[2][2] = ("int", ber.INT, self.dev.get("index", 0))
        return node


OPS_DB = [((1, 3, 1, 1, 0), ("int", ber.INT, 11)), ((1, 3, 1, 2, 0), ("bytes", ber.OCTETS, b"two")),
          ((1, 3, 1, 3, 0), ("int", ber.TIMETICKS, 290)), ((1, 3, 1, 4, 0), ("bytes", ber.IPADDR, bytes([10, 0, 0, 1]))),
          ((1, 3, 1, 5, 0), ("int", ber.COUNTER64, 2 ** 63)), ((1, 3, 1, 6, 0), ("oid", (1, 3, 6, 1))), ((1, 3, 1, 7, 0), ("null", ber.NULL))]


def suite_ops(out, tier, seed, part=None):
    from puresnmp.exc import ErrorResponse, InvalidResponseId
    import puresnmp.exc as E
    rnd = random.Random(seed)
    present = [o for o, _ in OPS_DB]

    def client(ag):
        return Client("127.0.0.1", V2C("public"), sender=ag)

    def attempt(coro):
        try:
            return run(coro), None
        except Exception as e:  # noqa
            return None, e
    # ---- C04: results are the agent's answers, in order; count mismatches refused
    if part in (None, "C04"):
        for _ in range(60 if tier == "quick" else 600):
            k = rnd.randint(1, 4)
            oids = [rnd.choice(present + [(1, 3, 1, 9, 0), (1, 3, 2, 1)]) for _ in range(k)]
            dev = rnd.choice([{}, {}, {"drop": 1}, {"add": 1}])
            ag = Scripted(OPS_DB, dev)
            out.case(("multiget", tuple(oids), tuple(dev)))
            res, exc = attempt(client(ag).multiget([OID(otext(o)) for o in oids]))
            if dev:
                if not isinstance(exc, SnmpError):
                    out.fail({"kind": "op", "op": "multiget", "oids": oids, "dev": dev}, repr(res or exc), "SnmpError (binding count differs)")
            else:
                want = [describe_node(ag.db.get(o) or (agent.NSI if any(x[:len(o) - 1] == tuple(o)[:len(o) - 1] for x in ag.db.oids) else agent.NSO)) for o in oids]
                if exc is not None or [describe(v) for v in res] != want:
                    out.fail({"kind": "op", "op": "multiget", "oids": oids}, repr(res or exc), want)
            # getnext of each
            o = rnd.choice(present + [(1, 3, 0), (1, 3, 1, 7, 0), (1, 3, 9)])
            ag = Scripted(OPS_DB)
            out.case(("getnext", o))
            res, exc = attempt(client(ag).getnext(OID(otext(o))))
            s = ag.db.succ(o)
            if s is None:
                if not isinstance(exc, NoSuchOID):
                    out.fail({"kind": "op", "op": "getnext", "oid": o}, repr(res or exc), "NoSuchOID (end of the MIB view)")
            elif exc is not None or tuple(res.oid.nodes) != s or describe(res.value) != describe_node(ag.db.get(s)):
                out.fail({"kind": "op", "op": "getnext", "oid": o}, repr(res or exc), [s, describe_node(ag.db.get(s))])
            # set
            ag = Scripted(OPS_DB, rnd.choice([{}, {"add": 1}, {"drop": 1}]))
            val = rnd.choice([Integer(rnd.randint(-5, 5)), OctetString(b"x" * rnd.randint(0, 3))])
            out.case(("set", o, tuple(ag.dev)))
            res, exc = attempt(client(ag).set(OID(otext(o)), val))
            if ag.dev:
                if not isinstance(exc, SnmpError):
                    out.fail({"kind": "op", "op": "set", "oid": o, "dev": ag.dev}, repr(res or exc), "SnmpError")
            elif exc is not None or describe(res) != describe(val):
                out.fail({"kind": "op", "op": "set", "oid": o}, repr(res or exc), describe(val))
    # ---- C07: request-id echo / perturbation with a stepping clock
    if part in (None, "C07"):
        import puresnmp.api.raw as raw
        import puresnmp.util as util
        tick = itertools.count(1000)
        saved = raw.get_request_id
        raw.get_request_id = lambda: next(tick)
        try:
            for op in ("get", "getnext", "set", "bulkget", "walk"):
                for off in (0, 1, -1, 12345):
                    ag = Scripted(OPS_DB, rid_offset=off)
                    c = client(ag)
                    out.case(("rid", op, off))
                    o = OID("1.3.1.1.0")
                    coro = {"get": lambda: c.get(o), "getnext": lambda: c.getnext(o), "set": lambda: c.set(o, Integer(1)),
                            "bulkget": lambda: c.bulkget([], [o], 2), "walk": lambda: collect(c.walk(OID("1.3.1")))}[op]()
                    res, exc = attempt(coro)
                    if off == 0 and exc is not None:
                        out.fail({"kind": "rid", "op": op, "offset": off}, repr(exc), "accepted (the agent echoed the id it was sent)")
                    if off != 0 and not isinstance(exc, InvalidResponseId):
                        out.fail({"kind": "rid", "op": op, "offset": off}, repr(res or exc), "InvalidResponseId")
        finally:
            raw.get_request_id = saved
    # ---- C08: error-status x error-index
    if part in (None, "C08"):
        table = {getattr(E, n).IDENTIFIER: getattr(E, n) for n in dir(E) if isinstance(getattr(E, n), type)
                 and issubclass(getattr(E, n), ErrorResponse) and getattr(E, n) is not ErrorResponse}
        for status in list(range(1, 20)) + [255, 65536, -1, -128]:
            for index in (0, 1, 2, 3, 7, -1):
                for op in ("multiget", "multiset", "bulkget"):
                    ag = Scripted(OPS_DB, {"status": status, "index": index})
                    c = client(ag)
                    oids = [(1, 3, 1, 1, 0), (1, 3, 1, 2, 0)]
                    out.case(("err", status, index, op))
                    coro = {"multiget": lambda: c.multiget([OID(otext(o)) for o in oids]),
                            "multiset": lambda: c.multiset({OID(otext(o)): Integer(1) for o in oids}),
                            "bulkget": lambda: c.bulkget([], [OID(otext(o)) for o in oids], 1)}[op]()
                    res, exc = attempt(coro)
                    want_cls = table.get(status, ErrorResponse)
                    ok = type(exc) is want_cls and exc.error_status == status
                    if ok:
                        n = 2
                        want_oid = otext(oids[index - 1]) if 1 <= index <= n and op != "bulkget" else None
                        got_oid = str(exc.offending_oid) if exc.offending_oid else ""
                        if op != "bulkget" and (got_oid or None) != want_oid:
                            ok = False
                    if not ok:
                        out.fail({"kind": "err", "status": status, "index": index, "op": op}, repr(res or exc),
                                 "%s with status %d" % (want_cls.__name__, status))
    # ---- C15: pythonic wrapper
    if part in (None, "C15"):
        from datetime import timedelta
        from ipaddress import IPv4Address
        from puresnmp.util import BulkResult

        def builtin(v):
            if v is None or type(v) in (str, int, bytes, timedelta, IPv4Address, bool):
                return True
            if isinstance(v, (list, tuple)):
                return all(builtin(x) for x in v)
            if isinstance(v, dict):
                return all(builtin(k) and builtin(x) for k, x in v.items())
            if isinstance(v, BulkResult):
                return builtin(v.scalars) and builtin(v.listing)
            return False
        ag = Scripted(OPS_DB)
        w = PyWrapper(client(ag))
        o = "1.3.1.1.0"
        calls = {"get": lambda: w.get(o), "getnext": lambda: w.getnext(o), "multiget": lambda: w.multiget([o, "1.3.1.3.0", "1.3.1.4.0"]),
                 "set": lambda: w.set(o, Integer(3)), "multiset": lambda: w.multiset({o: Integer(3)}),
                 "walk": lambda: collect(w.walk("1.3.1")), "multiwalk": lambda: collect(w.multiwalk(["1.3.1"])),
                 "bulkwalk": lambda: collect(w.bulkwalk(["1.3.1"], 3)), "bulkget": lambda: w.bulkget(["1.3.1.1"], ["1.3.1.2"], 3),
                 "table": lambda: w.table("1.3.1"), "bulktable": lambda: w.bulktable("1.3")}
        for name, mk in calls.items():
            out.case(("py", name))
            res, exc = attempt(mk())
            if exc is not None or not builtin(res):
                out.fail({"kind": "pythonic", "op": name}, repr(res or exc), "only built-in types (dictionary keys included)")


async def collect(agen):
    return [x async for x in agen]


# ============================================================================ types (C17)

def suite_types(out, tier, seed):
    from datetime import timedelta
    from ipaddress import IPv4Address
    from puresnmp.types import Counter, Counter64, TimeTicks, IpAddress, Gauge
    from x690 import decode
    rnd = random.Random(seed)
    for bits, cls in ((32, Counter), (64, Counter64)):
        for v in [0, 1, -1, -2 ** 70, 2 ** bits - 1, 2 ** bits, 2 ** bits + 5, 2 ** (bits + 32) + 2 ** 32 + 5] + [rnd.randint(-2 ** 70, 2 ** 140) for _ in range(200)]:
            out.case((cls.__name__, v))
            want = 0 if v <= 0 else v % 2 ** bits
            if cls(v).value != want:
                out.fail({"kind": "counter", "cls": cls.__name__, "v": v}, cls(v).value, want)
    n_dense = 20000 if tier == "quick" else 400000
    for n in itertools.chain(range(n_dense), (rnd.randrange(2 ** 32) for _ in range(2000)), [2 ** 32 - 1]):
        out.case(("ticks", n))
        if TimeTicks(timedelta(microseconds=n * 10000)).value != n:
            out.fail({"kind": "ticks-from-timedelta", "n": n}, TimeTicks(timedelta(microseconds=n * 10000)).value, n)
            break
        if TimeTicks(n).pythonize() != timedelta(microseconds=n * 10000):
            out.fail({"kind": "ticks-to-timedelta", "n": n}, str(TimeTicks(n).pythonize()), str(timedelta(microseconds=n * 10000)))
            break
    for cls in (Counter, Gauge, TimeTicks, Counter64, Integer):
        top = 2 ** 64 if cls is Counter64 else 2 ** 32
        vals = [0, 1, 127, 128, 255, 256, 2 ** 31 - 1, 2 ** 31, top - 1] + ([-1, -128, -129, -2 ** 31] if cls is Integer else [])
        for v in vals:
            out.case(("roundtrip", cls.__name__, v))
            back, _ = decode(bytes(cls(v)))
            if type(back) is not cls or back.value != v:
                out.fail({"kind": "roundtrip", "cls": cls.__name__, "v": v}, repr(back), v)
    for ip in [0, 1, 2 ** 32 - 1, 0xC0000201] + [rnd.randrange(2 ** 32) for _ in range(300)]:
        out.case(("ip", ip))
        back, _ = decode(bytes(IpAddress(IPv4Address(ip))))
        if back.value != IPv4Address(ip):
            out.fail({"kind": "ip", "ip": ip}, str(back.value), str(IPv4Address(ip)))


SUITES.update({"ops": suite_ops, "ops-C04": lambda o, t, s: suite_ops(o, t, s, "C04"), "ops-C07": lambda o, t, s: suite_ops(o, t, s, "C07"),
               "ops-C08": lambda o, t, s: suite_ops(o, t, s, "C08"), "ops-C15": lambda o, t, s: suite_ops(o, t, s, "C15"),
               "types": suite_types})



# ============================================================================ malformed (C20): mutation sweep with a resource budget

def suite_malformed(out, tier, seed):
    """Every truncation, single-bit flips and byte substitutions at TLV header positions of valid v2c/v3 responses and
    discovery replies: processing must end (result or exception) within a CPU/memory budget, and the SAME client must
    then complete a valid request."""
    rnd = random.Random(seed)
    db = [((1, 3, 1, i, 0), ("int", ber.INT, i)) for i in range(1, 4)]

    def header_positions(data):
        pos, out_ = [], []
        stack = [(0, len(data))]
        while stack:
            a, b = stack.pop()
            p = a
            while p < b:
                try:
                    tag = data[p]
                    ln, start = ber.dec_len(data, p + 1)
                except Exception:
                    break
                out_.extend(range(p, start))
                if tag & 0x20 or tag == 0x04:
                    if tag & 0x20:
                        stack.append((start, min(start + ln, b)))
                p = start + ln
        return sorted(set(out_))

    def mutants(data):
        hp = header_positions(data)
        ms = []
        for cut in range(0, len(data)):
            ms.append(("truncate", cut, data[:cut]))
        for p in hp:
            for val in (0x80, 0x81, 0x82, 0x84, 0xff, 0x00, 0x7f, 0x30, 0x04):
                ms.append(("subst", (p, val), data[:p] + bytes([val]) + data[p + 1:]))
            for bit in range(8):
                ms.append(("flip", (p, bit), data[:p] + bytes([data[p] ^ (1 << bit)]) + data[p + 1:]))
        for _ in range(20):
            ms.append(("random", None, bytes(rnd.randrange(256) for _ in range(rnd.randint(0, 60)))))
        if tier == "quick":
            rnd.shuffle(ms)
            ms = ms[:40]
        return ms

    def d15_pattern(data, a=0, b=None, depth=0):
        """x690's walk meets a length octet 0x80 with no 00 00 at or after the value's index (finding D15)"""
        b = len(data) if b is None else b
        p = a
        while p + 1 < b and depth < 8:
            tag, l0 = data[p], data[p + 1]
            if l0 == 0x80:
                return data.find(b"\x00\x00", p) == -1 or True
            if l0 < 0x80:
                ln, start = l0, p + 2
            else:
                k = l0 & 0x7F
                ln, start = int.from_bytes(data[p + 2:p + 2 + k], "big"), p + 2 + k
            if (tag & 0x20 or tag == 0x04) and d15_pattern(data, start, min(start + ln, b), depth + 1):
                return True
            if start + ln <= p:
                return False
            p = start + ln
        return False
    configs = [("v2c", None), ("v3", None), ("v3", ("md5", b"authpass1")), ("v3-discovery", None)]
    for cfg, auth in configs:
        if cfg == "v2c":
            base_agent = agent.CommunityAgent(db)
            creds = V2C("public")
        else:
            base_agent = agent.V3Agent(db, auth=auth)
            creds = V3("user", Auth(auth[1], auth[0]) if auth else None)
        # one authentic exchange to obtain the bytes to mutate
        cap = {}

        async def tap(endpoint, data, timeout=1, loop=None, retries=10):
            reply = await base_agent(endpoint, data)
            is_disco = cfg.startswith("v3") and ber.parse_v3_message(data)["user"] == b""
            cap.setdefault("discovery" if is_disco else "response", reply)
            return reply
        run(Client("127.0.0.1", creds, sender=tap).get(OID("1.3.1.1.0")))
        target = "discovery" if cfg == "v3-discovery" else "response"
        for kind, where, mutated in mutants(cap[target]):
            state = {"armed": True}

            async def sender(endpoint, data, timeout=1, loop=None, retries=10, mutated=mutated, state=state):
                reply = await base_agent(endpoint, data)
                is_disco = cfg.startswith("v3") and ber.parse_v3_message(data)["user"] == b""
                if state["armed"] and (("discovery" if is_disco else "response") == target):
                    state["armed"] = False
                    return mutated
                return reply
            c = Client("127.0.0.1", creds, sender=sender)
            out.case((cfg, kind, str(where)))
            scen = {"kind": "malformed", "config": cfg, "auth": bool(auth), "mutation": kind, "where": where, "datagram": mutated.hex()}
            indefinite = d15_pattern(mutated)
            t0 = time.process_time()
            signal.alarm(2)
            try:
                try:
                    run(c.get(OID("1.3.1.1.0")))
                except TimeoutError:
                    out.fail(scen, "no end within 2 s of CPU/wall time", "a result or an exception within the budget",
                             finding="D15" if indefinite else None)
                    continue
                except MemoryError:
                    out.fail(scen, "memory budget exceeded", "bounded memory", finding="D15" if indefinite else None)
                    continue
                except Exception:
                    pass
            finally:
                signal.alarm(0)
            if time.process_time() - t0 > 1.0:
                out.fail(scen, "%.1f s CPU" % (time.process_time() - t0), "time bounded by a small multiple of the datagram size")
            # the same client must be usable for the next (valid) request
            signal.alarm(2)
            try:
                got = run(c.get(OID("1.3.1.2.0")))
                if got.value != 2:
                    out.fail(scen, "follow-up request returned %r" % (got,), "Integer(2)")
            except TimeoutError:
                out.fail(scen, "follow-up request hangs", "the client is usable for the next request", finding="D15" if indefinite else None)
            except Exception as e:  # noqa
                out.fail(scen, "follow-up request failed: %s: %s" % (type(e).__name__, e), "the client is usable for the next request")
            finally:
                signal.alarm(0)


SUITES["malformed"] = suite_malformed


if __name__ == "__main__":
    sys.exit(main(sys.argv[1:]))
