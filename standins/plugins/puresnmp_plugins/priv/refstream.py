"""A keyed, invertible stream transform registered through the plug-in namespace (harness only, C11)."""
from typing import NamedTuple

from refagent.agent import stream_cipher

IDENTIFIER = "refstream"
IANA_ID = -99
CALLS = []
_COUNTER = [0]


class EncryptionResult(NamedTuple):
    encrypted_data: bytes
    salt: bytes


def encrypt_data(localised_key, engine_id, engine_boots, engine_time, data):
    _COUNTER[0] += 1
    salt = _COUNTER[0].to_bytes(8, "big")
    CALLS.append(("encrypt", localised_key, engine_id, engine_boots, engine_time, data))
    return EncryptionResult(stream_cipher(localised_key, engine_id, engine_boots, engine_time, salt, data), salt)


def decrypt_data(localised_key, engine_id, engine_boots, engine_time, salt, data):
    CALLS.append(("decrypt", localised_key, engine_id, engine_boots, engine_time, salt, data))
    return stream_cipher(localised_key, engine_id, engine_boots, engine_time, salt, data)
