/-
  The axioms of the OID theory used by pyvc (pyvc/theories.py, class OidTheory), proved for the
  structure they are meant to describe:  OIDs are `List ℕ`, `lt` is the lexicographic order
  (Python's tuple comparison on `.nodes`), `below x r` is `r <+: x` (r is a prefix of x; x690's `x in r`).
  Checked by `lean` (Lean 4 + Mathlib); the engine treats the same statements as axioms of an
  uninterpreted sort.
-/
import Mathlib

open List

namespace OidOrder

abbrev Oid := List ℕ

/-- L1: strict total order (irreflexive, transitive, total). -/
theorem lt_irrefl' (x : Oid) : ¬ x < x := lt_irrefl x
theorem lt_trans' {x y z : Oid} (h₁ : x < y) (h₂ : y < z) : x < z := lt_trans h₁ h₂
theorem lt_total' (x y : Oid) : x < y ∨ x = y ∨ y < x := lt_trichotomy x y

/-- L5: the prefix relation is reflexive, transitive, antisymmetric. -/
theorem below_refl (x : Oid) : x <+: x := prefix_refl x
theorem below_trans {x y z : Oid} (h₁ : y <+: x) (h₂ : z <+: y) : z <+: x := h₂.trans h₁
theorem below_antisymm {x y : Oid} (h₁ : y <+: x) (h₂ : x <+: y) : x = y :=
  (h₂.eq_of_length (le_antisymm h₂.length_le h₁.length_le))

/-- length: a proper descendant is longer. -/
theorem below_len {x r : Oid} (h : r <+: x) (hne : x ≠ r) : r.length < x.length := by
  rcases Nat.lt_or_ge r.length x.length with hl | hl
  · exact hl
  · exact absurd (h.eq_of_length (le_antisymm h.length_le hl)).symm hne

/-- L2: a proper descendant is greater than its root. -/
theorem below_gt {x r : Oid} (h : r <+: x) (hne : x ≠ r) : r < x := by
  obtain ⟨t, rfl⟩ := h
  cases t with
  | nil => simp at hne
  | cons a t =>
    induction r with
    | nil => exact List.nil_lt_cons a t
    | cons b r ih =>
      simp only [List.cons_append]
      apply List.cons_lt_cons_iff.mpr
      right
      exact ⟨rfl, ih (by simp)⟩

/-- L4: two prefixes of one OID are comparable. -/
theorem prefixes_comparable {x r r' : Oid} (h₁ : r <+: x) (h₂ : r' <+: x) : r' <+: r ∨ r <+: r' := by
  rcases Nat.le_total r'.length r.length with hl | hl
  · exact Or.inl (List.prefix_of_prefix_length_le h₂ h₁ hl)
  · exact Or.inr (List.prefix_of_prefix_length_le h₁ h₂ hl)

/-- L3: a subtree is convex in the lexicographic order. -/
theorem subtree_convex : ∀ {r x y z : Oid}, r <+: x → r <+: z → x < y → y < z → r <+: y := by
  intro r
  induction r with
  | nil => intro x y z _ _ _ _; exact List.nil_prefix
  | cons a r ih =>
    intro x y z hx hz hxy hyz
    obtain ⟨tx, rfl⟩ := hx
    obtain ⟨tz, rfl⟩ := hz
    cases y with
    | nil => exact absurd hxy (by simp)
    | cons b y =>
      simp only [List.cons_append] at hxy hyz
      rcases List.cons_lt_cons_iff.mp hxy with hab | ⟨hab, hxy'⟩
      · rcases List.cons_lt_cons_iff.mp hyz with hba | ⟨hba, _⟩
        · exact absurd (lt_trans hab hba) (lt_irrefl a)
        · exact absurd (hba ▸ hab) (lt_irrefl a)
      · subst hab
        rcases List.cons_lt_cons_iff.mp hyz with hba | ⟨_, hyz'⟩
        · exact absurd hba (lt_irrefl a)
        · have := ih (x := r ++ tx) (y := y) (z := r ++ tz) (List.prefix_append r tx) (List.prefix_append r tz) hxy' hyz'
          exact (List.cons_prefix_cons).mpr ⟨rfl, this⟩

end OidOrder
